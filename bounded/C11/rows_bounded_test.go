package sqlx

// BOUNDED stand-in of /verif for C11 row mapping (not a proof): every destination shape below is filled from every
// result set over the columns {a, b, c, x} (all orders of 0..3 of them, 0..2 rows, values with NULLs), through the
// single-row and the multi-row mapper, strict and partial. Checked: no panic; a nil result in strict mode means the
// result had at least as many columns as the destination has fields; tagged fields hold the value of the column of
// their name whatever the column order; an empty result of a single-row query is ErrNotFound.

import (
	"context"
	"database/sql"
	"database/sql/driver"
	"errors"
	"fmt"
	"reflect"
	"testing"

	"github.com/DATA-DOG/go-sqlmock"
)

type verifTagged struct {
	A int64          `db:"a"`
	B string         `db:"b"`
	C sql.NullString `db:"c"`
}
type verifUntagged struct {
	A int64
	B string
}
type verifPtrFields struct {
	A *int64  `db:"a"`
	B *string `db:"b"`
}
type verifEmbedded struct {
	verifTagged
	X int64 `db:"x"`
}
type verifMixed struct {
	A int64 `db:"a"`
	B string
}
type verifEmpty struct{}

func TestVerifBounded(t *testing.T) {
	colNames := []string{"a", "b", "c", "x"}
	var colSets [][]string
	var gen func(cur []string, used map[string]bool)
	gen = func(cur []string, used map[string]bool) {
		colSets = append(colSets, append([]string(nil), cur...))
		if len(cur) == 3 {
			return
		}
		for _, c := range colNames {
			if !used[c] {
				used[c] = true
				gen(append(cur, c), used)
				used[c] = false
			}
		}
	}
	gen(nil, map[string]bool{})
	valueOf := func(col string, row int, null bool) driver.Value {
		if null {
			return nil
		}
		switch col {
		case "a", "x":
			return int64(10*(row+1) + len(col))
		default:
			return fmt.Sprintf("%s%d", col, row)
		}
	}
	dests := map[string]func() any{
		"int64": func() any { return new(int64) }, "string": func() any { return new(string) }, "bool": func() any { return new(bool) },
		"tagged": func() any { return new(verifTagged) }, "untagged": func() any { return new(verifUntagged) }, "ptrfields": func() any { return new(verifPtrFields) },
		"embedded": func() any { return new(verifEmbedded) }, "mixed": func() any { return new(verifMixed) }, "empty": func() any { return new(verifEmpty) },
		"[]int64": func() any { return new([]int64) }, "[]*string": func() any { return new([]*string) }, "[]tagged": func() any { return new([]verifTagged) },
		"[]*tagged": func() any { return new([]*verifTagged) }, "[]untagged": func() any { return new([]verifUntagged) }, "[]empty": func() any { return new([]verifEmpty) },
		"map": func() any { return new(map[string]any) }, "**tagged": func() any { p := new(verifTagged); return &p }, "nonptr": func() any { return verifTagged{} }, "nil": func() any { return nil },
	}
	numFields := map[string]int{"tagged": 3, "untagged": 2, "ptrfields": 2, "embedded": 4, "mixed": 2, "empty": 0}
	db, mock, err := sqlmock.New()
	if err != nil {
		t.Fatal(err)
	}
	defer db.Close()
	runs, okRuns := 0, 0
	for _, cols := range colSets {
		for nrows := 0; nrows <= 2; nrows++ {
			for _, nulls := range []bool{false, true} {
				if nulls && nrows == 0 {
					continue
				}
				for name, mk := range dests {
					for _, strict := range []bool{true, false} {
						for _, multi := range []bool{false, true} {
							rows := sqlmock.NewRows(cols)
							for r := 0; r < nrows; r++ {
								var vals []driver.Value
								for _, c := range cols {
									vals = append(vals, valueOf(c, r, nulls && c == "c"))
								}
								rows.AddRow(vals...)
							}
							mock.ExpectQuery("q").WillReturnRows(rows)
							dest := mk()
							what := fmt.Sprintf("dest=%s cols=%v rows=%d nulls=%v strict=%v multi=%v", name, cols, nrows, nulls, strict, multi)
							var merr error
							func() {
								defer func() {
									if r := recover(); r != nil {
										t.Errorf("PANIC %s: %v", what, r)
									}
								}()
								merr = query(context.Background(), db, func(rs *sql.Rows) error {
									if multi {
										return unmarshalRows(dest, rs, strict)
									}
									return unmarshalRow(dest, rs, strict)
								}, "q")
							}()
							runs++
							if merr != nil {
								if !multi && nrows == 0 && dest != nil && reflect.TypeOf(dest).Kind() == reflect.Ptr && !errors.Is(merr, ErrNotFound) {
									if k := reflect.TypeOf(dest).Elem().Kind(); k != reflect.Slice && k != reflect.Map && k != reflect.Ptr {
										t.Errorf("%s: empty result must be ErrNotFound, got %v", what, merr)
									}
								}
								continue
							}
							okRuns++
							if nf, isStruct := numFields[name]; isStruct && strict && !multi && len(cols) < nf {
								t.Errorf("%s: strict mapping accepted %d columns for %d fields", what, len(cols), nf)
							}
							if tv, ok := dest.(*verifTagged); ok && !multi && nrows > 0 {
								for i, c := range cols {
									_ = i
									switch c {
									case "a":
										if tv.A != valueOf("a", 0, false).(int64) {
											t.Errorf("%s: A=%d", what, tv.A)
										}
									case "b":
										if tv.B != valueOf("b", 0, false).(string) {
											t.Errorf("%s: B=%q", what, tv.B)
										}
									case "c":
										if !nulls && tv.C.String != "c0" || nulls && tv.C.Valid {
											t.Errorf("%s: C=%+v", what, tv.C)
										}
									}
								}
							}
						}
					}
				}
			}
		}
	}
	if err := mock.ExpectationsWereMet(); err != nil {
		t.Logf("expectations: %v", err)
	}
	if runs < 5000 || okRuns == 0 {
		t.Fatalf("bounded run degenerate: %d runs, %d mapped", runs, okRuns)
	}
	fmt.Printf("BOUNDED {\"check\":\"sqlx row mapping: no panic, strictness, by-name mapping, ErrNotFound\",\"bound\":\"%d column lists (all orders of <= 3 of a,b,c,x) x rows 0..2 x NULLs x %d destinations x strict/partial x single/multi\",\"evaluations\":%d,\"distinct_nontrivial\":%d,\"exhaustive\":true}\n", len(colSets), len(dests), runs, okRuns)
}
