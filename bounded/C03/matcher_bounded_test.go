package search

// BOUNDED stand-in of /verif for C03 (not a proof): the real Tree.Add / Tree.Search are run against the
// property's own definition of matching, for every route table and request path within the bound below.
// Bound: patterns of 0..3 segments over {a, b, :x, :y} (no repeated parameter name), tables of 1..2 patterns
// exhaustively and tables of 3 patterns sampled (quick) or exhaustive (thorough, VERIF_TIER=thorough);
// request paths of 0..3 segments over {a, b, c}.

import (
	"fmt"
	"math/rand"
	"os"
	"strconv"
	"strings"
	"testing"
)

func verifPatterns() [][]string {
	syms := []string{"a", "b", ":x", ":y"}
	pats := [][]string{{""}} // the root pattern "/" is one empty literal segment
	var rec func(cur []string, d int)
	rec = func(cur []string, d int) {
		if len(cur) > 0 {
			seen := map[string]bool{}
			ok := true
			for _, s := range cur {
				if s[0] == ':' {
					if seen[s] {
						ok = false
					}
					seen[s] = true
				}
			}
			if ok {
				pats = append(pats, append([]string(nil), cur...))
			}
		}
		if d == 3 {
			return
		}
		for _, s := range syms {
			rec(append(cur, s), d+1)
		}
	}
	rec(nil, 0)
	return pats
}

func verifPaths() [][]string {
	syms := []string{"a", "b", "c"}
	out := [][]string{{""}} // the root path "/" counts as a single empty segment
	var rec func(cur []string, d int)
	rec = func(cur []string, d int) {
		if len(cur) > 0 {
			out = append(out, append([]string(nil), cur...))
		}
		if d == 3 {
			return
		}
		for _, s := range syms {
			rec(append(cur, s), d+1)
		}
	}
	rec(nil, 0)
	return out
}

// the property's definition: segment by segment, literal equal, ':name' matches exactly one segment
func verifMatches(pat, path []string) (map[string]string, bool) {
	if len(pat) != len(path) {
		return nil, false
	}
	params := map[string]string{}
	for i := range pat {
		if pat[i] != "" && pat[i][0] == ':' {
			params[pat[i][1:]] = path[i]
		} else if pat[i] != path[i] {
			return nil, false
		}
	}
	return params, true
}

func verifLiteral(pat []string) bool {
	for _, s := range pat {
		if s != "" && s[0] == ':' {
			return false
		}
	}
	return true
}

func TestVerifBounded(t *testing.T) {
	pats := verifPatterns()
	paths := verifPaths()
	seed, _ := strconv.Atoi(os.Getenv("VERIF_SEED"))
	rng := rand.New(rand.NewSource(int64(seed) + 1))
	thorough := os.Getenv("VERIF_TIER") == "thorough"
	tables, searches, nontrivial := 0, 0, 0
	check := func(idx []int) {
		tree := NewTree()
		var added [][]string
		for _, pi := range idx {
			if err := tree.Add("/"+strings.Join(pats[pi], "/"), pi); err != nil {
				t.Fatalf("Add(%v) into %v failed: %v", pats[pi], added, err)
			}
			added = append(added, pats[pi])
		}
		// a duplicate registration must be rejected
		if err := tree.Add("/"+strings.Join(pats[idx[0]], "/"), -1); err == nil {
			t.Fatalf("duplicate pattern %v accepted", pats[idx[0]])
		}
		tables++
		for _, p := range paths {
			searches++
			got, ok := tree.Search("/" + strings.Join(p, "/"))
			var matching []int
			literal := -1
			for _, pi := range idx {
				if _, m := verifMatches(pats[pi], p); m {
					matching = append(matching, pi)
					if verifLiteral(pats[pi]) {
						literal = pi
					}
				}
			}
			if len(matching) > 0 {
				nontrivial++
			}
			if ok != (len(matching) > 0) {
				t.Fatalf("table %v, path /%s: Search found=%v but matching patterns are %v", added, strings.Join(p, "/"), ok, matching)
			}
			if !ok {
				continue
			}
			item := got.Item.(int)
			in := false
			for _, m := range matching {
				in = in || m == item
			}
			if !in {
				t.Fatalf("table %v, path /%s: Search returned the item of %v, which does not match", added, strings.Join(p, "/"), pats[item])
			}
			if literal >= 0 && item != literal {
				t.Fatalf("table %v, path /%s: the all-literal pattern %v matches but %v was chosen", added, strings.Join(p, "/"), pats[literal], pats[item])
			}
			want, _ := verifMatches(pats[item], p)
			if len(want) != len(got.Params) {
				t.Fatalf("table %v, path /%s: params %v, want %v", added, strings.Join(p, "/"), got.Params, want)
			}
			for k, v := range want {
				if got.Params[k] != v {
					t.Fatalf("table %v, path /%s: params %v, want %v", added, strings.Join(p, "/"), got.Params, want)
				}
			}
		}
	}
	n := len(pats)
	for i := 0; i < n; i++ {
		check([]int{i})
		for j := i + 1; j < n; j++ {
			check([]int{i, j})
			check([]int{j, i})
		}
	}
	if thorough {
		for i := 0; i < n; i++ {
			for j := i + 1; j < n; j++ {
				for k := j + 1; k < n; k++ {
					check([]int{i, j, k})
				}
			}
		}
	} else {
		for s := 0; s < 20000; s++ {
			i, j, k := rng.Intn(n), rng.Intn(n), rng.Intn(n)
			if i == j || j == k || i == k {
				continue
			}
			check([]int{i, j, k})
		}
	}
	// literal segments that contain (but do not start with) ':' are literals: they must keep their priority over
	// parameters. The matcher visits children in map order, so every table is rebuilt and searched 40 times.
	pats, paths = nil, nil
	var rec2 func(cur []string, d int, syms []string, out *[][]string)
	rec2 = func(cur []string, d int, syms []string, out *[][]string) {
		if d > 0 {
			*out = append(*out, append([]string(nil), cur...))
		}
		if d == 2 {
			return
		}
		for _, s := range syms {
			if len(s) > 0 && s[0] == ':' {
				dup := false
				for _, c := range cur {
					dup = dup || c == s
				}
				if dup {
					continue
				}
			}
			rec2(append(cur, s), d+1, syms, out)
		}
	}
	rec2(nil, 0, []string{"a", "a:b", "u:", ":x"}, &pats)
	rec2(nil, 0, []string{"a", "a:b", "u:", "c"}, &paths)
	n2 := len(pats)
	for rep := 0; rep < 40; rep++ {
		for i := 0; i < n2; i++ {
			for j := 0; j < n2; j++ {
				if i != j {
					check([]int{i, j})
				}
			}
		}
	}
	fmt.Printf("BOUNDED {\"check\":\"lib/search matcher vs segment-wise definition\",\"bound\":\"patterns: 0..3 segments over {a,b,:x,:y}; tables: all of size 1..2 (both insertion orders), size 3 %s; paths: 0..3 segments over {a,b,c}; plus all ordered pairs of patterns of 1..2 segments over {a,a:b,u:,:x} against paths over {a,a:b,u:,c}, each rebuilt 40 times (map order)\",\"tables\":%d,\"evaluations\":%d,\"distinct_nontrivial\":%d,\"exhaustive\":%v}\n",
		map[bool]string{true: "exhaustive", false: "20000 sampled by VERIF_SEED"}[thorough], tables, searches, nontrivial, thorough)
}
