package syncx

// BOUNDED stand-in of /verif for C18 (not a proof): the proof of Pool.Get treats Duration arithmetic as mathematical
// integers; this test runs the real code at the top of the Duration range, where `lastUsed + maxAge` would wrap.

import (
	"fmt"
	"math"
	"testing"
	"time"
)

func TestVerifBounded(t *testing.T) {
	ages := []time.Duration{time.Nanosecond * 1e15, time.Duration(math.MaxInt64), time.Duration(math.MaxInt64 - 1), time.Duration(math.MaxInt64 / 2), 292 * 365 * 24 * time.Hour, time.Hour}
	runs := 0
	for _, maxAge := range ages {
		created, destroyed := 0, 0
		p := NewPool(2, func() any { created++; return created }, func(any) { destroyed++ }, WithMaxAge(maxAge))
		for i := 0; i < 50; i++ {
			x := p.Get()
			p.Put(x)
			y := p.Get()
			p.Put(y)
			runs++
			if destroyed != 0 || y != x {
				t.Fatalf("max age %v: a resource idle for microseconds was destroyed (%d destroyed, got %v after putting %v back)", maxAge, destroyed, y, x)
			}
		}
	}
	fmt.Printf("BOUNDED {\"check\":\"pool reuse with huge max ages\",\"bound\":\"%d max ages up to MaxInt64 ns x 50 get/put rounds\",\"evaluations\":%d,\"distinct_nontrivial\":%d,\"exhaustive\":false}\n", len(ages), runs, runs)
}
