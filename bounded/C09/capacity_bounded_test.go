package load

// BOUNDED stand-in of /verif for C09 (not a proof): the proof of the capacity clause treats float64 as mathematical
// reals, where maxPass x windows x (minRt / 1000) and maxPass x windows x minRt / 1000 are the same number. In float64
// they are not: 10 x 10 x (290 / 1e3) is 28.999999999999996 and truncates to 28, one below the capacity the window
// gives (29), so a request arriving with 29 in flight was rejected. This sweep runs the REAL maxFlight over a grid of
// whole-number windows contents and compares with the exact integer capacity.

import (
	"fmt"
	"testing"
	"time"

	"github.com/gotid/god/lib/collection"
)

func TestVerifBounded(t *testing.T) {
	runs, bad := 0, 0
	for _, windows := range []int64{1, 4, 8, 10, 20} {
		for maxPass := int64(1); maxPass <= 300; maxPass++ {
			for minRt := int64(1); minRt <= 1000; minRt++ {
				pass := collection.NewRollingWindow(1, time.Hour)
				rt := collection.NewRollingWindow(1, time.Hour)
				pass.Add(float64(maxPass))
				rt.Add(float64(minRt))
				as := &adaptiveShedder{windows: float64(windows), passCounter: pass, rtCounter: rt}
				want := maxPass * windows * minRt / 1000
				if want < 1 {
					want = 1
				}
				runs++
				if got := as.maxFlight(); got != want {
					bad++
					if bad <= 5 {
						t.Errorf("maxFlight() = %d with max passes %d, %d buckets/s, min latency %d ms: the capacity estimated from the window is %d", got, maxPass, windows, minRt, want)
					}
				}
			}
		}
	}
	if bad > 5 {
		t.Errorf("... %d of %d combinations off", bad, runs)
	}
	fmt.Printf("BOUNDED {\"check\":\"shedder capacity in float64\",\"bound\":\"max passes 1..300 x min latency 1..1000 ms x {1,4,8,10,20} buckets/s, whole numbers\",\"evaluations\":%d,\"distinct_nontrivial\":%d,\"exhaustive\":true}\n", runs, runs)
}
