package mr

// BOUNDED stand-in of /verif for C07 (not a proof): "in every case the call returns" and "a panic in the reducer is
// re-raised in the calling goroutine" are statements about blocking, which the obligations over event traces do not
// express. This run drives the REAL MapReduce through the one history in which they used to fail: the reducer writes
// its value and THEN panics (the caller, having taken the value, waited for `output` to be closed while the reducer's
// goroutine was blocked handing over the panic). Each run must end within 2 s with the reducer's panic re-raised.

import (
	"fmt"
	"testing"
	"time"
)

func TestVerifBounded(t *testing.T) {
	const runs = 300
	bad := 0
	for i := 0; i < runs && bad < 3; i++ {
		items := i % 7
		done := make(chan any, 1)
		go func() {
			defer func() { done <- recover() }()
			_, _ = MapReduce(func(source chan<- any) {
				for k := 0; k < items; k++ {
					source <- k
				}
			}, func(item any, w Writer, cancel func(error)) {
				w.Write(item)
			}, func(pipe <-chan any, w Writer, cancel func(error)) {
				for range pipe {
				}
				w.Write(1)
				panic("late")
			}, WithWorkers(1+i%4))
			done <- "returned"
		}()
		select {
		case r := <-done:
			if r != "late" {
				bad++
				t.Errorf("run %d (%d items): the call ended with %v, want the reducer's panic re-raised in the caller", i, items, r)
			}
		case <-time.After(2 * time.Second):
			bad++
			t.Errorf("run %d (%d items): MapReduce did not return within 2 s after its reducer wrote a value and then panicked", i, items)
		}
	}
	fmt.Printf("BOUNDED {\"check\":\"reducer writes its value, then panics: the call returns by re-raising the panic\",\"bound\":\"%d runs of the real MapReduce, 0..6 items, 1..4 workers, 2 s per run (schedules sampled by the Go scheduler)\",\"evaluations\":%d,\"distinct_nontrivial\":%d,\"exhaustive\":false}\n", runs, runs, runs)
}
