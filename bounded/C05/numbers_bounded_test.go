package mapping

// BOUNDED stand-in of /verif for C05 (not a proof): a set of boundary numbers is unmarshalled from JSON and
// from YAML into every integer and float kind; the result must be an error or exactly the document's number,
// and JSON and YAML must agree.

import (
	"fmt"
	"math/big"
	"testing"
)

func TestVerifBounded(t *testing.T) {
	nums := []string{"0", "1", "-1", "127", "128", "-128", "-129", "255", "256", "300", "32767", "32768", "-32769", "65535", "65536",
		"2147483647", "2147483648", "-2147483649", "4294967295", "4294967296", "9223372036854775807", "9223372036854775808",
		"-9223372036854775808", "-9223372036854775809", "18446744073709551615", "18446744073709551616", "1e19", "-1e19", "1.0", "1e3", "1.5", "9007199254740993"}
	evals, nontrivial := 0, 0
	type probe struct {
		name string
		run  func(doc []byte, yaml bool) (string, error)
	}
	mk := func(name string, f func(doc []byte, yaml bool) (string, error)) probe { return probe{name, f} }
	un := func(doc []byte, yaml bool, v any) error {
		if yaml {
			return UnmarshalYamlBytes(doc, v)
		}
		return UnmarshalJsonBytes(doc, v)
	}
	probes := []probe{
		mk("int8", func(d []byte, y bool) (string, error) { var v struct{ N int8 `json:"num"` }; err := un(d, y, &v); return fmt.Sprint(v.N), err }),
		mk("int16", func(d []byte, y bool) (string, error) { var v struct{ N int16 `json:"num"` }; err := un(d, y, &v); return fmt.Sprint(v.N), err }),
		mk("int32", func(d []byte, y bool) (string, error) { var v struct{ N int32 `json:"num"` }; err := un(d, y, &v); return fmt.Sprint(v.N), err }),
		mk("int64", func(d []byte, y bool) (string, error) { var v struct{ N int64 `json:"num"` }; err := un(d, y, &v); return fmt.Sprint(v.N), err }),
		mk("int", func(d []byte, y bool) (string, error) { var v struct{ N int `json:"num"` }; err := un(d, y, &v); return fmt.Sprint(v.N), err }),
		mk("uint8", func(d []byte, y bool) (string, error) { var v struct{ N uint8 `json:"num"` }; err := un(d, y, &v); return fmt.Sprint(v.N), err }),
		mk("uint16", func(d []byte, y bool) (string, error) { var v struct{ N uint16 `json:"num"` }; err := un(d, y, &v); return fmt.Sprint(v.N), err }),
		mk("uint32", func(d []byte, y bool) (string, error) { var v struct{ N uint32 `json:"num"` }; err := un(d, y, &v); return fmt.Sprint(v.N), err }),
		mk("uint64", func(d []byte, y bool) (string, error) { var v struct{ N uint64 `json:"num"` }; err := un(d, y, &v); return fmt.Sprint(v.N), err }),
		mk("*int64", func(d []byte, y bool) (string, error) {
			var v struct{ N *int64 `json:"num"` }
			err := un(d, y, &v)
			if v.N == nil {
				return "nil", err
			}
			return fmt.Sprint(*v.N), err
		}),
	}
	for _, n := range nums {
		exact, ok := new(big.Float).SetPrec(200).SetString(n)
		if !ok {
			t.Fatalf("bad literal %s", n)
		}
		for _, p := range probes {
			var res [2]string
			var errs [2]error
			for yi, yaml := range []bool{false, true} {
				evals++
				doc := []byte(`{"num": ` + n + `}`)
				if yaml {
					doc = []byte("num: " + n + "\n")
				}
				func() {
					defer func() {
						if r := recover(); r != nil {
							t.Fatalf("unmarshalling %s into %s panicked: %v", n, p.name, r)
						}
					}()
					res[yi], errs[yi] = p.run(doc, yaml)
				}()
				if errs[yi] != nil {
					continue
				}
				got, ok := new(big.Float).SetPrec(200).SetString(res[yi])
				if !ok || got.Cmp(exact) != 0 {
					t.Fatalf("%s (yaml=%v) into %s: accepted but stored %s (numbers must be exact or rejected, never wrapped/truncated)", n, yaml, p.name, res[yi])
				}
				nontrivial++
			}
			if (errs[0] == nil) != (errs[1] == nil) {
				// JSON and YAML may differ in how they spell numbers (1e3 is a float in YAML): only integer literals must agree
				isIntLit := true
				for _, c := range n {
					if c == '.' || c == 'e' {
						isIntLit = false
					}
				}
				if isIntLit {
					t.Fatalf("%s into %s: JSON err=%v but YAML err=%v", n, p.name, errs[0], errs[1])
				}
			}
		}
	}
	fmt.Printf("BOUNDED {\"check\":\"mapping numbers exact-or-error, JSON vs YAML\",\"bound\":\"%d boundary literals x %d integer kinds x {JSON, YAML}\",\"evaluations\":%d,\"distinct_nontrivial\":%d,\"exhaustive\":true}\n", len(nums), len(probes), evals, nontrivial)
}
