package conf

// BOUNDED stand-in of /verif for C05 (not a proof): toCamelCase maps a key, its snake_case spelling and the
// spelling with the other initial-letter case to the same canonical key. Bound: words of 1..2 letters over
// {a, b}, keys of 1..3 words.

import (
	"fmt"
	"strings"
	"testing"
)

func TestVerifBounded(t *testing.T) {
	var words []string
	for _, a := range "ab" {
		words = append(words, string(a))
		for _, b := range "ab" {
			words = append(words, string(a)+string(b))
		}
	}
	evals, nontrivial := 0, 0
	var rec func(ws []string)
	check := func(ws []string) {
		// camelCase spelling: first word lower, others Title
		camel := ws[0]
		for _, w := range ws[1:] {
			camel += strings.ToUpper(w[:1]) + w[1:]
		}
		snake := strings.Join(ws, "_")
		title := strings.ToUpper(camel[:1]) + camel[1:]
		want := toCamelCase(camel)
		for _, alt := range []string{snake, title, strings.ToUpper(snake[:1]) + snake[1:]} {
			evals++
			if got := toCamelCase(alt); got != want {
				t.Fatalf("toCamelCase(%q) = %q but toCamelCase(%q) = %q: the spellings are not canonicalised to the same key", alt, got, camel, want)
			}
		}
		if len(ws) > 1 {
			nontrivial++
		}
	}
	rec = func(ws []string) {
		if len(ws) > 0 {
			check(ws)
		}
		if len(ws) == 3 {
			return
		}
		for _, w := range words {
			rec(append(append([]string(nil), ws...), w))
		}
	}
	rec(nil)
	fmt.Printf("BOUNDED {\"check\":\"conf.toCamelCase canonicalisation\",\"bound\":\"keys of 1..3 words of 1..2 letters over {a,b}: camelCase vs snake_case vs other initial case\",\"evaluations\":%d,\"distinct_nontrivial\":%d,\"exhaustive\":true}\n", evals, nontrivial)
}
