package mapping

// BOUNDED stand-in of /verif for C05 (not a proof): the deductive clauses treat float64 as mathematical reals, where
// there is no NaN; this test feeds the non-finite spellings a text source can carry to range-checked float fields.

import (
	"fmt"
	"testing"
)

func TestVerifBounded(t *testing.T) {
	type F64 struct {
		F float64 `form:"f,range=[0:1]"`
	}
	type F32 struct {
		F float32 `form:"f,range=(0:10]"`
	}
	type FS struct {
		F float64 `json:"f,string,range=[0:1]"`
	}
	runs := 0
	for _, text := range []string{"NaN", "nan", "+Inf", "-Inf", "Inf", "1e400", "2", "-0.5"} {
		var a F64
		var b F32
		var c FS
		for name, err := range map[string]error{
			"float64 form":   NewUnmarshaler("form", WithStringValues()).Unmarshal(map[string]any{"f": text}, &a),
			"float32 form":   NewUnmarshaler("form", WithStringValues()).Unmarshal(map[string]any{"f": text}, &b),
			"float64 string": UnmarshalJsonBytes([]byte(`{"f":"`+text+`"}`), &c),
		} {
			runs++
			if name == "float32 form" && text == "2" {
				if err != nil {
					t.Errorf("float32 field with range=(0:10] refused 2: %v", err)
				}
				continue
			}
			if err == nil {
				t.Errorf("%s field with a range= accepted %q (stored %v / %v / %v)", name, text, a.F, b.F, c.F)
			}
		}
	}
	fmt.Printf("BOUNDED {\"check\":\"non-finite and out-of-range float texts against range=\",\"bound\":\"8 texts x 3 field shapes\",\"evaluations\":%d,\"distinct_nontrivial\":%d,\"exhaustive\":true}\n", runs, runs)
}
