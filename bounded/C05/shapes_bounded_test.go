package mapping

// BOUNDED stand-in of /verif for C05 "it never panics" (not a proof): every destination shape built from the
// supported kinds up to nesting depth 2 (pointer / list / map / array of a base kind, and one more level of those),
// under five tag variants, is unmarshalled from every JSON value of depth <= 2 over a small leaf alphabet (well-typed,
// ill-typed, null, empty, nested), from the same value as YAML, and from map documents holding Go-typed values.
// A panic is a violation; errors are fine. Bound: the shape and value grammars below.

import (
	"fmt"
	"reflect"
	"strings"
	"testing"
	"time"
)

type verifBoundedBool bool
type verifBoundedStr string
type verifBoundedInt int32
type verifBoundedInner struct {
	X int    `json:"x"`
	Y string `json:"y,optional"`
}

func TestVerifBounded(t *testing.T) {
	base := []reflect.Type{
		reflect.TypeOf(false), reflect.TypeOf(int8(0)), reflect.TypeOf(int(0)), reflect.TypeOf(uint16(0)), reflect.TypeOf(float64(0)),
		reflect.TypeOf(""), reflect.TypeOf(time.Duration(0)), reflect.TypeOf(verifBoundedBool(false)), reflect.TypeOf(verifBoundedStr("")),
		reflect.TypeOf(verifBoundedInt(0)), reflect.TypeOf(verifBoundedInner{}), reflect.TypeOf((*any)(nil)).Elem(),
	}
	wrap := func(ts []reflect.Type) []reflect.Type {
		var out []reflect.Type
		for _, b := range ts {
			out = append(out, reflect.PointerTo(b), reflect.SliceOf(b), reflect.MapOf(reflect.TypeOf(""), b), reflect.ArrayOf(2, b))
		}
		return out
	}
	level1 := wrap(base)
	level2 := wrap(level1)
	types := append(append(append([]reflect.Type{}, base...), level1...), level2...)
	// maps with other key types
	types = append(types, reflect.MapOf(reflect.TypeOf(0), reflect.TypeOf(0)), reflect.MapOf(reflect.TypeOf(verifBoundedStr("")), reflect.TypeOf(0)),
		reflect.MapOf(reflect.TypeOf(false), reflect.TypeOf("")))
	// a few shapes of depth 3: pointers to containers as elements of containers
	for _, inner := range []reflect.Type{reflect.TypeOf([]int(nil)), reflect.TypeOf(map[string]int(nil)), reflect.TypeOf([]string(nil))} {
		types = append(types, reflect.MapOf(reflect.TypeOf(""), reflect.PtrTo(inner)), reflect.SliceOf(reflect.PtrTo(inner)), reflect.PtrTo(reflect.SliceOf(reflect.PtrTo(inner))))
	}
	tags := []string{`json:"a"`, `json:"a,optional"`, `json:"a,default=1"`, `json:"a,string"`, `json:"a,options=1|2,optional"`}

	leaves := []string{`1`, `-1`, `1.5`, `300`, `1e400`, `"1"`, `"x"`, `"1s"`, `""`, `true`, `null`}
	var values []string
	values = append(values, leaves...)
	values = append(values, `[]`, `{}`)
	for _, l := range leaves {
		values = append(values, `[`+l+`]`, `{"k":`+l+`}`, `{"x":`+l+`}`, `[[`+l+`]]`, `[{"k":`+l+`}]`, `[{"x":`+l+`}]`, `{"k":[`+l+`]}`, `{"k":{"x":`+l+`}}`, `{"k":{"k":`+l+`}}`)
	}
	values = append(values, `[1,"x",null,true]`, `{"k":1,"j":"x"}`)
	// lists and objects given as strings (how every form / path / header container arrives)
	values = append(values, `"[1,2]"`, `"[\"x\"]"`, `"[null]"`, `"[]"`, `"[[1]]"`, `"{\"k\":1}"`, `"{\"k\":\"x\"}"`, `"{}"`, `"[1"`)

	goValues := []any{[3]int{1, 2, 3}, [2]int{1, 2}, struct{ Z int }{1}, make(chan int), func() {}, new(int), map[string]any(nil), []any(nil),
		map[int]int{1: 2}, []string{"x"}, []int{1}, int8(5), uint64(1 << 63), float32(1.5), verifBoundedStr("x"), verifBoundedBool(true),
		map[string]string{"k": "v"}, map[string]any{"x": map[string]any(nil)}, []any{map[string]any(nil)}, []any{nil}, time.Second, &verifBoundedInner{}}

	runs, errs := 0, 0
	try := func(what string, f func() error) {
		defer func() {
			if r := recover(); r != nil {
				t.Errorf("PANIC %s: %v", what, r)
			}
		}()
		runs++
		if f() != nil {
			errs++
		}
	}
	for _, ft := range types {
		for _, tag := range tags {
			st := reflect.StructOf([]reflect.StructField{{Name: "A", Type: ft, Tag: reflect.StructTag(tag)}})
			shape := fmt.Sprintf("%v `%s`", ft, tag)
			for _, val := range values {
				doc := `{"a": ` + val + `}`
				try(shape+" <- json "+doc, func() error { return UnmarshalJsonBytes([]byte(doc), reflect.New(st).Interface()) })
				if !strings.Contains(val, "1e400") {
					try(shape+" <- yaml "+doc, func() error { return UnmarshalYamlBytes([]byte(doc), reflect.New(st).Interface()) })
				}
			}
			try(shape+" <- json {}", func() error { return UnmarshalJsonBytes([]byte(`{}`), reflect.New(st).Interface()) })
			ktag := strings.Replace(tag, "json:", "key:", 1)
			kst := reflect.StructOf([]reflect.StructField{{Name: "A", Type: ft, Tag: reflect.StructTag(ktag)}})
			for i, gv := range goValues {
				try(fmt.Sprintf("%s <- map document, Go value #%d %T", shape, i, gv), func() error {
					return UnmarshalKey(map[string]any{"a": gv}, reflect.New(kst).Interface())
				})
			}
		}
	}
	if runs < 100000 || errs == 0 || errs == runs {
		t.Fatalf("bounded run degenerate: %d runs, %d errors", runs, errs)
	}
	fmt.Printf("BOUNDED {\"check\":\"mapping never panics over shapes x documents\",\"bound\":\"%d field types (12 base kinds, pointer/list/map/array nesting depth <= 2, 3 non-string key types) x %d tag variants x (%d JSON values + the same as YAML + %d Go-typed map values + absent)\",\"evaluations\":%d,\"distinct_nontrivial\":%d,\"exhaustive\":true}\n", len(types), len(tags), len(values), len(goValues), runs, runs-errs)
	t.Logf("bounded: %d shapes x %d tags, %d json/yaml values, %d Go values: %d runs, %d rejected with an error, none panicked", len(types), len(tags), len(values), len(goValues), runs, errs)
}
