package p2c

// BOUNDED stand-in of /verif for C14 (not a proof): the proof of the success-score clauses treats float64 as
// mathematical reals; this sweep runs the REAL completion callback in float64 over a grid of previous scores and
// spacings in time (the spacing is set through the connection's `last` stamp) and checks what the proof cannot see
// - that rounding never carries the score out of [0, 1000] and never moves it the wrong way.

import (
	"fmt"
	"sync/atomic"
	"testing"
	"time"

	"github.com/gotid/god/lib/syncx"
	"github.com/gotid/god/lib/timex"
	"google.golang.org/grpc/balancer"
	"google.golang.org/grpc/codes"
	"google.golang.org/grpc/status"
)

func TestVerifBounded(t *testing.T) {
	p := &p2cPicker{stamp: syncx.NewAtomicDuration()}
	scores := []uint64{0, 1, 2, 499, 500, 501, 998, 999, 1000}
	runs, moved := 0, 0
	for _, prev := range scores {
		for i := 0; i < 3000; i++ {
			gap := time.Duration(i)*13*time.Millisecond + time.Duration(i%7)*time.Microsecond // 0 .. 39 s
			for _, ok := range []bool{true, false} {
				c := &subConn{lag: 1000, success: prev, inflight: 1}
				done := p.buildDoneFunc(c)
				atomic.StoreInt64(&c.last, int64(timex.Now()-gap))
				var err error
				if !ok {
					err = status.Error(codes.Unavailable, "down")
				}
				done(balancer.DoneInfo{Err: err})
				runs++
				got := atomic.LoadUint64(&c.success)
				if got != prev {
					moved++
				}
				if got > 1000 {
					t.Fatalf("score %d after an %v completion %v after the previous one (was %d): outside [0,1000]", got, ok, gap, prev)
				}
				if ok && got < prev {
					t.Fatalf("acceptable completion moved the score down: %d -> %d (gap %v)", prev, got, gap)
				}
				if !ok && got > prev {
					t.Fatalf("unacceptable completion moved the score up: %d -> %d (gap %v)", prev, got, gap)
				}
			}
		}
	}
	fmt.Printf("BOUNDED {\"check\":\"p2c success score in float64\",\"bound\":\"9 previous scores x 3000 spacings (0..39 s) x {acceptable, unacceptable}\",\"evaluations\":%d,\"distinct_nontrivial\":%d,\"exhaustive\":false}\n", runs, moved)
}
