package format

// BOUNDED stand-in of /verif for C20 (not a proof): the real FileNamingFormat is compared with a reference
// implementation of the property's naming rule. Bound: templates = prefix {"", "x", "-"} + a casing of "go" +
// separator {"", "_", "-", "#"} + a casing of "designer" + suffix {"", "_x"}, with all 4 casings of "go" and
// 8 casings of "designer" (lower, upper, title and five mixed ones), plus malformed templates; identifiers =
// every string of length 0..5 over {a, b, A, _}. The package source is copied byte-for-byte into a scratch
// module (it imports only the standard library); nothing is dropped.

import (
	"fmt"
	"strings"
	"testing"
)

func verifStyle(w string) (func(string) string, bool) {
	l := strings.ToLower(w)
	switch w {
	case l:
		return strings.ToLower, true
	case strings.ToUpper(l):
		return strings.ToUpper, true
	case strings.ToUpper(l[:1]) + l[1:]:
		return func(s string) string {
			if s == "" {
				return s
			}
			return strings.ToUpper(s[:1]) + s[1:]
		}, true
	}
	return nil, false
}

// words: split at underscores and before upper-case letters
func verifWords(id string) []string {
	var out []string
	cur := ""
	for _, r := range id {
		switch {
		case r == '_':
			if cur != "" {
				out = append(out, cur)
			}
			cur = ""
		case r >= 'A' && r <= 'Z':
			if cur != "" {
				out = append(out, cur)
			}
			cur = string(r)
		default:
			cur += string(r)
		}
	}
	if cur != "" {
		out = append(out, cur)
	}
	return out
}

func TestVerifBounded(t *testing.T) {
	var ids []string
	var rec func(cur string)
	rec = func(cur string) {
		ids = append(ids, cur)
		if len(cur) == 5 {
			return
		}
		for _, c := range "abA_" {
			rec(cur + string(c))
		}
	}
	rec("")
	goWords := []string{"go", "GO", "Go", "gO"}
	deWords := []string{"designer", "DESIGNER", "Designer", "dESIGNER", "DesigneR", "desIgner", "DESIGNEr", "DEsigner"}
	evals, nontrivial := 0, 0
	for _, pre := range []string{"", "x", "-"} {
		for _, g := range goWords {
			for _, sep := range []string{"", "_", "-", "#"} {
				for _, d := range deWords {
					for _, suf := range []string{"", "_x"} {
						tpl := pre + g + sep + d + suf
						gs, ok1 := verifStyle(g)
						ds, ok2 := verifStyle(d)
						for _, id := range ids {
							evals++
							got, err := func() (s string, e error) {
								defer func() {
									if r := recover(); r != nil {
										t.Fatalf("FileNamingFormat(%q, %q) panicked: %v", tpl, id, r)
									}
								}()
								return FileNamingFormat(tpl, id)
							}()
							if !ok1 || !ok2 {
								if err == nil {
									t.Fatalf("FileNamingFormat(%q, %q) = %q, want an error (mixed casing)", tpl, id, got)
								}
								continue
							}
							if err != nil {
								t.Fatalf("FileNamingFormat(%q, %q) failed: %v", tpl, id, err)
							}
							ws := verifWords(id)
							for i := range ws {
								if i == 0 {
									ws[i] = gs(ws[i])
								} else {
									ws[i] = ds(ws[i])
								}
							}
							want := pre + strings.Join(ws, sep) + suf
							if len(ws) > 1 {
								nontrivial++
							}
							if got != want {
								t.Fatalf("FileNamingFormat(%q, %q) = %q, want %q", tpl, id, got, want)
							}
						}
					}
				}
			}
		}
	}
	for _, bad := range []string{"", "go", "designer", "designergo", "designer_go", "xgodesig", "g_o_designer", "GODESIGNE"} {
		for _, id := range []string{"", "a_b", "aB"} {
			evals++
			if got, err := FileNamingFormat(bad, id); err == nil {
				t.Fatalf("FileNamingFormat(%q, %q) = %q, want an error (template lacks a word or has them in the wrong order)", bad, id, got)
			}
		}
	}
	// boundary letters of the upper- and lower-case ranges in every position (letters and '_' only: what the
	// casing of a word with punctuation inside should be is not fixed by the property)
	edge := []string{"a", "z", "y", "A", "Z", "Y", "M", "_"}
	var eids []string
	var gen func(prefix string, n int)
	gen = func(prefix string, n int) {
		eids = append(eids, prefix)
		if n == 0 {
			return
		}
		for _, c := range edge {
			gen(prefix+c, n-1)
		}
	}
	gen("", 4)
	for _, tpl := range []struct{ tpl, pre, g, sep, d, suf string }{
		{"go_designer", "", "go", "_", "designer", ""},
		{"GoDesigner", "", "Go", "", "Designer", ""},
		{"x-go#Designer_x", "x-", "go", "#", "Designer", "_x"},
		{"GO_DESIGNER", "", "GO", "_", "DESIGNER", ""},
	} {
		gs, _ := verifStyle(tpl.g)
		ds, _ := verifStyle(tpl.d)
		for _, id := range eids {
			evals++
			got, err := FileNamingFormat(tpl.tpl, id)
			if err != nil {
				t.Fatalf("FileNamingFormat(%q, %q) failed: %v", tpl.tpl, id, err)
			}
			ws := verifWords(id)
			for i := range ws {
				if i == 0 {
					ws[i] = gs(ws[i])
				} else {
					ws[i] = ds(ws[i])
				}
			}
			if want := tpl.pre + strings.Join(ws, tpl.sep) + tpl.suf; got != want {
				t.Fatalf("FileNamingFormat(%q, %q) = %q, want %q", tpl.tpl, id, got, want)
			}
		}
	}
	// determinism: same inputs, same output
	a, _ := FileNamingFormat("go_designer", "aB_b")
	b, _ := FileNamingFormat("go_designer", "aB_b")
	if a != b {
		t.Fatalf("not deterministic: %q vs %q", a, b)
	}
	fmt.Printf("BOUNDED {\"check\":\"format.FileNamingFormat vs reference naming rule\",\"bound\":\"576 well-formed templates x 8 designer casings incl. mixed, 8 malformed templates; identifiers: all 1365 strings of length 0..5 over {a,b,A,_}; plus 4 templates x all 4681 strings of length 0..4 over {a,z,y,A,Z,Y,M,_}\",\"evaluations\":%d,\"distinct_nontrivial\":%d,\"exhaustive\":true}\n", evals, nontrivial)
}
