package stringx

// BOUNDED stand-in of /verif for C20 (not a proof). string.go is copied byte-for-byte into a scratch module
// whose go.mod requires only golang.org/x/text v0.5.0 (the module context of tools/god is replaced; nothing
// of the file is dropped). Bound: round trip for identifiers of 1..3 words of 1..3 letters over {a,b,z} joined
// by single underscores; panic-freedom of ToCamel/ToSnake/Title/UnTitle on every string of length 0..4 over
// {a, A, _, ' ', 1, é, 世}.

import (
	"fmt"
	"strings"
	"testing"
)

func TestVerifBounded(t *testing.T) {
	var words []string
	var rec func(cur string)
	rec = func(cur string) {
		if cur != "" {
			words = append(words, cur)
		}
		if len(cur) == 3 {
			return
		}
		for _, c := range "abz" {
			rec(cur + string(c))
		}
	}
	rec("")
	evals, nontrivial := 0, 0
	check := func(id string) {
		evals++
		camel := From(id).ToCamel()
		back := From(camel).ToSnake()
		if back != id {
			t.Fatalf("ToSnake(ToCamel(%q)) = %q (camel form %q)", id, back, camel)
		}
	}
	for _, a := range words {
		check(a)
		for _, b := range words {
			check(a + "_" + b)
			nontrivial++
		}
	}
	for i := 0; i < len(words); i += 5 {
		for j := 0; j < len(words); j += 7 {
			for k := 0; k < len(words); k += 3 {
				check(words[i] + "_" + words[j] + "_" + words[k])
				nontrivial++
			}
		}
	}
	alphabet := []string{"a", "A", "_", " ", "1", "é", "世"}
	var all []string
	var rec2 func(cur string, n int)
	rec2 = func(cur string, n int) {
		all = append(all, cur)
		if n == 4 {
			return
		}
		for _, c := range alphabet {
			rec2(cur+c, n+1)
		}
	}
	rec2("", 0)
	for _, s := range all {
		evals++
		func() {
			defer func() {
				if r := recover(); r != nil {
					t.Fatalf("conversion of %q panicked: %v", s, r)
				}
			}()
			_ = From(s).ToCamel()
			_ = From(s).ToSnake()
			_ = From(s).Title()
			_ = From(s).UnTitle()
		}()
	}
	_ = strings.ToLower
	fmt.Printf("BOUNDED {\"check\":\"stringx round trip + panic freedom\",\"bound\":\"round trip: 1..3 words of 1..3 letters over {a,b,z}; panic freedom: all %d strings of length 0..4 over {a,A,_,space,1,e-acute,CJK}\",\"evaluations\":%d,\"distinct_nontrivial\":%d,\"exhaustive\":true}\n", len(all), evals, nontrivial)
}
