// place in: lib/store/redis
package redis

import (
	"context"
	"testing"
	"time"

	"github.com/alicebob/miniredis/v2"
	"github.com/gotid/god/lib/breaker"
)

// TestGenuineDemo: acceptable() lets context.Canceled through but not context.DeadlineExceeded.
// Callers whose OWN context deadline has already passed (the server is healthy and is never even
// contacted) are therefore booked as breaker failures; after a burst of such calls the breaker of
// this Redis opens and rejects perfectly good calls made with a live context.
func TestGenuineDemo(t *testing.T) {
	s, err := miniredis.Run()
	if err != nil {
		t.Fatal(err)
	}
	defer s.Close()
	r := New(s.Addr())
	if err := r.Set("k", "v"); err != nil {
		t.Fatal(err)
	}

	ctx, cancel := context.WithDeadline(context.Background(), time.Now().Add(-time.Second))
	defer cancel()
	for i := 0; i < 300; i++ {
		_, _ = r.GetCtx(ctx, "k") // caller-side expiry only
	}

	rejected := 0
	for i := 0; i < 20; i++ {
		if _, err := r.Get("k"); err == breaker.ErrServiceUnavailable {
			rejected++
		}
	}
	if rejected > 0 {
		t.Fatalf("healthy server, live context: %d of 20 Get calls rejected with %q after callers' expired contexts tripped the breaker",
			rejected, breaker.ErrServiceUnavailable)
	}
}
