// place in: lib/store/redis
package redis

import (
	"testing"

	"github.com/alicebob/miniredis/v2"
)

// TestGenuineDemo: Z(Rev)RangeByScoreWithScoresAndLimit compute the LIMIT offset as int64(page*size)
// in int arithmetic. For a huge page the product wraps (page=1<<62, size=4 -> 0) and the call returns
// the FIRST page instead of nothing.
func TestGenuineDemo(t *testing.T) {
	s, err := miniredis.Run()
	if err != nil {
		t.Fatal(err)
	}
	defer s.Close()
	r := New(s.Addr())
	for i := 0; i < 10; i++ {
		if _, err := r.ZAdd("z", int64(i), string(rune('a'+i))); err != nil {
			t.Fatal(err)
		}
	}

	ps, err := r.ZRangeByScoreWithScoresAndLimit("z", 0, 100, 1<<62, 4)
	if err == nil && len(ps) != 0 {
		t.Errorf("ZRangeByScoreWithScoresAndLimit(page=1<<62, size=4) = %v; a 10-element set has no such page", ps)
	}
	ps, err = r.ZRevRangeByScoreWithScoresAndLimit("z", 0, 100, 1<<62, 4)
	if err == nil && len(ps) != 0 {
		t.Errorf("ZRevRangeByScoreWithScoresAndLimit(page=1<<62, size=4) = %v; a 10-element set has no such page", ps)
	}
}
