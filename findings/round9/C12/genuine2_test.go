// place in: lib/store/redis
package redis

import (
	"testing"

	"github.com/alicebob/miniredis/v2"
)

// TestGenuineDemo: SetNXEx(key, value, 0) ("set if absent, WITH a lifetime in seconds") is accepted,
// reports true and stores the key with NO expiry at all: go-redis' SetNX treats expiration 0 as
// "plain SETNX". A Redis server given "SET k v EX 0 NX" answers "ERR invalid expire time".
// (Negative seconds are rejected by the server; only 0 slips through. kv.Store.SetNXEx inherits this.)
func TestGenuineDemo(t *testing.T) {
	s, err := miniredis.Run()
	if err != nil {
		t.Fatal(err)
	}
	defer s.Close()
	r := New(s.Addr())

	ok, err := r.SetNXEx("lock", "owner", 0)
	if err != nil {
		return // rejected: fine
	}
	if s.Exists("lock") && s.TTL("lock") == 0 {
		t.Fatalf("SetNXEx(lock, owner, 0) = (%v, nil): key now exists on the server WITHOUT any expiry (TTL=%v); "+
			"SetNXEx(…, -1) on the same server gives an 'invalid expire time' error", ok, s.TTL("lock"))
	}
}
