// place in: lib/store/redis
package redis

import (
	"testing"
	"time"

	"github.com/alicebob/miniredis/v2"
)

// TestGenuineDemo: SetEx / SetNXEx compute time.Duration(seconds)*time.Second without an overflow
// check. For seconds > 9223372036 (~292 years, an ordinary int on 64-bit) the product wraps:
//   - seconds = 1<<34        -> negative duration -> go-redis sends a plain SET: key stored with NO expiry, err == nil
//   - seconds = 18446744074  -> wraps to +290ms   -> go-redis sends "PX 290": the key vanishes after 0.29 s
// A Redis server given "SET k v EX 17179869184" keeps the key for 544 years.
func TestGenuineDemo(t *testing.T) {
	s, err := miniredis.Run()
	if err != nil {
		t.Fatal(err)
	}
	defer s.Close()
	r := New(s.Addr())

	for _, seconds := range []int{1 << 34, 18446744074} {
		s.FlushAll()
		if err := r.SetEx("k", "v", seconds); err != nil {
			continue // rejecting the value would be acceptable
		}
		if ttl := s.TTL("k"); ttl < time.Hour {
			t.Errorf("SetEx(k, v, %d) returned nil but the key's TTL on the server is %v (0s = no expiry at all); want ~%d s",
				seconds, ttl, seconds)
		}

		s.FlushAll()
		ok, err := r.SetNXEx("k", "v", seconds)
		if err != nil || !ok {
			continue
		}
		if ttl := s.TTL("k"); ttl < time.Hour {
			t.Errorf("SetNXEx(k, v, %d) returned (true, nil) but the key's TTL on the server is %v; want ~%d s",
				seconds, ttl, seconds)
		}
	}
}
