// place in: lib/stat
// RUN WITH -race: go test -race -count=1 -vet=off ./lib/stat/ -run TestGenuineDemo
package stat

import (
	"sync"
	"testing"
	"time"
)

// metricsContainer.Execute reads c.name without the executor lock, SetName writes it under
// the lock (executor.Sync): a flush (tick / Flush) concurrent with SetName is a data race.
// The test only fails under the race detector.
func TestGenuineDemo(t *testing.T) {
	DisableLog()
	m := NewMetrics("a")
	var wg sync.WaitGroup
	for i := 0; i < 200; i++ {
		m.Add(Task{Duration: time.Millisecond})
		wg.Add(2)
		go func() {
			defer wg.Done()
			m.executor.Flush() // what the periodic tick does on the flusher goroutine
		}()
		go func() {
			defer wg.Done()
			m.SetName("b")
		}()
		wg.Wait()
	}
}
