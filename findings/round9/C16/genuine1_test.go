// place in: lib/store/sqlx
package sqlx

import (
	"strings"
	"testing"
)

// UpdateStmt replaces the statement of the container (prefix / suffix used by Execute) but
// not BulkInserter.stmt, whose valueFormat Insert keeps using to format the rows.
// After UpdateStmt to a statement with another row shape, every row handed to Insert is
// either rejected or formatted with the OLD shape and sent with the NEW prefix.
func TestGenuineDemo(t *testing.T) {
	var conn mockedConn
	bi, err := NewBulkInserter(&conn, `INSERT INTO a(x, y) VALUES(?, ?)`)
	if err != nil {
		t.Fatal(err)
	}
	if err := bi.UpdateStmt(`INSERT INTO b(x, y, z) VALUES(?, ?, ?)`); err != nil {
		t.Fatal(err)
	}

	// a row of the new shape is rejected ...
	if err := bi.Insert(1, 2, 3); err != nil {
		t.Errorf("Insert(1,2,3) after UpdateStmt to a 3-column statement: %v", err)
	}
	// ... and a row of the old shape is accepted and sent to the new table
	if err := bi.Insert(1, 2); err == nil {
		bi.Flush()
		if strings.Contains(conn.query, "INTO b(x, y, z)") && strings.Contains(conn.query, "(1, 2)") {
			t.Errorf("2-value row executed against the 3-column statement: %q", conn.query)
		}
	}
}
