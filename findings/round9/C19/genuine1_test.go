// place in: lib/logx
package logx

import (
	"bytes"
	"compress/gzip"
	"io"
	"os"
	"path/filepath"
	"strings"
	"testing"
	"time"
)

// Size rule + compression on. The logger is created in the same second as its
// first (size-triggered) rotation; the second rotation comes two seconds later.
// Both rotations want the backup name "<prefix>-<creation second><ext>". The
// guard in rotate() only looks for the UNCOMPRESSED name, which the asynchronous
// compression has already replaced by "<name>.gz" - so the second backup is
// renamed to the same name and gzipFile() re-creates (truncates) the first
// backup's .gz: every record of the first backup is lost.
func TestGenuineDemo(t *testing.T) {
	dir := t.TempDir()
	filename := filepath.Join(dir, "app.log")

	// start early in a wall-clock second so that creation and the first rotation share it
	for time.Now().Nanosecond() > 300*int(time.Millisecond) {
		time.Sleep(10 * time.Millisecond)
	}

	rule := &SizeLimitRotateRule{
		DailyRotateRule: DailyRotateRule{
			rotatedTime: getNowDateInRFC3339Format(),
			filename:    filename,
			delimiter:   "-",
			gzip:        true,
		},
		maxSize: 40, // bytes
	}
	logger, err := NewLogger(filename, rule, true)
	if err != nil {
		t.Fatal(err)
	}

	rec := func(tag string) string { return tag + strings.Repeat("x", 26) + "\n" } // 30 bytes

	waitFor := func(what string, cond func() bool) {
		t.Helper()
		deadline := time.Now().Add(5 * time.Second)
		for !cond() {
			if time.Now().After(deadline) {
				t.Fatalf("timeout waiting for %s", what)
			}
			time.Sleep(5 * time.Millisecond)
		}
	}
	gzCount := func() int {
		m, _ := filepath.Glob(filepath.Join(dir, "app-*.log.gz"))
		return len(m)
	}
	plainCount := func() int {
		m, _ := filepath.Glob(filepath.Join(dir, "app-*.log"))
		return len(m)
	}
	currentHas := func(s string) func() bool {
		return func() bool {
			b, _ := os.ReadFile(filename)
			return bytes.Contains(b, []byte(s))
		}
	}

	// file 1: A01 ; A02 triggers rotation #1 (same second as creation)
	logger.Write([]byte(rec("A01")))
	logger.Write([]byte(rec("A02")))
	waitFor("first backup compressed", func() bool { return gzCount() == 1 && plainCount() == 0 })
	waitFor("A02 in current file", currentHas("A02"))

	// rotations at least a second apart, as the quantifier demands
	time.Sleep(2100 * time.Millisecond)

	// A03 triggers rotation #2 (file 2 = A02 goes to a backup)
	logger.Write([]byte(rec("A03")))
	waitFor("A03 in current file", currentHas("A03"))
	waitFor("second backup compressed", func() bool { return plainCount() == 0 })
	time.Sleep(200 * time.Millisecond)
	logger.Close()

	// collect every record from the current file and all backups
	var all strings.Builder
	cur, _ := os.ReadFile(filename)
	all.Write(cur)
	names, _ := filepath.Glob(filepath.Join(dir, "app-*"))
	for _, n := range names {
		f, err := os.Open(n)
		if err != nil {
			t.Fatal(err)
		}
		if strings.HasSuffix(n, ".gz") {
			zr, err := gzip.NewReader(f)
			if err != nil {
				t.Fatalf("%s: %v", n, err)
			}
			b, _ := io.ReadAll(zr)
			all.Write(b)
		} else {
			b, _ := io.ReadAll(f)
			all.Write(b)
		}
		f.Close()
	}

	for _, tag := range []string{"A01", "A02", "A03"} {
		if c := strings.Count(all.String(), rec(tag)); c != 1 {
			t.Errorf("record %s found %d times in current file + backups %v (want exactly once)", tag, c, names)
		}
	}
}
