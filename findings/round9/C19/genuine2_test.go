// place in: lib/logx
package logx

import (
	"os"
	"path/filepath"
	"strings"
	"testing"
	"time"
)

// Daily rule, two day changes (simulated through the rule's rotatedTime, as the
// wall-clock date cannot be moved in a test). DailyRotateRule.BackupFilename()
// takes the date from the wall clock, and the "name already taken" fallback in
// rotate() asks the same function again, so when two daily rotations fall on the
// same wall-clock date (in production: the clock is stepped back across midnight,
// ShallRotate compares with != and rotates "backwards") the second rename
// silently replaces the first backup: its records are gone.
func TestGenuineDemo(t *testing.T) {
	dir := t.TempDir()
	filename := filepath.Join(dir, "app.log")
	rule := DefaultRotateRule(filename, "-", 0, false).(*DailyRotateRule)
	logger, err := NewLogger(filename, rule, false)
	if err != nil {
		t.Fatal(err)
	}

	// the worker goroutine is idle (nothing is sent through Write), so write() is called directly
	logger.write([]byte("day1 record\n"))
	rule.rotatedTime = time.Now().Add(-24 * time.Hour).Format(dateFormat) // a day change
	logger.write([]byte("day2 record\n"))
	rule.rotatedTime = time.Now().Add(-24 * time.Hour).Format(dateFormat) // another day change
	logger.write([]byte("day3 record\n"))
	logger.Close()
	time.Sleep(100 * time.Millisecond) // let the post-rotation goroutines finish

	var all strings.Builder
	names, _ := filepath.Glob(filepath.Join(dir, "app.log*"))
	for _, n := range names {
		b, err := os.ReadFile(n)
		if err != nil {
			t.Fatal(err)
		}
		all.Write(b)
	}
	for _, rec := range []string{"day1 record\n", "day2 record\n", "day3 record\n"} {
		if c := strings.Count(all.String(), rec); c != 1 {
			t.Errorf("%q found %d times in %v (want exactly once)", rec, c, names)
		}
	}
}
