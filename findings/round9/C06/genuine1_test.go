// place in: lib/store/sqlc
package sqlc

import (
	"errors"
	"fmt"
	"testing"
	"time"

	"github.com/alicebob/miniredis/v2"
	"github.com/gotid/god/lib/store/cache"
	"github.com/gotid/god/lib/store/redis"
	"github.com/gotid/god/lib/store/sqlx"
)

// A query that reports "no such row" with a WRAPPED ErrNotFound
// (fmt.Errorf("...: %w", sqlx.ErrNotFound)) is a not-found result: errors.Is and the
// cache's own IsNotFound say so, and lib/store/sqlx treats the wrapped form as benign too.
// The cache node compares with ==, so the result is not remembered: no placeholder is
// written, every repeated read reaches the database again (and is counted as a DB failure).
func TestGenuineDemo(t *testing.T) {
	mr, err := miniredis.Run()
	if err != nil {
		t.Fatal(err)
	}
	defer mr.Close()

	const key = "user#42"
	c := NewNodeConn(dummySqlConn{}, redis.New(mr.Addr()),
		cache.WithExpire(30*time.Second), cache.WithNotFoundExpire(30*time.Second))

	dbQueries := 0
	for i := 0; i < 5; i++ {
		var user string
		err := c.QueryRow(&user, key, func(conn sqlx.Conn, v any) error {
			dbQueries++
			return fmt.Errorf("find user 42: %w", sqlx.ErrNotFound)
		})
		if !errors.Is(err, ErrNotFound) {
			t.Fatalf("read %d: expected a not-found error, got %v", i, err)
		}
	}

	if !mr.Exists(key) {
		t.Errorf("not-found result was not remembered: no placeholder stored under %q", key)
	}
	if dbQueries != 1 {
		t.Errorf("5 repeated reads of a missing row reached the database %d times, want 1 "+
			"(placeholder configured to live 30s)", dbQueries)
	}
}
