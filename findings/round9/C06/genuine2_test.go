// place in: lib/store/sqlc
package sqlc

import (
	"bytes"
	"fmt"
	"testing"
	"time"

	"github.com/alicebob/miniredis/v2"
	"github.com/gotid/god/lib/store/cache"
	"github.com/gotid/god/lib/store/redis"
	"github.com/gotid/god/lib/store/sqlx"
)

// A table whose primary key is a binary column (BINARY(16) uuid => []byte in Go).
// The first QueryRowIndex loads the row from the database and caches index -> primary key.
// The second QueryRowIndex (nothing written in between) reads the primary key back from the
// cache as a *base64 string*: it computes a different row cache key and hands that string to
// primaryQuery, so the database is asked for a key that does not exist and the caller gets
// ErrNotFound (and a placeholder is stored) although the row is there.
func TestGenuineDemo(t *testing.T) {
	mr, err := miniredis.Run()
	if err != nil {
		t.Fatal(err)
	}
	defer mr.Close()

	type user struct {
		Id   []byte
		Name string
	}
	id := []byte{0xde, 0xad, 0xbe, 0xef, 0x01, 0x02, 0x03, 0x04}
	table := []user{{Id: id, Name: "alice"}} // the model database

	byPrimary := func(primary any) (user, bool) {
		// what a SQL driver does with the argument: []byte and string are sent as they are
		var want []byte
		switch p := primary.(type) {
		case []byte:
			want = p
		case string:
			want = []byte(p)
		default:
			want = []byte(fmt.Sprint(p))
		}
		for _, u := range table {
			if bytes.Equal(u.Id, want) {
				return u, true
			}
		}
		return user{}, false
	}

	c := NewNodeConn(dummySqlConn{}, redis.New(mr.Addr()), cache.WithExpire(30*time.Second))
	keyer := func(primary any) string { return fmt.Sprintf("user#id#%v", primary) }
	read := func() (user, error) {
		var u user
		err := c.QueryRowIndex(&u, "user#name#alice", keyer,
			func(conn sqlx.Conn, v any) (any, error) {
				for _, row := range table {
					if row.Name == "alice" {
						*v.(*user) = row
						return row.Id, nil
					}
				}
				return nil, ErrNotFound
			},
			func(conn sqlx.Conn, v, primary any) error {
				row, ok := byPrimary(primary)
				if !ok {
					return ErrNotFound
				}
				*v.(*user) = row
				return nil
			})
		return u, err
	}

	u, err := read()
	if err != nil || u.Name != "alice" {
		t.Fatalf("first read: %+v, %v", u, err)
	}

	u, err = read()
	if err != nil {
		t.Fatalf("second read of an existing, unchanged row: got error %v; keys now in the cache: %v",
			err, mr.Keys())
	}
	if u.Name != "alice" || !bytes.Equal(u.Id, id) {
		t.Fatalf("second read returned %+v", u)
	}
}
