// place in: lib/store/sqlc
package sqlc

import (
	"context"
	"testing"
	"time"

	"github.com/alicebob/miniredis/v2"
	"github.com/gotid/god/lib/store/cache"
	"github.com/gotid/god/lib/store/redis"
	"github.com/gotid/god/lib/store/sqlx"
)

// Two concurrent readers of one uncached key. Reader A's request is cancelled while its
// database query runs; reader B (context never cancelled, database healthy, row present)
// shares A's flight and is handed A's "context canceled" instead of the row.
func TestGenuineDemo(t *testing.T) {
	mr, err := miniredis.Run()
	if err != nil {
		t.Fatal(err)
	}
	defer mr.Close()

	const key = "user#7"
	c := NewNodeConn(dummySqlConn{}, redis.New(mr.Addr()), cache.WithExpire(30*time.Second))

	ctxA, cancelA := context.WithCancel(context.Background())
	inQuery := make(chan struct{})
	query := func(ctx context.Context, conn sqlx.Conn, v any) error {
		select {
		case inQuery <- struct{}{}: // only reader A's query is awaited below
		default:
		}
		select { // a driver honouring its context; the query itself takes 300ms
		case <-ctx.Done():
			return ctx.Err()
		case <-time.After(300 * time.Millisecond):
			*v.(*string) = "row"
			return nil
		}
	}

	errA := make(chan error, 1)
	go func() {
		var a string
		errA <- c.QueryRowCtx(ctxA, &a, key, query)
	}()
	select {
	case <-inQuery:
	case <-time.After(5 * time.Second):
		t.Fatal("reader A never reached the database")
	}

	errB := make(chan error, 1)
	var b string
	go func() {
		errB <- c.QueryRowCtx(context.Background(), &b, key, query)
	}()
	time.Sleep(100 * time.Millisecond) // let B join A's flight
	cancelA()

	if err := <-errA; err != context.Canceled {
		t.Fatalf("reader A: %v", err)
	}
	if err := <-errB; err != nil || b != "row" {
		t.Fatalf("reader B (live context, row present in the database) got %q, error: %v", b, err)
	}
}
