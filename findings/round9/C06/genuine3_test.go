// place in: lib/store/sqlc
package sqlc

import (
	"database/sql"
	"testing"
	"time"

	"github.com/alicebob/miniredis/v2"
	"github.com/gotid/god/lib/store/cache"
	"github.com/gotid/god/lib/store/redis"
	"github.com/gotid/god/lib/store/sqlx"
)

// Sequential history with one Redis failure injected at a delete (down, then back):
//   read (caches v1) ; Exec writes v2, its cache delete fails ; Redis is back ; read.
// Exec reports success (the removal is only queued for a retry one second later), so the
// write is completed - and the read that follows returns v1, a value older than the last
// completed write. Nothing tells the caller of Exec or of QueryRow that this can happen.
func TestGenuineDemo(t *testing.T) {
	mr, err := miniredis.Run()
	if err != nil {
		t.Fatal(err)
	}
	defer mr.Close()

	const key = "user#1"
	row := "v1" // the model database
	c := NewNodeConn(dummySqlConn{}, redis.New(mr.Addr()), cache.WithExpire(30*time.Second))
	read := func() string {
		var got string
		if err := c.QueryRow(&got, key, func(conn sqlx.Conn, v any) error {
			*v.(*string) = row
			return nil
		}); err != nil {
			t.Fatalf("read: %v", err)
		}
		return got
	}

	if got := read(); got != "v1" {
		t.Fatalf("first read: %q", got)
	}

	mr.SetError("LOADING Redis is loading the dataset in memory") // Redis down
	_, err = c.Exec(func(conn sqlx.Conn) (sql.Result, error) {
		row = "v2"
		return nil, nil
	}, key)
	mr.SetError("") // Redis back
	if err != nil {
		t.Fatalf("Exec did not complete: %v", err)
	}

	if got := read(); got != row {
		t.Fatalf("read after the completed write returned %q, the database holds %q", got, row)
	}
}
