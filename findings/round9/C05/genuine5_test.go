// place in: lib/mapping
package mapping

import "testing"

// A dotted key ("a.b") is resolved through a recursive valuer, so when a.b is absent the
// look-up falls back to a key "b" of the ENCLOSING object.
func TestGenuineDemo(t *testing.T) {
	var req struct {
		B int `json:"a.b"`
	}
	err := UnmarshalJsonBytes([]byte(`{"a": {}, "b": 5}`), &req)
	if err == nil {
		t.Errorf("required a.b is absent from the document, yet no error; B=%d was taken from the top-level key \"b\"", req.B)
	}

	var opt struct {
		B int `json:"a.b,optional"`
	}
	if err := UnmarshalJsonBytes([]byte(`{"a": {}, "b": 5}`), &opt); err != nil {
		t.Fatal(err)
	}
	if opt.B != 0 {
		t.Errorf("optional a.b is absent and must stay zero, got %d (value of the unrelated top-level \"b\")", opt.B)
	}
}
