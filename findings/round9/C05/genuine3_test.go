// place in: lib/mapping
package mapping

import "testing"

type G3Base struct {
	ID int `json:"id"`
}

type G3Mid struct {
	G3Base `json:",optional"`
	Name   string `json:"name"`
}

// An optional embedded struct that itself embeds a struct: the inner embedded members are
// looked up under the embedded TYPE NAME ("G3Base"), never found, and silently skipped.
func TestGenuineDemo(t *testing.T) {
	type outerOptional struct {
		G3Mid `json:",optional"`
	}
	type outerRequired struct {
		G3Mid
	}

	doc := []byte(`{"id": 7, "name": "x"}`)

	var want outerRequired
	if err := UnmarshalJsonBytes(doc, &want); err != nil {
		t.Fatal(err)
	}
	if want.ID != 7 || want.Name != "x" {
		t.Fatalf("baseline broken: %+v", want)
	}

	var got outerOptional
	if err := UnmarshalJsonBytes(doc, &got); err != nil {
		t.Fatal(err)
	}
	if got.ID != 7 || got.Name != "x" {
		t.Fatalf("document has id=7 but the struct got ID=%d (Name=%q): the value was silently dropped, no error",
			got.ID, got.Name)
	}
}
