// place in: lib/mapping
package mapping

import "testing"

type g2Page struct {
	Size int `json:"size,default=10" form:"size"`
}

type g2Req struct {
	Page g2Page `json:"page" form:"page"`
}

// structValueRequired caches "does this struct type need a value" per reflect.Type only,
// although the answer depends on the tag key (json / form / path / header) being unmarshalled.
// Whichever Unmarshaler sees the type first decides for all the others.
func TestGenuineDemo(t *testing.T) {
	// Under the "form" key Page.Size has no default => Page is required; the error is right.
	var byForm g2Req
	if err := NewUnmarshaler("form").Unmarshal(map[string]any{}, &byForm); err == nil {
		t.Fatalf("form: expected an error, got %+v", byForm)
	}

	// Under the "json" key every member of Page has a default, so an absent "page" must be
	// filled with the defaults. (It is, when the json unmarshaler happens to run first.)
	var byJson g2Req
	if err := UnmarshalJsonBytes([]byte(`{}`), &byJson); err != nil {
		t.Fatalf("json: absent field whose members all have defaults was rejected because the "+
			"'required' verdict computed for tag \"form\" is reused for tag \"json\": %v", err)
	}
	if byJson.Page.Size != 10 {
		t.Fatalf("json: default not applied: %+v", byJson)
	}
}
