// place in: lib/mapping
package mapping

import (
	"fmt"
	"testing"
	"time"
)

type g1Opt struct {
	A int `json:"a,optional"`
}

// Unexported members that the document does not mention make Unmarshal panic.
func TestGenuineDemo(t *testing.T) {
	type withEmpty struct {
		Name string `json:"name"`
		_    struct{} // e.g. a "no unkeyed literals" / noCopy marker
	}
	type withState struct {
		Name  string `json:"name"`
		state g1Opt // unexported nested struct whose members are all optional
	}
	type withDur struct {
		Name    string        `json:"name"`
		timeout time.Duration `json:"timeout,default=1s"`
	}
	type withPtr struct {
		Name string `json:"name"`
		p    *int   `json:"p,default=1"`
	}

	doc := []byte(`{"name":"x"}`)
	run := func(name string, v any) {
		t.Run(name, func(t *testing.T) {
			defer func() {
				if r := recover(); r != nil {
					t.Fatalf("Unmarshal panicked instead of returning an error or skipping the field: %v", r)
				}
			}()
			err := UnmarshalJsonBytes(doc, v)
			t.Logf("no panic, err=%v, v=%s", err, fmt.Sprintf("%+v", v))
		})
	}
	run("empty-struct marker", &withEmpty{})
	run("unexported optional struct", &withState{})
	run("unexported Duration with default", &withDur{})
	run("unexported pointer with default", &withPtr{})
}
