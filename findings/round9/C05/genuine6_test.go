// place in: lib/mapping
package mapping

import (
	"encoding/json"
	"testing"
)

// Anything after the first JSON value is ignored: malformed documents are accepted.
func TestGenuineDemo(t *testing.T) {
	type conf struct {
		A int `json:"a"`
	}
	for _, doc := range []string{`{"a":1} xyz`, `{"a":1}{"a":2}`, `{"a":1}]`} {
		var std conf
		if json.Unmarshal([]byte(doc), &std) == nil {
			t.Fatalf("encoding/json accepts %q?", doc)
		}
		var v conf
		if err := UnmarshalJsonBytes([]byte(doc), &v); err == nil {
			t.Errorf("malformed document %q accepted, A=%d", doc, v.A)
		}
	}
}
