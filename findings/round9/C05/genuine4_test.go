// place in: lib/mapping
package mapping

import (
	"testing"
	"time"
)

// range= / options= are accepted in the tag but silently not enforced for
// Duration fields (range) and for the elements of slices and maps (range and options).
func TestGenuineDemo(t *testing.T) {
	t.Run("Duration range", func(t *testing.T) {
		var v struct {
			D time.Duration `json:"d,range=[1:5]"`
		}
		if err := UnmarshalJsonBytes([]byte(`{"d":"1h"}`), &v); err == nil {
			t.Errorf("range=[1:5] but \"1h\" (=%d) accepted", int64(v.D))
		}
	})
	t.Run("slice range", func(t *testing.T) {
		var v struct {
			A []int `json:"a,range=[1:5]"`
		}
		if err := UnmarshalJsonBytes([]byte(`{"a":[100]}`), &v); err == nil {
			t.Errorf("range=[1:5] but %v accepted", v.A)
		}
	})
	t.Run("slice options", func(t *testing.T) {
		var v struct {
			A []string `json:"a,options=x|y"`
		}
		if err := UnmarshalJsonBytes([]byte(`{"a":["z"]}`), &v); err == nil {
			t.Errorf("options=x|y but %v accepted", v.A)
		}
	})
	t.Run("map range", func(t *testing.T) {
		var v struct {
			A map[string]int `json:"a,range=[1:5]"`
		}
		if err := UnmarshalJsonBytes([]byte(`{"a":{"k":100}}`), &v); err == nil {
			t.Errorf("range=[1:5] but %v accepted", v.A)
		}
	})
}
