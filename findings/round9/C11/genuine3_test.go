// place in: lib/store/sqlx
package sqlx

import (
	"context"
	"database/sql"
	"testing"

	"github.com/DATA-DOG/go-sqlmock"
	"github.com/gotid/god/lib/logx"
)

// An embedded struct that carries its own `db` tag is ONE column for the
// name-based mapping, but the strict-mode column count expands it into its
// inner fields: a result that matches the destination exactly is rejected
// with ErrNotMatchDestination (the non-strict call maps it fine).
func TestGenuineDemo(t *testing.T) {
	logx.Disable()

	type user struct {
		Id             int `db:"id"`
		sql.NullString `db:"name"`
	}

	db, mock, err := sqlmock.New()
	if err != nil {
		t.Fatal(err)
	}
	defer db.Close()
	conn := NewConnFromDB(db)

	mock.ExpectQuery("select").WillReturnRows(sqlmock.NewRows([]string{"name", "id"}).AddRow("bob", 7))
	var partial user
	if err := conn.QueryRowPartialCtx(context.Background(), &partial, "select name, id from users"); err != nil {
		t.Fatalf("non-strict: %v", err)
	}
	if partial.Id != 7 || partial.String != "bob" || !partial.Valid {
		t.Fatalf("non-strict mapped wrongly: %+v", partial)
	}

	mock.ExpectQuery("select").WillReturnRows(sqlmock.NewRows([]string{"name", "id"}).AddRow("bob", 7))
	var strict user
	if err := conn.QueryRowCtx(context.Background(), &strict, "select name, id from users"); err != nil {
		t.Fatalf("strict QueryRow rejected a result that has exactly the destination's columns (id, name): %v", err)
	}
}
