// place in: lib/store/sqlx
package sqlx

import (
	"context"
	"testing"

	"github.com/DATA-DOG/go-sqlmock"
	"github.com/gotid/god/lib/logx"
)

// A NULL column mapped (by name) onto a pointer field: the natural and only
// representable outcome is a nil pointer. Instead the row is rejected with a
// Scan error, and the destination is left half written.
func TestGenuineDemo(t *testing.T) {
	logx.Disable()

	db, mock, err := sqlmock.New()
	if err != nil {
		t.Fatal(err)
	}
	defer db.Close()

	rs := sqlmock.NewRows([]string{"name", "id"}).AddRow(nil, 7)
	mock.ExpectQuery("select").WillReturnRows(rs)

	var user struct {
		Id   int     `db:"id"`
		Name *string `db:"name"`
	}
	conn := NewConnFromDB(db)
	err = conn.QueryRowCtx(context.Background(), &user, "select name, id from users where id = 7")
	if err != nil {
		t.Fatalf("NULL into a *string field failed: %v (destination now %+v)", err, user)
	}
	if user.Name != nil {
		t.Fatalf("NULL column produced a non-nil pointer to %q", *user.Name)
	}
	if user.Id != 7 {
		t.Fatalf("id = %d, want 7", user.Id)
	}
}
