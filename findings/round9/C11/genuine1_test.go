// place in: lib/store/sqlx
package sqlx

import (
	"context"
	"database/sql"
	"testing"

	"github.com/DATA-DOG/go-sqlmock"
	"github.com/gotid/god/lib/logx"
)

// Strict mode, destination mapped by `db` tags, result set with as many columns
// as the destination has fields but NOT the columns the destination asks for
// (one requested column is missing, an unrelated one is present).
// Strict mode must refuse this instead of handing back a partially filled struct.
func TestGenuineDemo(t *testing.T) {
	logx.Disable()

	db, mock, err := sqlmock.New()
	if err != nil {
		t.Fatal(err)
	}
	defer db.Close()

	// the query forgot `name` and selected `nickname` instead
	rs := sqlmock.NewRows([]string{"id", "nickname"}).AddRow(7, "bob")
	mock.ExpectQuery("select").WillReturnRows(rs)

	var user struct {
		Id   int    `db:"id"`
		Name string `db:"name"`
	}
	conn := NewConnFromDB(db)
	err = conn.QueryRowCtx(context.Background(), &user, "select id, nickname from users where id = 7")
	if err == nil {
		t.Fatalf("strict QueryRow returned nil error and a partially filled struct %+v: "+
			"column `name` is missing from the result (only 1 of the 2 destination fields has a column), "+
			"want ErrNotMatchDestination", user)
	}
	_ = sql.ErrNoRows
}
