// place in: lib/logx
package logx

import (
	"os"
	"path/filepath"
	"testing"
	"time"
)

// Daily rule, keep 7 days, and a log file name that is legal but not in "cleaned" form:
// <tmp>/svc/../logs/access.log.  filepath.Glob returns CLEANED paths (<tmp>/logs/access.log-DATE)
// while the retention boundary is built from the raw name (<tmp>/svc/../logs/access.log-DATE) and the
// two are compared as strings: "logs/..." < "svc/../logs/..." for every date, so every backup - even
// the one just rotated - counts as outdated and is removed.
func TestGenuineDemo(t *testing.T) {
	dir := t.TempDir()
	for _, d := range []string{"svc", "logs"} {
		if err := os.Mkdir(filepath.Join(dir, d), 0o755); err != nil {
			t.Fatal(err)
		}
	}
	filename := dir + "/svc/../logs/access.log" // deliberately not cleaned

	yesterday := time.Now().Add(-24 * time.Hour).Format(dateFormat)
	oldBackup := filepath.Join(dir, "logs", "access.log-"+yesterday)
	if err := os.WriteFile(oldBackup, []byte("yesterday\n"), 0o600); err != nil {
		t.Fatal(err)
	}

	rule := DefaultRotateRule(filename, "-", 7, false)
	if out := rule.OutdatedFiles(); len(out) > 0 {
		t.Errorf("keep 7 days: a backup one day old is reported as outdated: %v", out)
	}

	logger, err := NewLogger(filename, rule, false)
	if err != nil {
		t.Fatal(err)
	}
	logger.Write([]byte("today\n"))
	deadline := time.Now().Add(10 * time.Second)
	for {
		if b, _ := os.ReadFile(filename); string(b) == "today\n" {
			break
		}
		if time.Now().After(deadline) {
			t.Fatal("timed out")
		}
		time.Sleep(10 * time.Millisecond)
	}
	newBackup := logger.backup
	if err := logger.rotate(); err != nil { // the worker is idle (queue empty)
		t.Fatal(err)
	}
	logger.Close()
	time.Sleep(200 * time.Millisecond) // let the asynchronous clean-up finish

	for _, f := range []string{oldBackup, newBackup} {
		if _, err := os.Stat(f); err != nil {
			t.Errorf("keep 7 days: backup %s was deleted by the clean-up", filepath.Base(f))
		}
	}
}
