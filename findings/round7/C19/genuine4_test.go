// place in: lib/logx
package logx

import (
	"os"
	"path/filepath"
	"testing"
	"time"
)

// Size rule, MaxBackups = 1.  Backup names carry the LOCAL time in RFC3339 and are ranked as strings.
// In the hour in which daylight-saving time ends (Europe: 03:00+02:00 -> 02:00+01:00) a later instant
// gets a lexically SMALLER name, so the clean-up keeps the older backup and deletes the newest one.
// The two names below are exactly what getNowDateInRFC3339Format produces on a host in Europe/Berlin
// at 2026-10-25 00:30 UTC and 40 minutes later.
func TestGenuineDemo(t *testing.T) {
	dir := t.TempDir()
	filename := filepath.Join(dir, "access.log")

	cest := time.FixedZone("CEST", 2*3600)
	cet := time.FixedZone("CET", 1*3600)
	older := time.Date(2026, 10, 25, 0, 30, 0, 0, time.UTC).In(cest) // 02:30:00+02:00
	newer := time.Date(2026, 10, 25, 1, 10, 0, 0, time.UTC).In(cet)  // 02:10:00+01:00, 40 minutes LATER
	olderBackup := filepath.Join(dir, "access-"+older.Format(fileTimeFormat)+".log")
	newerBackup := filepath.Join(dir, "access-"+newer.Format(fileTimeFormat)+".log")
	for _, f := range []string{olderBackup, newerBackup} {
		if err := os.WriteFile(f, []byte("x\n"), 0o600); err != nil {
			t.Fatal(err)
		}
	}

	rule := NewSizeLimitRotateRule(filename, "-", 0, 1, 1, false)
	out := rule.OutdatedFiles()
	if len(out) != 1 {
		t.Fatalf("expected exactly one backup beyond MaxBackups=1, got %v", out)
	}
	if out[0] != olderBackup {
		t.Fatalf("MaxBackups=1: clean-up removes the NEWEST backup %s (written %s) and keeps the older %s (written %s)",
			filepath.Base(out[0]), newer.UTC().Format(time.RFC3339), filepath.Base(olderBackup), older.UTC().Format(time.RFC3339))
	}
}
