// place in: lib/logx
package logx

import (
	"os"
	"path/filepath"
	"testing"
	"time"
)

// KeepDays = 365000 ("keep a thousand years", i.e. for ever): the retention boundary is computed as
// time.Hour * time.Duration(24*days), which overflows int64 nanoseconds for days > 106751, wraps to a
// POSITIVE duration and puts the boundary ~170 years in the future.  Every backup - including the one
// produced by the rotation that has just happened - is then "outdated" and removed.
func TestGenuineDemo(t *testing.T) {
	for _, days := range []int{106752, 365000, 999999} {
		for _, kind := range []string{"daily", "size"} {
			dir := t.TempDir()
			filename := filepath.Join(dir, "access.log")
			yesterday := time.Now().Add(-24 * time.Hour)

			var rule RotateRule
			var oldBackup string
			if kind == "daily" {
				rule = DefaultRotateRule(filename, "-", days, false)
				oldBackup = filename + "-" + yesterday.Format(dateFormat)
			} else {
				rule = NewSizeLimitRotateRule(filename, "-", days, 1, 0, false)
				oldBackup = filepath.Join(dir, "access-"+yesterday.Format(fileTimeFormat)+".log")
			}
			if err := os.WriteFile(oldBackup, []byte("yesterday\n"), 0o600); err != nil {
				t.Fatal(err)
			}

			logger, err := NewLogger(filename, rule, false)
			if err != nil {
				t.Fatal(err)
			}
			logger.Write([]byte("today\n"))
			waitForG1(t, func() bool { b, _ := os.ReadFile(filename); return string(b) == "today\n" })
			// one rotation, driven exactly as the worker drives it (the worker is idle: queue empty)
			newBackup := logger.backup
			if err := logger.rotate(); err != nil {
				t.Fatal(err)
			}
			logger.Close()
			time.Sleep(200 * time.Millisecond) // let the asynchronous clean-up finish

			if out := rule.OutdatedFiles(); len(out) > 0 {
				t.Errorf("%s rule, days=%d: backups at most one day old reported as outdated: %v", kind, days, out)
			}
			for _, f := range []string{oldBackup, newBackup} {
				if _, err := os.Stat(f); err != nil {
					t.Errorf("%s rule, days=%d: backup %s (not older than %d days) was deleted by the clean-up",
						kind, days, filepath.Base(f), days)
				}
			}
		}
	}
}

func waitForG1(t *testing.T, cond func() bool) {
	t.Helper()
	deadline := time.Now().Add(10 * time.Second)
	for !cond() {
		if time.Now().After(deadline) {
			t.Fatal("timed out")
		}
		time.Sleep(10 * time.Millisecond)
	}
}
