// place in: lib/logx
package logx

import (
	"bytes"
	"fmt"
	"os"
	"path/filepath"
	"sync"
	"testing"
	"time"
)

// agedRule is the library's size rule as seen by a logger that was created three days ago: the only
// thing that differs is the clock reading taken when the logger was created (first BackupFilename call).
type agedRule struct {
	*SizeLimitRotateRule
	once sync.Once
}

func (r *agedRule) BackupFilename() string {
	name := r.SizeLimitRotateRule.BackupFilename()
	r.once.Do(func() {
		dir := filepath.Dir(r.filename)
		prefix, ext := r.parseFilename()
		started := time.Now().Add(-72 * time.Hour).Format(fileTimeFormat)
		name = filepath.Join(dir, fmt.Sprintf("%s%s%s%s", prefix, r.delimiter, started, ext))
	})
	return name
}

// Size rule, 1 MB, keep 2 days.  A quiet log (error.log, say) needs three days to reach 1 MB.  The
// backup is named after the moment its file was STARTED, so when the rotation finally happens the
// brand-new backup already looks three days old and the clean-up of that very rotation deletes it -
// together with the records that were written seconds ago.
func TestGenuineDemo(t *testing.T) {
	dir := t.TempDir()
	filename := filepath.Join(dir, "error.log")
	rule := &agedRule{SizeLimitRotateRule: NewSizeLimitRotateRule(filename, "-", 2, 1, 0, false).(*SizeLimitRotateRule)}

	logger, err := NewLogger(filename, rule, false)
	if err != nil {
		t.Fatal(err)
	}
	recent := []byte("written one second before the rotation\n")
	logger.Write(bytes.Repeat([]byte("x"), megaBytes-100)) // three days of slow logging
	logger.Write(recent)
	logger.Write(bytes.Repeat([]byte("y"), 200)) // exceeds 1 MB: rotation

	deadline := time.Now().Add(10 * time.Second)
	for {
		if fi, err := os.Stat(filename); err == nil && fi.Size() == 200 {
			break
		}
		if time.Now().After(deadline) {
			t.Fatal("timed out waiting for the rotation")
		}
		time.Sleep(10 * time.Millisecond)
	}
	logger.Close()
	time.Sleep(200 * time.Millisecond) // let the asynchronous clean-up finish

	files, _ := filepath.Glob(filepath.Join(dir, "*"))
	for _, f := range files {
		if b, _ := os.ReadFile(f); bytes.Contains(b, recent) {
			return
		}
	}
	t.Fatalf("keep 2 days: the record accepted just before the rotation is in neither the current file "+
		"nor any backup; the backup created by this rotation was deleted at once. Files left: %v", files)
}
