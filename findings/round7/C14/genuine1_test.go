// place in: rpc/internal/balancer/p2c
package p2c

// Genuine finding 1: under dense traffic the success score is a one-way ratchet.
// An acceptable completion never moves the score towards 1000 (the gain
// (1000-score)*(1-w) is < 1 and is truncated away), while every unacceptable one
// takes at least one point off. A backend with 99.8% acceptable completions is
// therefore driven to "unhealthy" and never regains its score.

import (
	"context"
	"strconv"
	"sync/atomic"
	"testing"

	"google.golang.org/grpc/balancer"
	"google.golang.org/grpc/balancer/base"
	"google.golang.org/grpc/codes"
	"google.golang.org/grpc/resolver"
	"google.golang.org/grpc/status"
)

type genuine1Conn struct{ id string }

func (genuine1Conn) UpdateAddresses([]resolver.Address) {}
func (genuine1Conn) Connect()                           {}

func TestGenuineDemo(t *testing.T) {
	ready := map[balancer.SubConn]base.SubConnInfo{}
	for i := 0; i < 2; i++ {
		ready[genuine1Conn{id: strconv.Itoa(i)}] = base.SubConnInfo{Address: resolver.Address{Addr: strconv.Itoa(i)}}
	}
	p := new(p2cPickerBuilder).Build(base.PickerBuildInfo{ReadySCs: ready}).(*p2cPicker)
	byConn := map[balancer.SubConn]*subConn{}
	for _, c := range p.conns {
		byConn[c.conn] = c
	}
	unacceptable := status.Error(codes.DeadlineExceeded, "deadline")

	call := func(err error) *subConn {
		r, e := p.Pick(balancer.PickInfo{Ctx: context.Background()})
		if e != nil {
			t.Fatal(e)
		}
		r.Done(balancer.DoneInfo{Err: err})
		return byConn[r.SubConn]
	}

	// warm up: every connection completes acceptably a few times
	for i := 0; i < 1000; i++ {
		call(nil)
	}

	// Part A: one unacceptable completion, then 20000 acceptable ones on the same connection.
	c := call(unacceptable)
	after := atomic.LoadUint64(&c.success)
	okDone := 0
	for okDone < 20000 {
		if call(nil) == c {
			okDone++
		}
	}
	now := atomic.LoadUint64(&c.success)
	if now <= after {
		t.Errorf("score was %d after one unacceptable completion and is %d after %d further ACCEPTABLE completions on that connection: acceptable completions do not move the score towards 1000",
			after, now, okDone)
	}

	// Part B: dense traffic, 1 call in 500 is unacceptable (99.8% acceptable), same for both backends.
	const total = 1000000
	okCnt, badCnt := map[*subConn]int{}, map[*subConn]int{}
	for i := 0; i < total; i++ {
		if i%500 == 250 {
			badCnt[call(unacceptable)]++
		} else {
			okCnt[call(nil)]++
		}
	}
	for _, c := range p.conns {
		n := okCnt[c] + badCnt[c]
		if n > 0 && !c.healthy() {
			t.Errorf("backend %s: %d of its %d completions (%.2f%%) were acceptable, yet its success score is %d (unhealthy, threshold %d)",
				c.addr.Addr, okCnt[c], n, 100*float64(okCnt[c])/float64(n), atomic.LoadUint64(&c.success), throttleSuccess)
		}
	}
}
