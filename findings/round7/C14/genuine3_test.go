// place in: rpc/internal/balancer/p2c
package p2c

// Genuine finding 3: with many ready backends an unhealthy backend is starved.
// The forced pick ("at least once per second") only applies to the two sampled
// candidates, and the re-sampling loop throws away (up to 3 times) every pair that
// contains an unhealthy node, so an unhealthy node reaches choose() with
// probability (2/N)^3 per pick. With N = 32 (the resolver's subset size) and
// 400 picks/s that is about once every 10 s instead of once per second, so a
// recovered backend cannot regain its score for a long time.

import (
	"context"
	"math/rand"
	"strconv"
	"testing"
	"time"

	"google.golang.org/grpc/balancer"
	"google.golang.org/grpc/balancer/base"
	"google.golang.org/grpc/codes"
	"google.golang.org/grpc/resolver"
	"google.golang.org/grpc/status"
)

type genuine3Conn struct{ id string }

func (genuine3Conn) UpdateAddresses([]resolver.Address) {}
func (genuine3Conn) Connect()                           {}

func TestGenuineDemo(t *testing.T) {
	const n = 32
	ready := map[balancer.SubConn]base.SubConnInfo{}
	for i := 0; i < n; i++ {
		ready[genuine3Conn{id: strconv.Itoa(i)}] = base.SubConnInfo{Address: resolver.Address{Addr: strconv.Itoa(i)}}
	}
	p := new(p2cPickerBuilder).Build(base.PickerBuildInfo{ReadySCs: ready}).(*p2cPicker)
	p.r = rand.New(rand.NewSource(1)) // reproducible pair sampling
	byConn := map[balancer.SubConn]*subConn{}
	for _, c := range p.conns {
		byConn[c.conn] = c
	}
	bad := p.conns[0]
	unavailable := status.Error(codes.Unavailable, "down")

	call := func() *subConn {
		r, err := p.Pick(balancer.PickInfo{Ctx: context.Background()})
		if err != nil {
			t.Fatal(err)
		}
		c := byConn[r.SubConn]
		if c == bad {
			r.Done(balancer.DoneInfo{Err: unavailable})
		} else {
			r.Done(balancer.DoneInfo{})
		}
		return c
	}

	// phase 1: traffic until the bad backend has failed once and is unhealthy
	for i := 0; bad.healthy(); i++ {
		if i > 100000 {
			t.Fatal("bad backend never became unhealthy")
		}
		call()
	}

	// phase 2: 8 seconds of sustained traffic, ~400 picks/s (12 per second per healthy backend)
	const seconds = 8
	badPicks, total := 0, 0
	minHealthy := 0
	healthyPicks := map[*subConn]int{}
	start := time.Now()
	for time.Since(start) < seconds*time.Second {
		c := call()
		total++
		if c == bad {
			badPicks++
		} else {
			healthyPicks[c]++
		}
		time.Sleep(2500 * time.Microsecond)
	}
	minHealthy = total
	for _, c := range p.conns[1:] {
		if healthyPicks[c] < minHealthy {
			minHealthy = healthyPicks[c]
		}
	}
	t.Logf("%d picks in %d s; least-picked healthy backend: %d picks; unhealthy backend: %d picks", total, seconds, minHealthy, badPicks)
	if badPicks < seconds/2 {
		t.Errorf("under sustained traffic (%d picks in %d s over %d backends) the unhealthy backend was picked %d times; the property requires about one pick per second (>= %d even leniently), so a recovered backend cannot regain its score",
			total, seconds, n, badPicks, seconds/2)
	}
}
