// place in: rpc/internal/balancer/p2c
package p2c

// Genuine finding 2: with exactly three ready backends, a backend whose calls ALL
// fail (quickly, with an unacceptable code) is unhealthy after its first completion,
// yet it keeps receiving roughly its fair share of the picks: it is not chosen
// "markedly less often" than the two healthy alternatives.

import (
	"context"
	"math/rand"
	"strconv"
	"sync/atomic"
	"testing"
	"time"

	"google.golang.org/grpc/balancer"
	"google.golang.org/grpc/balancer/base"
	"google.golang.org/grpc/codes"
	"google.golang.org/grpc/resolver"
	"google.golang.org/grpc/status"
)

type genuine2Conn struct{ id string }

func (genuine2Conn) UpdateAddresses([]resolver.Address) {}
func (genuine2Conn) Connect()                           {}

func TestGenuineDemo(t *testing.T) {
	ready := map[balancer.SubConn]base.SubConnInfo{}
	for i := 0; i < 3; i++ {
		ready[genuine2Conn{id: strconv.Itoa(i)}] = base.SubConnInfo{Address: resolver.Address{Addr: strconv.Itoa(i)}}
	}
	p := new(p2cPickerBuilder).Build(base.PickerBuildInfo{ReadySCs: ready}).(*p2cPicker)
	p.r = rand.New(rand.NewSource(1)) // reproducible pair sampling
	byConn := map[balancer.SubConn]*subConn{}
	for _, c := range p.conns {
		byConn[c.conn] = c
	}
	bad := p.conns[0]
	internalErr := status.Error(codes.Internal, "boom")

	const warmup, total = 500, 12500
	picks := map[*subConn]int{}
	for i := 0; i < total; i++ {
		r, err := p.Pick(balancer.PickInfo{Ctx: context.Background()})
		if err != nil {
			t.Fatal(err)
		}
		c := byConn[r.SubConn]
		if i >= warmup {
			if c == bad && bad.healthy() {
				t.Fatalf("bad backend still healthy after warm-up (score %d)", atomic.LoadUint64(&bad.success))
			}
			picks[c]++
		}
		if c == bad {
			// fails at once (e.g. the handler panics / returns Internal immediately)
			r.Done(balancer.DoneInfo{Err: internalErr})
		} else {
			// healthy backends need ~100us to answer
			for d := time.Now(); time.Since(d) < 100*time.Microsecond; {
			}
			r.Done(balancer.DoneInfo{})
		}
	}

	healthyMean := float64(picks[p.conns[1]]+picks[p.conns[2]]) / 2
	ratio := float64(picks[bad]) / healthyMean
	t.Logf("picks after warm-up: always-failing backend %d (score %d), healthy backends %d and %d; ratio to healthy mean %.2f",
		picks[bad], atomic.LoadUint64(&bad.success), picks[p.conns[1]], picks[p.conns[2]], ratio)
	if ratio > 0.75 {
		t.Errorf("the always-failing, unhealthy backend got %d of %d picks = %.0f%% of what a healthy backend got on average (%.0f); it is not chosen markedly less often",
			picks[bad], total-warmup, 100*ratio, healthyMean)
	}
}
