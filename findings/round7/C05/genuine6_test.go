// place in: lib/mapping
package mapping

import (
	"fmt"
	"testing"
)

// The same content written as JSON and as YAML must give the same result.
func TestGenuineDemo(t *testing.T) {
	show := func(v any, err error) string {
		if err != nil {
			return "error"
		}
		return fmt.Sprintf("%#v", v)
	}

	// null for a required string
	type S struct {
		A string `json:"a"`
	}
	var js, ys S
	je := UnmarshalJsonBytes([]byte(`{"a":null}`), &js)
	ye := UnmarshalYamlBytes([]byte("a: null\n"), &ys)
	if show(js, je) != show(ys, ye) {
		t.Errorf("a: null into required string: json -> %s (%v), yaml -> %s (%v)", show(js, je), je, show(ys, ye), ye)
	}

	// null for an optional pointer: must stay nil
	type P struct {
		A *string `json:"a,optional"`
	}
	var jp, yp P
	je = UnmarshalJsonBytes([]byte(`{"a":null}`), &jp)
	ye = UnmarshalYamlBytes([]byte("a: ~\n"), &yp)
	if je != nil || ye != nil || (jp.A == nil) != (yp.A == nil) {
		t.Errorf("a: null into optional *string: json -> nil? %v (%v), yaml -> nil? %v (%v)", jp.A == nil, je, yp.A == nil, ye)
	}

	// 1.0 for an int field
	type I struct {
		A int `json:"a"`
	}
	var ji, yi I
	je = UnmarshalJsonBytes([]byte(`{"a":1.0}`), &ji)
	ye = UnmarshalYamlBytes([]byte("a: 1.0\n"), &yi)
	if show(ji, je) != show(yi, ye) {
		t.Errorf("a: 1.0 into int: json -> %s (%v), yaml -> %s (%v)", show(ji, je), je, show(yi, ye), ye)
	}
}
