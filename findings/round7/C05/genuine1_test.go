// place in: lib/mapping
package mapping

import (
	"fmt"
	"os"
	"testing"
)

func genuine1Call(f func() error) (err error, panicked any) {
	defer func() { panicked = recover() }()
	return f(), nil
}

// The `env=` tag option on a pointer-to-number field, or on a plain int64
// field whose environment value looks like a duration, panics.
func TestGenuineDemo(t *testing.T) {
	os.Setenv("GENUINE1_INT", "5")
	os.Setenv("GENUINE1_DUR", "1s")
	defer os.Unsetenv("GENUINE1_INT")
	defer os.Unsetenv("GENUINE1_DUR")

	var failures []string

	var a struct {
		Workers *int `json:"workers,env=GENUINE1_INT"`
	}
	if err, p := genuine1Call(func() error { return UnmarshalJsonBytes([]byte(`{}`), &a) }); p != nil {
		failures = append(failures, fmt.Sprintf("*int with env=5: PANIC: %v", p))
	} else if err == nil && (a.Workers == nil || *a.Workers != 5) {
		failures = append(failures, "*int with env=5: wrong value")
	}

	var b struct {
		Ratio *float64 `json:"ratio,env=GENUINE1_INT"`
	}
	if _, p := genuine1Call(func() error { return UnmarshalJsonBytes([]byte(`{}`), &b) }); p != nil {
		failures = append(failures, fmt.Sprintf("*float64 with env=5: PANIC: %v", p))
	}

	var c struct {
		Limit int64 `json:"limit,env=GENUINE1_DUR"`
	}
	if _, p := genuine1Call(func() error { return UnmarshalJsonBytes([]byte(`{}`), &c) }); p != nil {
		failures = append(failures, fmt.Sprintf("int64 with env=1s (ill-typed value, must be an error): PANIC: %v", p))
	}

	var d struct {
		Limit int64 `json:"limit,env=GENUINE1_INT"`
	}
	if err, p := genuine1Call(func() error { return UnmarshalJsonBytes([]byte(`{}`), &d) }); p != nil {
		failures = append(failures, fmt.Sprintf("int64 with env=5: PANIC: %v", p))
	} else if err != nil {
		// not a violation of the letter of the property (an error is allowed), reported for information
		t.Logf("note: int64 field with env=5 is rejected because every int64 is treated as a Duration: %v", err)
	}

	for _, f := range failures {
		t.Error(f)
	}
}
