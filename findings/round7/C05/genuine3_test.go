// place in: lib/mapping
package mapping

import "testing"

type genuine3inner struct {
	X int `json:"x,optional"`
}

type Genuine3Level string

func genuine3Call(f func() error) (err error, panicked any) {
	defer func() { panicked = recover() }()
	return f(), nil
}

// Anonymous (embedded) fields: an embedded pointer to an unexported struct type and an embedded
// named non-struct type both panic instead of returning an error.
func TestGenuineDemo(t *testing.T) {
	var a struct {
		*genuine3inner
	}
	if _, p := genuine3Call(func() error { return UnmarshalJsonBytes([]byte(`{"x":1}`), &a) }); p != nil {
		t.Errorf("embedded *unexportedStruct: PANIC: %v", p)
	}

	var b struct {
		*genuine3inner `json:",optional"`
	}
	if _, p := genuine3Call(func() error { return UnmarshalJsonBytes([]byte(`{"x":1}`), &b) }); p != nil {
		t.Errorf("embedded optional *unexportedStruct: PANIC: %v", p)
	}

	var c struct {
		Genuine3Level
		Name string `json:"name"`
	}
	if _, p := genuine3Call(func() error { return UnmarshalJsonBytes([]byte(`{"name":"n"}`), &c) }); p != nil {
		t.Errorf("embedded named string type: PANIC: %v", p)
	}
}
