// place in: lib/mapping
package mapping

import (
	"fmt"
	"testing"
)

func genuine2Call(f func() error) (err error, panicked any) {
	defer func() { panicked = recover() }()
	return f(), nil
}

// Slices whose element type is a pointer panic on two paths.
func TestGenuineDemo(t *testing.T) {
	// (1) slice value given as a JSON string (this is how every form / path / header slice arrives,
	//     and it is also accepted in JSON/YAML documents).
	var a struct {
		IDs []*int `json:"ids"`
	}
	if err, p := genuine2Call(func() error { return UnmarshalJsonBytes([]byte(`{"ids":"[1,2]"}`), &a) }); p != nil {
		t.Errorf(`[]*int <- "[1,2]": PANIC: %v`, p)
	} else if err == nil && (len(a.IDs) != 2 || *a.IDs[0] != 1 || *a.IDs[1] != 2) {
		t.Errorf(`[]*int <- "[1,2]": wrong value %v`, a.IDs)
	}

	form := NewUnmarshaler("form", WithStringValues())
	var b struct {
		IDs []*int64 `form:"ids"`
	}
	if _, p := genuine2Call(func() error { return form.Unmarshal(map[string]any{"ids": "[1,2]"}, &b) }); p != nil {
		t.Errorf(`form []*int64 <- "[1,2]": PANIC: %v`, p)
	}

	// (2) slice of pointers to slices, well-typed document.
	var c struct {
		Rows []*[]int `json:"rows"`
	}
	if err, p := genuine2Call(func() error { return UnmarshalJsonBytes([]byte(`{"rows":[[1,2],[3]]}`), &c) }); p != nil {
		t.Errorf(`[]*[]int <- [[1,2],[3]]: PANIC: %v`, p)
	} else if err == nil {
		if got := fmt.Sprint(*c.Rows[0], *c.Rows[1]); got != "[1 2] [3]" {
			t.Errorf("[]*[]int wrong value %s", got)
		}
	}
}
