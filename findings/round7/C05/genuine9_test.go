// place in: lib/mapping
package mapping

import "testing"

// Validation gaps: a required map may be absent; range= is checked on a float64 image of the
// number; a float32 field silently flushes a too-small number to 0.
func TestGenuineDemo(t *testing.T) {
	var a struct {
		Name   string            `json:"name"`
		Labels map[string]string `json:"labels"` // not optional, no default
	}
	if err := UnmarshalJsonBytes([]byte(`{"name":"x"}`), &a); err == nil {
		t.Errorf("required map field absent from the document, but accepted: %#v", a)
	}

	var b struct {
		N int64 `json:"n,range=[0:9007199254740992]"`
	}
	if err := UnmarshalJsonBytes([]byte(`{"n":9007199254740993}`), &b); err == nil {
		t.Errorf("n=%d accepted although it is outside range=[0:9007199254740992]", b.N)
	}

	var c struct {
		F float32 `json:"f"`
	}
	if err := UnmarshalJsonBytes([]byte(`{"f":1e-60}`), &c); err == nil && c.F == 0 {
		t.Errorf("f=1e-60 stored in a float32 as %v without error (number truncated to fit)", c.F)
	}
}
