// place in: api/httpc
package httpc

import (
	"context"
	"net/http"
	"net/http/httptest"
	"testing"

	"github.com/gotid/god/api/httpx"
	"github.com/gotid/god/api/router"
)

// Pointer fields in the form / header / path parts are sent as fmt.Sprint(pointer): the server
// receives the memory address ("0xc000012345") or "<nil>" and stores THAT, without any error.
func TestGenuineDemo(t *testing.T) {
	type Req struct {
		Key   string  `path:"key"`
		Name  *string `form:"name,optional"`
		Note  *string `form:"note,optional"`
		Trace *string `header:"X-Trace,optional"`
	}

	var got Req
	var parseErr error
	rt := router.NewRouter()
	if err := rt.Handle(http.MethodPost, "/nodes/:key",
		http.HandlerFunc(func(w http.ResponseWriter, r *http.Request) {
			parseErr = httpx.Parse(r, &got)
		})); err != nil {
		t.Fatal(err)
	}
	svr := httptest.NewServer(http.HandlerFunc(rt.ServeHTTP))
	defer svr.Close()

	name, trace := "alice", "t-1"
	sent := Req{Key: "k", Name: &name, Note: nil, Trace: &trace}
	resp, err := Do(context.Background(), http.MethodPost, svr.URL+"/nodes/:key", sent)
	if err != nil {
		t.Fatal(err)
	}
	resp.Body.Close()
	if parseErr != nil {
		t.Fatalf("server parse error: %v", parseErr)
	}

	str := func(p *string) string {
		if p == nil {
			return "<nil pointer>"
		}
		return "&" + *p
	}
	if str(got.Name) != str(sent.Name) {
		t.Errorf("form *string: sent %s, server got %s", str(sent.Name), str(got.Name))
	}
	if str(got.Note) != str(sent.Note) {
		t.Errorf("form nil *string (optional): sent %s, server got %s", str(sent.Note), str(got.Note))
	}
	if str(got.Trace) != str(sent.Trace) {
		t.Errorf("header *string: sent %s, server got %s", str(sent.Trace), str(got.Trace))
	}
}
