// place in: lib/conf
package conf

import "testing"

type Genuine5Listen struct {
	Host string `json:",optional"`
	Port int    `json:",optional"`
}

// With config loading, the document's keys are canonicalised but several look-ups inside the
// unmarshaler use the raw (non canonical) field key, so they never find anything.
func TestGenuineDemo(t *testing.T) {
	// (1) optional embedded struct: the document's values are silently ignored
	var a struct {
		Name           string
		Genuine5Listen `json:",optional"`
	}
	if err := LoadFromJsonBytes([]byte(`{"Name":"svc","Host":"example.org","Port":8080}`), &a); err != nil {
		t.Fatal(err)
	}
	if a.Host != "example.org" || a.Port != 8080 {
		t.Errorf("optional embedded struct: document has Host=example.org Port=8080, loaded %+v", a.Genuine5Listen)
	}

	// (2) `optional=Other` (both-or-neither) is not enforced: B is required once A is present
	var b struct {
		CertFile string `json:",optional"`
		KeyFile  string `json:",optional=CertFile"`
	}
	if err := LoadFromJsonBytes([]byte(`{"CertFile":"c.pem"}`), &b); err == nil {
		t.Errorf("KeyFile is required when CertFile is set, but the document was accepted: %+v", b)
	}

	// (3) an anonymous field given as a wrapped object must be rejected (it is by mapping.UnmarshalJsonBytes)
	var c struct {
		Name string
		Genuine5Listen
	}
	if err := LoadFromJsonBytes([]byte(`{"Name":"svc","Genuine5Listen":{"Host":"example.org"}}`), &c); err == nil && c.Host == "" {
		t.Errorf("wrapped anonymous struct accepted and its content dropped: %+v", c)
	}
}
