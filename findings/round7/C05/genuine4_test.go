// place in: lib/conf
package conf

import (
	"reflect"
	"testing"
)

// Config loading rewrites the keys of the user's DATA maps (not only the keys that name struct fields).
func TestGenuineDemo(t *testing.T) {
	type Config struct {
		Name   string            `json:"name"`
		Labels map[string]string `json:"labels"`
	}
	want := map[string]string{"App_Name": "shop", "HOME": "/root", "tier": "db"}

	var j Config
	if err := LoadFromJsonBytes([]byte(`{"name":"svc","labels":{"App_Name":"shop","HOME":"/root","tier":"db"}}`), &j); err != nil {
		t.Fatal(err)
	}
	if !reflect.DeepEqual(j.Labels, want) {
		t.Errorf("json: map field does not equal the document:\n want %v\n got  %v", want, j.Labels)
	}

	var y Config
	if err := LoadFromYamlBytes([]byte("name: svc\nlabels:\n  App_Name: shop\n  HOME: /root\n  tier: db\n"), &y); err != nil {
		t.Fatal(err)
	}
	if !reflect.DeepEqual(y.Labels, want) {
		t.Errorf("yaml: map field does not equal the document:\n want %v\n got  %v", want, y.Labels)
	}

	// two distinct document keys collapse into one entry: data is lost
	var c Config
	if err := LoadFromJsonBytes([]byte(`{"name":"svc","labels":{"user_id":"1","userId":"2"}}`), &c); err != nil {
		t.Fatal(err)
	}
	if len(c.Labels) != 2 {
		t.Errorf("two distinct keys of the document collapsed: %v", c.Labels)
	}
}
