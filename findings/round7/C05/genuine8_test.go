// place in: api/httpc
package httpc

import (
	"context"
	"net/http"
	"net/http/httptest"
	"reflect"
	"testing"
	"time"

	"github.com/gotid/god/api/httpx"
	"github.com/gotid/god/api/router"
)

func genuine8RoundTrip[T any](t *testing.T, name string, sent T) {
	t.Helper()
	var got T
	var parseErr error
	called := false
	rt := router.NewRouter()
	if err := rt.Handle(http.MethodPost, "/nodes/:key",
		http.HandlerFunc(func(w http.ResponseWriter, r *http.Request) {
			called = true
			parseErr = httpx.Parse(r, &got)
		})); err != nil {
		t.Fatal(err)
	}
	svr := httptest.NewServer(http.HandlerFunc(rt.ServeHTTP))
	defer svr.Close()

	resp, err := Do(context.Background(), http.MethodPost, svr.URL+"/nodes/:key", sent)
	if err != nil {
		t.Errorf("%s: client error: %v", name, err)
		return
	}
	resp.Body.Close()
	switch {
	case !called:
		t.Errorf("%s: request did not reach the route (status %d)", name, resp.StatusCode)
	case parseErr != nil:
		t.Errorf("%s: sent %+v, server cannot parse it: %v", name, sent, parseErr)
	case !reflect.DeepEqual(sent, got):
		t.Errorf("%s: sent %+v, server got %+v", name, sent, got)
	}
}

// Valid request structs (accepted by the client-side validation) that do not survive the round trip.
func TestGenuineDemo(t *testing.T) {
	type DurForm struct {
		Key string        `path:"key"`
		TTL time.Duration `form:"ttl"`
	}
	genuine8RoundTrip(t, "Duration in form", DurForm{Key: "k", TTL: time.Second})

	type DurJSON struct {
		Key string        `path:"key"`
		TTL time.Duration `json:"ttl"`
	}
	genuine8RoundTrip(t, "Duration in json", DurJSON{Key: "k", TTL: time.Second})

	type SliceForm struct {
		Key string `path:"key"`
		IDs []int  `form:"ids"`
	}
	genuine8RoundTrip(t, "slice in form", SliceForm{Key: "k", IDs: []int{1, 2}})

	type OptOptions struct {
		Key  string `path:"key"`
		Kind int    `form:"kind,optional,options=1|2"`
	}
	genuine8RoundTrip(t, "optional+options left at zero", OptOptions{Key: "k"})

	type Big struct {
		Key string `path:"key"`
		N   uint64 `json:"n"`
	}
	genuine8RoundTrip(t, "uint64 above MaxInt64", Big{Key: "k", N: 1 << 63})

	type Slash struct {
		Key string `path:"key"`
	}
	genuine8RoundTrip(t, "path value containing '/'", Slash{Key: "a/b"})

	type Hdr struct {
		Key string `path:"key"`
		H   string `header:"X-H"`
	}
	genuine8RoundTrip(t, "header value with outer blanks", Hdr{Key: "k", H: " x "})
}
