// place in: lib/limit
package limit

import (
	"testing"
	"time"

	"github.com/alicebob/miniredis/v2"
	"github.com/gotid/god/lib/store/redis"
)

// A caller that read its clock in second s but whose request reaches Redis
// after a request stamped s+1 (two concurrent callers of Allow(): each reads
// time.Now() BEFORE the round trip) moves the bucket's timestamp BACK to s.
// The next request stamped s+1 is then credited the refill of second s -> s+1
// a second time. Between second s and second s+1 the limiter admits
// burst + 2*rate events instead of at most burst + rate.
func TestGenuineDemo(t *testing.T) {
	s, err := miniredis.Run()
	if err != nil {
		t.Fatal(err)
	}
	defer s.Close()

	const (
		rate  = 10
		burst = 10
	)
	l := NewTokenLimiter(rate, burst, redis.New(s.Addr()), "genuine-backwards")

	t0 := time.Unix(1_700_000_000, 0) // second s
	t1 := t0.Add(time.Second)         // second s+1

	admitted := 0
	take := func(now time.Time, n int) {
		if l.AllowN(now, n) {
			admitted += n
		}
	}

	take(t0, burst) // caller B, second s: drains the bucket             (legitimate: burst)
	take(t1, rate)  // caller B, second s+1: takes the refill of 1 s     (legitimate: +rate)
	take(t0, 1)     // caller A: clock read in second s, arrives late; denied, but rewinds the timestamp
	take(t1, rate)  // caller B, still second s+1: the same second is refilled again

	if limit := burst + rate*1; admitted > limit {
		t.Fatalf("between second s and s+1 the token limiter admitted %d events, the bound is burst+rate*1 = %d "+
			"(a late request stamped s rewound the bucket timestamp, so second s->s+1 was refilled twice)",
			admitted, limit)
	}
}
