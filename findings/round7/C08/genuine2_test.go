// place in: lib/limit
package limit

import (
	"testing"
	"time"

	"github.com/alicebob/miniredis/v2"
	"github.com/gotid/god/lib/store/redis"
)

// The bucket is refilled according to the CALLER's clock, but it is forgotten
// (both keys expire => "full bucket") according to the SERVER's clock, after
// floor(2*burst/rate) server seconds without traffic. When the server's time
// advances by that TTL while the caller's clock advances by less than the fill
// time (a caller passing a fixed/stale `now`, or a slow caller clock), an
// empty bucket becomes full again although the caller's clock says that less
// than burst tokens can have been refilled.
func TestGenuineDemo(t *testing.T) {
	s, err := miniredis.Run()
	if err != nil {
		t.Fatal(err)
	}
	defer s.Close()

	const (
		rate  = 1
		burst = 10 // fill time 10 s, key TTL 20 s
	)
	l := NewTokenLimiter(rate, burst, redis.New(s.Addr()), "genuine-ttl")

	t0 := time.Unix(1_700_000_000, 0)
	admitted := 0
	take := func(now time.Time, n int) {
		if l.AllowN(now, n) {
			admitted += n
		}
	}

	take(t0, burst) // drains the bucket in caller second s

	// server time advances by the TTL, caller time advances by 1 second only
	s.FastForward(20 * time.Second)

	take(t0.Add(time.Second), burst) // caller second s+1: at most `rate` tokens can have come back

	if limit := burst + rate*1; admitted > limit {
		t.Fatalf("between caller second s and s+1 the token limiter admitted %d events, the bound is burst+rate*1 = %d "+
			"(the keys expired on the server's clock and the bucket restarted full)", admitted, limit)
	}
}
