// place in: lib/mr
package mr

import (
	"fmt"
	"testing"
)

// cancel(err) must make the call return that error. MapReduceVoid (and hence
// Finish) maps every error for which errors.Is(err, ErrReduceNoOutput) holds
// to nil - including an error the USER passed to cancel. Typical source of
// such an error: a nested MapReduce whose reducer wrote nothing, whose error
// the outer task returns (possibly wrapped).
func TestGenuineDemo(t *testing.T) {
	inner := func() error {
		_, err := MapReduce(func(source chan<- any) {
			source <- 1
		}, func(item any, writer Writer, cancel func(error)) {
			writer.Write(item)
		}, func(pipe <-chan any, writer Writer, cancel func(error)) {
			for range pipe {
			}
			// writes nothing
		})
		if err != nil {
			return fmt.Errorf("loading users: %w", err)
		}
		return nil
	}

	sideEffect := false
	err := Finish(inner, func() error {
		sideEffect = true
		return nil
	})
	_ = sideEffect
	if err == nil {
		t.Fatalf("Finish returned nil although one of its functions failed with %q and that error was passed to cancel: "+
			"MapReduceVoid swallows any cancel error that wraps ErrReduceNoOutput", inner())
	}

	// same through MapReduceVoid directly, unwrapped
	err = MapReduceVoid(func(source chan<- any) {
		source <- 1
	}, func(item any, writer Writer, cancel func(error)) {
		cancel(ErrReduceNoOutput)
	}, func(pipe <-chan any, cancel func(error)) {
		for range pipe {
		}
	})
	if err == nil {
		t.Fatalf("MapReduceVoid returned nil after cancel(ErrReduceNoOutput)")
	}
}
