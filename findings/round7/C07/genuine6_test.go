// place in: lib/mr
package mr

import (
	"errors"
	"fmt"
	"runtime"
	"strings"
	"sync/atomic"
	"testing"
	"time"
)

// Same root cause as genuine5 but with the default options and no context:
// a mapper's cancel(err) lands between the check and the send of the
// reducer's writer.Write(v). cancel -> finish -> close(output); the reducer's
// `output <- v` panics with "send on closed channel" in user code, and the
// reducer goroutine is then blocked for ever in onceChan.write (the caller has
// already returned err).
// Probabilistic; gives up (passes) after 15 s without a hit.
func TestGenuineDemo(t *testing.T) {
	errDummy := errors.New("dummy")
	var hits int32
	var first atomic.Value
	start := time.Now()
	i := 0
	for ; time.Since(start) < 15*time.Second && atomic.LoadInt32(&hits) == 0; i++ {
		var flag int32
		spin := i % 400
		v, err := MapReduce(func(source chan<- any) {
			source <- 0
			source <- 1
		}, func(item any, writer Writer, cancel func(error)) {
			if item.(int) == 0 {
				writer.Write(item)
				return
			}
			for atomic.LoadInt32(&flag) == 0 {
			}
			for k := 0; k < spin; k++ {
				atomic.LoadInt32(&flag)
			}
			cancel(errDummy)
		}, func(pipe <-chan any, writer Writer, cancel func(error)) {
			<-pipe // stop early
			defer func() {
				if r := recover(); r != nil {
					atomic.AddInt32(&hits, 1)
					first.Store(fmt.Sprint(r))
					panic(r)
				}
			}()
			atomic.StoreInt32(&flag, 1)
			writer.Write("result")
		})
		if !(err == errDummy && v == nil) && !(err == nil && v == "result") {
			t.Fatalf("unexpected outcome %v, %v", v, err)
		}
	}
	if atomic.LoadInt32(&hits) == 0 {
		t.Logf("%d tries, interleaving not hit", i)
		return
	}

	time.Sleep(time.Second)
	buf := make([]byte, 1<<20)
	dump := string(buf[:runtime.Stack(buf, true)])
	stuck := 0
	for _, g := range strings.Split(dump, "\n\n") {
		if strings.Contains(g, "lib/mr.(*onceChan).write(") {
			stuck++
		}
	}
	t.Fatalf("after %d tries: writer.Write panicked inside the reducer with %q (a mapper's cancel closed output between Write's check and its send); "+
		"1s after the call returned %d goroutine(s) started by it are still blocked in onceChan.write", i, first.Load(), stuck)
}
