// place in: lib/mr
package mr

import (
	"testing"
	"time"
)

// The reducer writes its single result and then panics. Property: a panic in
// the reducer is re-raised in the calling goroutine, and "in every case the
// call returns". On the unpatched tree MapReduce never returns: the caller has
// already left its select (it took the value) and sits in the deferred
// `for range output`, while the reducer goroutine is blocked for ever in
// panicChan.write, before finish() would close output.
func TestGenuineDemo(t *testing.T) {
	type outcome struct {
		v        any
		err      error
		panicked any
	}
	res := make(chan outcome, 1)
	go func() {
		var o outcome
		defer func() {
			o.panicked = recover()
			res <- o
		}()
		o.v, o.err = MapReduce(func(source chan<- any) {
			for i := 0; i < 3; i++ {
				source <- i
			}
		}, func(item any, writer Writer, cancel func(error)) {
			writer.Write(item)
		}, func(pipe <-chan any, writer Writer, cancel func(error)) {
			sum := 0
			for v := range pipe {
				sum += v.(int)
			}
			writer.Write(sum)
			panic("reducer panic after write")
		})
	}()

	select {
	case o := <-res:
		t.Logf("call ended: v=%v err=%v panic=%v", o.v, o.err, o.panicked)
	case <-time.After(3 * time.Second):
		t.Fatalf("MapReduce did not return (nor panic) within 3s after the reducer wrote one value and then panicked: " +
			"caller is stuck in the deferred `for range output`, reducer goroutine is stuck in onceChan.write")
	}
}
