// place in: lib/mr
package mr

import (
	"context"
	"testing"
	"time"
)

// The context becomes done; the caller's branch runs cancel(DeadlineExceeded),
// which drains the source *in the calling goroutine*. If the generator then
// panics, buildSource's deferred handler calls panicChan.write BEFORE
// close(source); nobody reads panicChan (the caller is inside drain(source)),
// so the generator goroutine blocks for ever and the call never returns.
func TestGenuineDemo(t *testing.T) {
	ctx, cancelCtx := context.WithCancel(context.Background())
	defer cancelCtx()

	type outcome struct {
		v        any
		err      error
		panicked any
	}
	res := make(chan outcome, 1)
	go func() {
		var o outcome
		defer func() {
			o.panicked = recover()
			res <- o
		}()
		o.v, o.err = MapReduce(func(source chan<- any) {
			source <- 1
			cancelCtx()
			time.Sleep(200 * time.Millisecond)
			panic("generator panic after the context is done")
		}, func(item any, writer Writer, cancel func(error)) {
			writer.Write(item)
		}, func(pipe <-chan any, writer Writer, cancel func(error)) {
			for range pipe {
			}
		}, WithContext(ctx))
	}()

	select {
	case o := <-res:
		t.Logf("call ended: v=%v err=%v panic=%v", o.v, o.err, o.panicked)
	case <-time.After(3 * time.Second):
		t.Fatalf("MapReduce neither returned context.DeadlineExceeded nor re-raised the generator's panic within 3s: " +
			"caller is stuck in cancel->drain(source), generator goroutine is stuck in onceChan.write before close(source)")
	}
}
