// place in: lib/mr
package mr

import (
	"context"
	"fmt"
	"runtime"
	"strings"
	"sync/atomic"
	"testing"
	"time"
)

// Interleaving: the reducer's writer.Write(v) has passed its
// `select { case <-ctx.Done(): ... default: }` check, the context becomes done,
// the caller's select takes the ctx.Done() branch, runs cancel -> finish ->
// close(output), and the reducer's pending `output <- v` panics with
// "send on closed channel" inside user code. The reducer goroutine's recover
// then calls panicChan.write, which nobody reads (the caller has returned):
// the goroutine is left blocked for ever.
// Probabilistic (hits within a handful of tries on a multi-core machine);
// gives up (passes) after 15 s without a hit.
func TestGenuineDemo(t *testing.T) {
	var hits int32
	var first atomic.Value
	start := time.Now()
	i := 0
	for ; time.Since(start) < 15*time.Second && atomic.LoadInt32(&hits) == 0; i++ {
		ctx, cancelCtx := context.WithCancel(context.Background())
		var flag int32
		spin := i % 400
		go func() {
			for atomic.LoadInt32(&flag) == 0 {
			}
			for k := 0; k < spin; k++ {
				atomic.LoadInt32(&flag)
			}
			cancelCtx()
		}()
		_, err := MapReduce(func(source chan<- any) {
			source <- 1
		}, func(item any, writer Writer, cancel func(error)) {
			writer.Write(item)
		}, func(pipe <-chan any, writer Writer, cancel func(error)) {
			for range pipe {
			}
			defer func() {
				if r := recover(); r != nil {
					atomic.AddInt32(&hits, 1)
					first.Store(fmt.Sprint(r))
					panic(r)
				}
			}()
			atomic.StoreInt32(&flag, 1)
			writer.Write(1)
		}, WithContext(ctx))
		if err != nil && err != context.DeadlineExceeded {
			t.Fatalf("unexpected error %v", err)
		}
		atomic.StoreInt32(&flag, 1)
		cancelCtx()
	}
	if atomic.LoadInt32(&hits) == 0 {
		t.Logf("%d tries, interleaving not hit", i)
		return
	}

	time.Sleep(time.Second)
	buf := make([]byte, 1<<20)
	dump := string(buf[:runtime.Stack(buf, true)])
	stuck := 0
	for _, g := range strings.Split(dump, "\n\n") {
		if strings.Contains(g, "lib/mr.(*onceChan).write(") {
			stuck++
		}
	}
	t.Fatalf("after %d tries: writer.Write panicked inside the reducer with %q (context became done between Write's check and its send; caller closed output); "+
		"1s after the call returned %d goroutine(s) started by it are still blocked in onceChan.write", i, first.Load(), stuck)
}
