// place in: lib/mr
package mr

import (
	"context"
	"testing"
	"time"
)

// A context that is already done when the call is made. Property: "a context
// that is done makes it return context.DeadlineExceeded". If the worker
// goroutines (executeMappers sees ctx.Done and closes the collector, the
// reducer goroutine then runs finish() and closes output) get ahead of the
// calling goroutine before it reaches its final select, both `<-ctx.Done()`
// and `<-output` are ready and select picks at random; the output branch finds
// no recorded error and reports ErrReduceNoOutput - which MapReduceVoid turns
// into nil, i.e. success.
// Probabilistic (about one call in 10^4..10^5 here); gives up (passes) after 15 s.
func TestGenuineDemo(t *testing.T) {
	ctx, cancelCtx := context.WithCancel(context.Background())
	cancelCtx()

	start := time.Now()
	i := 0
	for ; time.Since(start) < 15*time.Second; i++ {
		mapped := 0
		err := MapReduceVoid(func(source chan<- any) {
			source <- 1
		}, func(item any, writer Writer, cancel func(error)) {
			mapped++
			writer.Write(item)
		}, func(pipe <-chan any, cancel func(error)) {
			for range pipe {
			}
		}, WithContext(ctx))
		if err != context.DeadlineExceeded {
			t.Fatalf("try %d: MapReduceVoid with an already-done context returned %v (items mapped: %d), want context.DeadlineExceeded", i, err, mapped)
		}
	}
	t.Logf("%d tries, interleaving not hit", i)
}
