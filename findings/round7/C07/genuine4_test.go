// place in: lib/mr
package mr

import (
	"errors"
	"runtime"
	"strings"
	"testing"
	"time"
)

// One mapper cancels, the call returns that error; another, slower mapper then
// panics. Its goroutine blocks for ever in onceChan.write (nobody reads
// panicChan after the call returned), which also pins executeMappers
// (wg.Wait) and the reducer goroutine (drain(collector)): three goroutines
// started by the call are left behind for ever although the generator has
// returned long ago.
func TestGenuineDemo(t *testing.T) {
	errDummy := errors.New("dummy")
	_, err := MapReduce(func(source chan<- any) {
		source <- 0
		source <- 1
	}, func(item any, writer Writer, cancel func(error)) {
		if item.(int) == 0 {
			time.Sleep(50 * time.Millisecond)
			cancel(errDummy)
			return
		}
		time.Sleep(300 * time.Millisecond)
		panic("late mapper panic")
	}, func(pipe <-chan any, writer Writer, cancel func(error)) {
		for range pipe {
		}
	})
	if err != errDummy {
		t.Fatalf("unexpected error %v", err)
	}

	var stuck []string
	deadline := time.Now().Add(3 * time.Second)
	for time.Now().Before(deadline) {
		time.Sleep(100 * time.Millisecond)
		buf := make([]byte, 1<<20)
		dump := string(buf[:runtime.Stack(buf, true)])
		stuck = stuck[:0]
		for _, g := range strings.Split(dump, "\n\n") {
			switch {
			case strings.Contains(g, "lib/mr.(*onceChan).write("):
				stuck = append(stuck, "mapper goroutine blocked in onceChan.write")
			case strings.Contains(g, "lib/mr.executeMappers("):
				stuck = append(stuck, "executeMappers blocked in wg.Wait")
			case strings.Contains(g, "lib/mr.mapReduceWithPanicChan.func") && !strings.Contains(g, "TestGenuineDemo("):
				stuck = append(stuck, "reducer goroutine blocked on the never-closed collector")
			}
		}
		if len(stuck) == 0 {
			return
		}
	}
	t.Fatalf("3s after MapReduce returned %v (generator long finished) %d goroutines started by the call are still blocked: %v", err, len(stuck), stuck)
}
