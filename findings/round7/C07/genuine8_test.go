// place in: lib/mr
package mr

import (
	"testing"
)

// The module's go.mod says `go 1.19`, so the runtime default is
// GODEBUG=panicnil=1: panic(nil) makes recover() return nil. Every recovery
// site in lib/mr tests `if r := recover(); r != nil`, so a mapper (or the
// generator / reducer) that panics with a nil value is silently swallowed:
// the panic is not re-raised in the caller, the call returns a normal result
// computed without the aborted item.
func TestGenuineDemo(t *testing.T) {
	var nilValue any
	var (
		v        any
		err      error
		returned bool
	)
	func() {
		defer func() {
			recover() // a re-raised panic (nil or *runtime.PanicNilError) would surface here
		}()
		v, err = MapReduce(func(source chan<- any) {
			for i := 1; i <= 4; i++ {
				source <- i
			}
		}, func(item any, writer Writer, cancel func(error)) {
			if item.(int) == 2 {
				panic(nilValue)
			}
			writer.Write(item)
		}, func(pipe <-chan any, writer Writer, cancel func(error)) {
			sum := 0
			for x := range pipe {
				sum += x.(int)
			}
			writer.Write(sum)
		})
		returned = true
	}()
	if returned {
		t.Fatalf("a mapper panicked (with a nil value) but MapReduce returned normally: v=%v err=%v (the sum without item 2); the panic was swallowed instead of being re-raised in the caller", v, err)
	}
}
