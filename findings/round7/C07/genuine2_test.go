// place in: lib/mr
package mr

import (
	"testing"
	"time"
)

// The reducer stops early and writes its result while one mapper is still
// running (delay); that mapper then panics. Nobody reads panicChan any more
// (the caller already took the result), so the mapper goroutine blocks for
// ever in onceChan.write -> wg never done -> collector never closed ->
// reducer goroutine stuck in drain(collector) -> output never closed ->
// the caller hangs for ever in its deferred `for range output`.
func TestGenuineDemo(t *testing.T) {
	type outcome struct {
		v        any
		err      error
		panicked any
	}
	res := make(chan outcome, 1)
	go func() {
		var o outcome
		defer func() {
			o.panicked = recover()
			res <- o
		}()
		o.v, o.err = MapReduce(func(source chan<- any) {
			source <- 0
			source <- 1
		}, func(item any, writer Writer, cancel func(error)) {
			if item.(int) == 1 {
				time.Sleep(200 * time.Millisecond)
				panic("late mapper panic")
			}
			writer.Write(item)
		}, func(pipe <-chan any, writer Writer, cancel func(error)) {
			// stop early: take the first value and report it
			writer.Write(<-pipe)
		})
	}()

	select {
	case o := <-res:
		t.Logf("call ended: v=%v err=%v panic=%v", o.v, o.err, o.panicked)
	case <-time.After(3 * time.Second):
		t.Fatalf("MapReduce did not return (nor re-raise the mapper's panic) within 3s: " +
			"reducer stopped early and wrote a value, a slower mapper then panicked; caller hangs in deferred `for range output`")
	}
}
