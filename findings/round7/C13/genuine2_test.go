// place in: lib/hash
package hash

import (
	"math"
	"testing"
)

// AddWithWeight computes h.replicas*weight/TopWeight in plain int arithmetic.
// For a large positive weight the product wraps around to a negative number,
// AddWithReplicas then inserts no virtual node at all, and the only node of
// the ring - which has a positive weight - never receives a key.
func TestGenuineDemo(t *testing.T) {
	for _, weight := range []int{math.MaxInt, math.MaxInt/100 + 1} {
		ch := NewConsistentHash()
		ch.AddWithWeight("node", weight)

		if n := len(ch.keys); n == 0 {
			t.Errorf("AddWithWeight(node, %d): no virtual node was inserted (weights above %d are meant to be capped at full weight)",
				weight, TopWeight)
		}
		if v, ok := ch.Get("some-key"); !ok || v != "node" {
			t.Errorf("AddWithWeight(node, %d): Get = (%v, %v), want (node, true): a node of positive weight is present",
				weight, v, ok)
		}
	}

}
