// place in: lib/hash
package hash

import (
	"strconv"
	"sync/atomic"
	"testing"
	"time"
)

// gateNode is a Stringer node. Its 2nd String() call (the one AddWithReplicas
// makes AFTER its internal Remove and BEFORE taking the write lock) parks
// until released, which lets the test pin down the interleaving
//
//	A: Remove(n) (no-op)            B: Remove(n) (no-op)
//	                                B: lock; insert 100 virtual nodes; unlock
//	A: lock; insert 100 virtual nodes; unlock
//
// without sleeping or relying on the scheduler.
type gateNode struct {
	addr    string
	calls   int32
	reached chan struct{}
	release chan struct{}
}

func (n *gateNode) String() string {
	if atomic.AddInt32(&n.calls, 1) == 2 {
		close(n.reached)
		<-n.release
	}
	return n.addr
}

func TestGenuineDemo(t *testing.T) {
	ch := NewConsistentHash()
	ch.Add("other")

	n := &gateNode{addr: "10.0.0.1:6379", reached: make(chan struct{}), release: make(chan struct{})}

	done := make(chan struct{})
	go func() { // goroutine A
		ch.Add(n)
		close(done)
	}()

	select {
	case <-n.reached: // A has finished its Remove(n) and is about to take the lock
	case <-time.After(5 * time.Second):
		t.Fatal("goroutine A never reached the gate")
	}

	ch.Add(n) // goroutine B (this one): complete Add of the same node

	close(n.release)
	<-done

	// two concurrent Add(n) of the same node: n must own 100 virtual nodes, "other" 100.
	if got := len(ch.keys); got != 200 {
		t.Errorf("after two concurrent Add(n): %d ring positions, want 200 (node n was inserted twice)", got)
	}

	// Now the node goes away. Only "other" (weight 100) remains, so every key
	// must be served by "other".
	ch.Remove(n)

	if got := len(ch.keys); got != 100 {
		t.Errorf("after Remove(n): %d ring positions left, want 100 (stale positions of the removed node)", got)
	}

	absent, wrong := 0, 0
	const total = 10000
	for k := 0; k < total; k++ {
		v, ok := ch.Get("key-" + strconv.Itoa(k))
		switch {
		case !ok:
			absent++
		case v != "other":
			wrong++
		}
	}
	if absent > 0 || wrong > 0 {
		t.Errorf("with node \"other\" present, Get reported absence for %d and a removed node for %d of %d keys",
			absent, wrong, total)
	}
}
