// place in: tools/god/util/format
package format

import "testing"

// Property: every word after the first is rendered "in the casing of 'designer'"
// (for the spelling "Designer": first letter upper-case, nothing else changed),
// and the first word in the casing of 'go'. Words are delimited ONLY by
// underscores and upper-case letters. transferTo uses strings.Title, which
// additionally upper-cases the letter after every '-', '.', space, NBSP ...
// INSIDE a word, so one word gets several capitals.
func TestGenuineDemo(t *testing.T) {
	cases := []struct{ format, content, want string }{
		{"GoDesigner", "user-api", "User-api"},          // got "User-Api"
		{"go_Designer", "svc_user-api", "svc_User-api"}, // got "svc_User-Api"
		{"go_Designer", "a_foo.bar", "a_Foo.bar"},       // got "a_Foo.Bar"
		{"go_Designer", "a_foo bar", "a_Foo bar"},
		// control
		{"GoDesigner", "user_api", "UserApi"},
	}
	for _, c := range cases {
		got, err := FileNamingFormat(c.format, c.content)
		if err != nil {
			t.Fatalf("FileNamingFormat(%q, %q): %v", c.format, c.content, err)
		}
		if got != c.want {
			t.Errorf("FileNamingFormat(%q, %q) = %q, want %q (capital inside a single word)", c.format, c.content, got, c.want)
		}
	}
}
