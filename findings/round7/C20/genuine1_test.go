// place in: tools/god/util/format
package format

import "testing"

// Property: words are obtained by splitting at underscores and BEFORE UPPER-CASE
// LETTERS; the quantifier includes unicode identifiers. format.split only
// recognises 'A'..'Z', so a non-ASCII upper-case letter does not start a word
// (whereas stringx.ToSnake, which uses unicode.IsUpper, does split there).
func TestGenuineDemo(t *testing.T) {
	cases := []struct{ format, content, want string }{
		{"go_designer", "fooÉbar", "foo_ébar"},       // got "fooébar"
		{"go_designer", "моёИмяМодель", "моё_имя_модель"}, // got "моёимямодель"
		{"goDesigner", "моёИмя", "моёИмя"},             // got "моёимя": camel-case identifier is not even preserved by the camel template
		{"GO-designer", "straßeÄnderung", "STRAßE-änderung"}, // got "STRAßEÄNDERUNG"
		// control: ASCII
		{"go_designer", "fooEbar", "foo_ebar"},
	}
	for _, c := range cases {
		got, err := FileNamingFormat(c.format, c.content)
		if err != nil {
			t.Fatalf("FileNamingFormat(%q, %q): %v", c.format, c.content, err)
		}
		if got != c.want {
			t.Errorf("FileNamingFormat(%q, %q) = %q, want %q (no split before non-ASCII upper-case letter)", c.format, c.content, got, c.want)
		}
	}
}
