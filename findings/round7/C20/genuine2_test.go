// place in: tools/god/util/stringx
package stringx

import "testing"

// Property: snake -> camel -> snake returns the identifier for identifiers made
// of lower-case ASCII words separated by single underscores. When a word starts
// with a digit, cases.Title upper-cases the first LETTER of the word (not its
// first character), so a spurious word boundary appears on the way back.
func TestGenuineDemo(t *testing.T) {
	for _, id := range []string{"user_2fa", "oauth_2client", "a_1b", "x_3d_model", "foo_bar", "a1_b2"} {
		camel := From(id).ToCamel()
		back := From(camel).ToSnake()
		if back != id {
			t.Errorf("ToSnake(ToCamel(%q)) = ToSnake(%q) = %q, want %q", id, camel, back, id)
		}
	}
}
