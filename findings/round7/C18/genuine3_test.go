// place in: lib/syncx
package syncx

import (
	"io"
	"testing"
	"time"
)

type gen3Closer struct{ closed int }

func (c *gen3Closer) Close() error {
	c.closed++
	return nil
}

// Close overlapping a Get whose create callback is still running: Close sets
// the map to nil, the Get then panics ("assignment to entry in nil map") and
// the resource it has just created is closed by nobody.
func TestGenuineDemo(t *testing.T) {
	m := NewResourceManager()

	inCreate := make(chan struct{})
	proceed := make(chan struct{})
	res := &gen3Closer{}

	type outcome struct {
		c        io.Closer
		err      error
		panicked any
	}
	done := make(chan outcome, 1)
	go func() {
		var o outcome
		defer func() {
			o.panicked = recover()
			done <- o
		}()
		o.c, o.err = m.Get("key", func() (io.Closer, error) {
			close(inCreate)
			<-proceed
			return res, nil
		})
	}()

	select {
	case <-inCreate:
	case <-time.After(5 * time.Second):
		t.Fatal("create was never called")
	}

	if err := m.Close(); err != nil { // overlaps the Get above
		t.Fatalf("Close: %v", err)
	}
	close(proceed)

	var o outcome
	select {
	case o = <-done:
	case <-time.After(5 * time.Second):
		t.Fatal("Get did not return")
	}

	if o.panicked != nil {
		t.Errorf("Get overlapping Close panicked: %v", o.panicked)
	}
	if res.closed != 1 {
		t.Errorf("the resource created by the overlapping Get was closed %d times, want 1: it is leaked open (Get returned %v, %v)",
			res.closed, o.c, o.err)
	}
}
