// place in: lib/syncx
package syncx

import (
	"io"
	"testing"
	"time"
)

type gen1Closer struct {
	name   string
	closed int
}

func (c *gen1Closer) Close() error {
	c.closed++
	return nil
}

// A Set that happens while a Get for the same key is inside its create
// callback is silently overwritten when that Get finishes: the resource given
// to Set disappears from the manager, later Gets return something else, and
// Close never closes it.
func TestGenuineDemo(t *testing.T) {
	m := NewResourceManager()

	inCreate := make(chan struct{})
	proceed := make(chan struct{})
	created := &gen1Closer{name: "created-by-get"}
	set := &gen1Closer{name: "given-to-set"}

	type result struct {
		c   io.Closer
		err error
	}
	done := make(chan result, 1)
	go func() {
		c, err := m.Get("key", func() (io.Closer, error) {
			close(inCreate)
			<-proceed
			return created, nil
		})
		done <- result{c, err}
	}()

	select {
	case <-inCreate:
	case <-time.After(5 * time.Second):
		t.Fatal("create was never called")
	}

	// Set completes entirely while Get is still creating.
	m.Set("key", set)
	close(proceed)

	var first result
	select {
	case first = <-done:
	case <-time.After(5 * time.Second):
		t.Fatal("Get did not return")
	}
	if first.err != nil {
		t.Fatalf("unexpected error: %v", first.err)
	}

	// Both operations have completed. Whatever order they are linearised in,
	// the manager must now hold the resource given to Set
	// (Get;Set -> Set replaced it, Set;Get -> Get must have found it).
	later, err := m.Get("key", func() (io.Closer, error) {
		t.Error("create called although the key is populated")
		return &gen1Closer{name: "third"}, nil
	})
	if err != nil {
		t.Fatalf("unexpected error: %v", err)
	}

	if err := m.Close(); err != nil {
		t.Fatalf("Close: %v", err)
	}

	if later != io.Closer(set) {
		t.Errorf("after Set(key, %q) completed, Get(key) returns %q: the Set was lost (overwritten by the in-flight Get)",
			set.name, later.(*gen1Closer).name)
	}
	if set.closed != 1 {
		t.Errorf("resource handed to Set was closed %d times by Close, want 1: it leaked out of the manager", set.closed)
	}
}
