// place in: lib/syncx
package syncx

import (
	"testing"
	"time"
)

// When the one execution of a flight panics, the calls that share the flight
// do not receive that outcome: they are released with (nil, nil) - a
// fabricated "success" that no execution of fn ever produced.
func TestGenuineDemo(t *testing.T) {
	g := NewSingleFlight()

	started := make(chan struct{})
	release := make(chan struct{})
	leaderDone := make(chan any, 1)

	go func() {
		defer func() { leaderDone <- recover() }()
		_, _ = g.Do("key", func() (any, error) {
			close(started)
			<-release
			panic("boom")
		})
	}()

	select {
	case <-started:
	case <-time.After(5 * time.Second):
		t.Fatal("leader never started")
	}

	type result struct {
		val      any
		err      error
		panicked any
	}
	sharer := make(chan result, 1)
	executed := false
	go func() {
		var r result
		defer func() {
			r.panicked = recover()
			sharer <- r
		}()
		r.val, r.err = g.Do("key", func() (any, error) {
			executed = true
			return "own", nil
		})
	}()

	// Let the second call join the flight (it blocks in c.wg.Wait()). If it
	// has not joined by then it executes its own fn and the demo skips.
	time.Sleep(200 * time.Millisecond)
	close(release)

	if p := <-leaderDone; p == nil {
		t.Fatal("leader was expected to panic")
	}

	var r result
	select {
	case r = <-sharer:
	case <-time.After(5 * time.Second):
		t.Fatal("sharer never returned")
	}

	if executed {
		// the sharer ran its own fn: then it did not overlap, demo is void
		t.Skip("sharer did not overlap with the leader")
	}
	if r.panicked == nil && r.err == nil {
		t.Errorf("the only execution of fn panicked, yet the sharing call returned (%v, %v): "+
			"a success result that no execution produced", r.val, r.err)
	}
}
