// place in: lib/collection
package collection

import (
	"os"
	"os/exec"
	"strings"
	"sync/atomic"
	"testing"
	"time"
)

// SetTimer accepts a key of a non-hashable dynamic type ([]byte is the likely
// one: "cache key as bytes") and reports success; the wheel goroutine then
// panics inside SafeMap ("hash of unhashable type") outside any recover, which
// kills the whole process.  The task, and every other pending task, never fires.
// The crash is provoked in a child process so that this test can report it.
func TestGenuineDemo(t *testing.T) {
	if os.Getenv("GENUINE2_CHILD") == "1" {
		var other int32
		tw, _ := NewTimingWheel(20*time.Millisecond, 4, func(k, v any) {
			if k == "other" {
				atomic.AddInt32(&other, 1)
			}
		})
		if err := tw.SetTimer("other", 1, 40*time.Millisecond); err != nil {
			os.Exit(3)
		}
		err := tw.SetTimer([]byte("k"), 1, 40*time.Millisecond)
		if err != nil {
			// rejecting the key (ErrArgument) would be fine
			os.Stdout.WriteString("REJECTED\n")
			os.Exit(0)
		}
		os.Stdout.WriteString("ACCEPTED\n")
		time.Sleep(300 * time.Millisecond)
		if atomic.LoadInt32(&other) == 1 {
			os.Stdout.WriteString("OTHER-FIRED\n")
		}
		os.Exit(0)
	}

	cmd := exec.Command(os.Args[0], "-test.run=^TestGenuineDemo$", "-test.count=1")
	cmd.Env = append(os.Environ(), "GENUINE2_CHILD=1")
	out, err := cmd.CombinedOutput()
	s := string(out)
	if err != nil {
		first := s
		if i := strings.Index(s, "panic:"); i >= 0 {
			first = s[i:]
			if j := strings.Index(first, "\n"); j >= 0 {
				first = first[:j]
			}
		}
		t.Fatalf("SetTimer([]byte key) returned nil (accepted=%v) and then the process died (%v): %s",
			strings.Contains(s, "ACCEPTED"), err, first)
	}
	if strings.Contains(s, "ACCEPTED") && !strings.Contains(s, "OTHER-FIRED") {
		t.Fatalf("an unrelated task did not fire: %s", s)
	}
}
