// place in: lib/collection
package collection

import (
	"fmt"
	"testing"
	"time"
)

// A history containing two Stop calls is allowed by the property's quantifier
// ("every history of SetTimer/MoveTimer/RemoveTimer/Drain/Stop calls").  The
// clause "every operation after Stop reports ErrClosed" cannot hold for the
// second Stop: it panics with "close of closed channel" in the caller.
func TestGenuineDemo(t *testing.T) {
	tw, err := NewTimingWheel(time.Second, 4, func(k, v any) {})
	if err != nil {
		t.Fatal(err)
	}
	tw.Stop()
	if err := tw.SetTimer("k", 1, time.Second); err != ErrClosed {
		t.Fatalf("SetTimer after Stop: %v", err)
	}

	var p any
	func() {
		defer func() { p = recover() }()
		tw.Stop() // an operation after Stop
	}()
	if p != nil {
		t.Fatalf("second Stop() on a stopped TimingWheel panicked instead of being a closed-wheel no-op: %s", fmt.Sprint(p))
	}
}
