// place in: lib/load
package load

import (
	"testing"
	"time"

	"github.com/gotid/god/lib/logx"
)

// The shedder keeps "buckets per second" as an integer: int64(time.Second / bucketDuration).
// For a bucket longer than one second this is 0 (for any bucket duration that does not
// divide one second it is truncated), so the capacity estimate collapses to its floor 1
// and an overloaded shedder rejects requests although both the current and the smoothed
// number of in-flight requests are far below
// max passes per bucket x buckets per second x min average latency.
func TestGenuineDemo(t *testing.T) {
	logx.Disable()
	DisableLog()
	saved := systemOverloadChecker
	defer func() { systemOverloadChecker = saved }()
	overloaded := false
	systemOverloadChecker = func(int64) bool { return overloaded }

	// one-minute window, default 50 buckets -> 1.2 s per bucket -> 0.8333 buckets per second
	const window = time.Minute
	const nbuckets = 50
	s := NewAdaptiveShedder(WithWindow(window), WithBuckets(nbuckets))
	as, ok := s.(*adaptiveShedder)
	if !ok {
		t.Skip("adaptive shedding disabled")
	}

	// 200 requests, ~100 ms each, 195 of them complete successfully in the first bucket
	var ps []Promise
	for i := 0; i < 200; i++ {
		p, err := s.Allow()
		if err != nil {
			t.Fatalf("setup: rejected without overload: %v", err)
		}
		ps = append(ps, p)
	}
	time.Sleep(100 * time.Millisecond)
	for _, p := range ps[:195] {
		p.Pass()
	}
	// five requests stay in flight; let the smoothed number settle at ~5
	// (Fail only decrements the in-flight count, it records no statistics)
	for i := 0; i < 300; i++ {
		p, err := s.Allow()
		if err != nil {
			t.Fatalf("setup: rejected without overload: %v", err)
		}
		p.Fail()
	}
	// leave the first bucket so that it is a completed bucket of the window
	bucket := window / nbuckets
	time.Sleep(bucket + 100*time.Millisecond)

	maxPass := float64(as.maxPass())
	minRt := as.minRt()
	bucketsPerSecond := float64(time.Second) / float64(bucket)
	capacity := maxPass * bucketsPerSecond * minRt / 1e3
	as.avgFlyingLock.Lock()
	avg := as.avgFlying
	as.avgFlyingLock.Unlock()
	t.Logf("maxPass=%v bucketsPerSecond=%.4f minRt=%vms => capacity %.2f; flying=%d avgFlying=%.2f; shedder: windows=%d maxFlight=%d",
		maxPass, bucketsPerSecond, minRt, capacity, as.flying, avg, as.windows, as.maxFlight())
	if maxPass != 195 || minRt < 100 || capacity < 16 {
		t.Fatalf("setup did not produce the intended statistics")
	}

	overloaded = true
	if _, err := s.Allow(); err != nil {
		t.Fatalf("overloaded shedder rejected a request with %d in flight (smoothed %.2f) although the capacity "+
			"estimated from the window is %.2f (= %v passes/bucket x %.4f buckets/s x %v ms); the shedder used windows=%d, maxFlight=%d: %v",
			as.flying, avg, capacity, maxPass, bucketsPerSecond, minRt, as.windows, as.maxFlight(), err)
	}
}
