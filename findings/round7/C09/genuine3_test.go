// place in: lib/load
package load

import (
	"testing"
	"time"

	"github.com/gotid/god/lib/collection"
	"github.com/gotid/god/lib/logx"
)

// minRt() starts its minimum at defaultMinRt (1000 ms) and only ever lowers it, so the
// "min average latency" used for the capacity estimate is silently capped at one second.
// For a service whose requests take longer than 1 s (here: 1.5 s) the capacity is
// under-estimated by the factor latency/1s, and an overloaded shedder rejects requests while
// both the current and the smoothed in-flight numbers are below
// max passes per bucket x buckets per second x min average latency.
func TestGenuineDemo(t *testing.T) {
	logx.Disable()
	DisableLog()
	saved := systemOverloadChecker
	defer func() { systemOverloadChecker = saved }()
	overloaded := false
	systemOverloadChecker = func(int64) bool { return overloaded }

	s := NewAdaptiveShedder() // defaults: 5 s window, 50 buckets of 100 ms, 10 buckets per second
	as, ok := s.(*adaptiveShedder)
	if !ok {
		t.Skip("adaptive shedding disabled")
	}
	admit := func() Promise {
		p, err := s.Allow()
		if err != nil {
			t.Fatalf("setup: rejected without overload: %v", err)
		}
		return p
	}

	var slow, rest []Promise
	for i := 0; i < 30; i++ {
		slow = append(slow, admit())
	}
	for i := 0; i < 470; i++ {
		rest = append(rest, admit())
	}
	time.Sleep(1500 * time.Millisecond)
	for _, p := range slow { // 30 requests complete after ~1.5 s each
		p.Pass()
	}
	time.Sleep(150 * time.Millisecond) // make their bucket(s) completed buckets

	maxPass := float64(as.maxPass())
	var trueMinRt float64 // min over the window's buckets of the average latency, uncapped
	as.rtCounter.Reduce(func(b *collection.Bucket) {
		if b.Count > 0 {
			if avg := b.Sum / float64(b.Count); trueMinRt == 0 || avg < trueMinRt {
				trueMinRt = avg
			}
		}
	})
	if maxPass < 2 || trueMinRt < 1500 {
		t.Fatalf("setup did not produce the intended statistics: maxPass=%v minRt=%v", maxPass, trueMinRt)
	}
	capacity := maxPass * 10 * trueMinRt / 1e3 // >= 15 x maxPass
	used := maxPass * 10 * 1000 / 1e3          // what the shedder computes: 10 x maxPass
	target := int64(maxPass * 12.5)            // strictly between the two

	// bring the in-flight number to target and let the smoothed number settle there
	// (Fail only decrements the in-flight count, it records no statistics)
	for as.flying > target {
		rest[0].Fail()
		rest = rest[1:]
	}
	for i := 0; i < 400; i++ {
		admit().Fail()
	}
	as.avgFlyingLock.Lock()
	avg := as.avgFlying
	as.avgFlyingLock.Unlock()
	t.Logf("maxPass=%v minRt(true)=%.0fms minRt(shedder)=%.0fms capacity(true)=%.1f maxFlight(shedder)=%d (%v) flying=%d avgFlying=%.2f",
		maxPass, trueMinRt, as.minRt(), capacity, as.maxFlight(), used, as.flying, avg)

	overloaded = true
	if _, err := s.Allow(); err != nil {
		t.Fatalf("overloaded shedder rejected a request with %d in flight (smoothed %.2f) although the capacity estimated "+
			"from the window is %.1f (= %v passes/bucket x 10 buckets/s x %.0f ms); the shedder used minRt=%.0f ms, maxFlight=%d: %v",
			as.flying, avg, capacity, maxPass, trueMinRt, as.minRt(), as.maxFlight(), err)
	}
}
