// place in: lib/collection
package collection

import (
	"fmt"
	"testing"
	"time"
)

// updateOffset reads the clock twice: span() computes the number of elapsed buckets from one
// reading, then `now := timex.Now()` takes a second reading to realign lastTime. When a bucket
// boundary passes between the two readings, the ring offset advances by `span` buckets but
// lastTime advances by `span+1` intervals. From then on every value already in the window is
// taken to be one bucket younger than it is, i.e. it stays visible one bucket interval longer
// than `size` intervals ("nothing older is seen" is broken).
// The race window is a few dozen nanoseconds, so the test uses a very short bucket interval to
// hit it quickly; with 100 ms buckets the same thing happens, only rarely.
func TestGenuineDemo(t *testing.T) {
	const size = 64
	const interval = 200 * time.Nanosecond
	const adds = 2000000
	rw := NewRollingWindow(size, interval)
	var advancing, mismatches int
	var first string
	for iter := 0; iter < adds; iter++ {
		off0, last0 := rw.offset, rw.lastTime
		rw.Add(1)
		if (rw.lastTime-last0)%interval != 0 {
			t.Fatalf("lastTime left the bucket grid")
		}
		slots := int((rw.lastTime - last0) / interval) // bucket intervals the window start moved forward
		if slots == 0 || slots >= size {
			continue // same bucket, or whole-window gap (offset legitimately unrelated)
		}
		advancing++
		moved := (rw.offset - off0 + size) % size // ring positions the current bucket moved forward
		if moved != slots {
			mismatches++
			if first == "" {
				first = fmt.Sprintf("Add #%d moved the bucket start time forward by %d intervals but the ring offset by %d buckets",
					iter+1, slots, moved)
			}
		}
	}
	if mismatches > 0 {
		t.Fatalf("%d of %d bucket-advancing Adds (out of %d Adds) left ring offset and bucket start time inconsistent; first: %s. "+
			"After each of them all older buckets are attributed to time slots one interval later than the ones "+
			"they were filled in, so their values outlive the window by one bucket interval",
			mismatches, advancing, adds, first)
	}
}
