// place in: lib/executors
package executors

import (
	"sync"
	"testing"
	"time"
)

// A flush interval of zero (or a negative one) is accepted by WithBulkInterval /
// WithFlushInterval / NewPeriodicalExecutor without complaint.  The background
// flusher then dies at once (time.NewTicker panics on a non-positive interval,
// the panic is swallowed by threading.GoSafe) but pe.guarded stays true, so no
// flusher is ever started again.  The next size-triggered batch is put into the
// commander channel, where nobody will ever read it: Add blocks for ever and the
// batch is not executed by the size trigger, by a tick, by Flush or by Wait.
func TestGenuineDemo(t *testing.T) {
	var lock sync.Mutex
	var got []any
	be := NewBulkExecutor(func(tasks []any) {
		lock.Lock()
		got = append(got, tasks...)
		lock.Unlock()
	}, WithBulkTasks(2), WithBulkInterval(0))

	be.Add(1) // starts the flusher, which dies in newTicker; its farewell Flush may run task 1
	time.Sleep(200 * time.Millisecond)

	done := make(chan struct{})
	go func() {
		defer close(done)
		be.Add(2)
		be.Add(3) // size threshold reached (whether or not task 1 was flushed alone)
		be.Add(4)
		be.Add(5)
	}()

	select {
	case <-done:
	case <-time.After(3 * time.Second):
		// give the explicit triggers a chance as well
		be.Flush()
		waited := make(chan struct{})
		go func() { be.Wait(); close(waited) }()
		select {
		case <-waited:
		case <-time.After(time.Second):
		}
		lock.Lock()
		defer lock.Unlock()
		t.Fatalf("Add blocked for ever with interval 0: a full batch sits in the commander channel "+
			"and is never executed, not even by Flush/Wait; executed so far: %v", got)
	}

	be.Wait()
	lock.Lock()
	defer lock.Unlock()
	if len(got) != 5 {
		t.Fatalf("executed %v, want tasks 1..5 exactly once", got)
	}
}
