// place in: lib/executors
package executors

import (
	"sync"
	"testing"
	"time"
)

// An execute function that hands tasks back to its own executor (the usual
// "re-queue what failed" pattern) dead-locks the executor as soon as the re-added
// tasks reach the size threshold while execute runs on the flusher goroutine
// (which is where every size-triggered and every tick-triggered batch runs):
// Add parks the new batch in the commander channel and waits on confirmChan for
// the flusher - which is the goroutine that is waiting.  The re-added tasks are
// never executed, the wait group never drains, every later size-triggered Add and
// every Wait block for ever.
func TestGenuineDemo(t *testing.T) {
	var lock sync.Mutex
	var got []any
	retried := false
	var be *BulkExecutor
	be = NewBulkExecutor(func(tasks []any) {
		lock.Lock()
		again := !retried
		retried = true
		lock.Unlock()
		if again {
			// first attempt "fails": give the tasks back
			for _, v := range tasks {
				be.Add(v)
			}
			return
		}
		lock.Lock()
		got = append(got, tasks...)
		lock.Unlock()
	}, WithBulkTasks(2), WithBulkInterval(time.Hour))

	be.Add(1)
	be.Add(2) // batch [1 2] runs on the flusher, re-adds 1 and 2 -> threshold reached inside execute

	done := make(chan struct{})
	go func() { be.Wait(); close(done) }()
	select {
	case <-done:
		lock.Lock()
		defer lock.Unlock()
		if len(got) != 2 {
			t.Fatalf("executed %v, want the re-added [1 2]", got)
		}
	case <-time.After(3 * time.Second):
		lock.Lock()
		defer lock.Unlock()
		t.Fatalf("executor dead-locked: Add called from execute waits for a confirmation from the very "+
			"goroutine it runs on; re-added tasks never executed (executed: %v), Wait never returns", got)
	}
}
