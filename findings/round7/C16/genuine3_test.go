// place in: lib/executors
package executors

import (
	"sync"
	"sync/atomic"
	"testing"
	"time"
)

type oneTaskContainer struct {
	tasks   []any
	execute func([]any)
}

func (c *oneTaskContainer) AddTask(task any) bool { c.tasks = append(c.tasks, task); return true }
func (c *oneTaskContainer) Execute(tasks any)     { c.execute(tasks.([]any)) }
func (c *oneTaskContainer) RemoveAll() any        { ts := c.tasks; c.tasks = nil; return ts }

// The confirmation an adder waits for in Add (<-pe.confirmChan) is not tied to the
// batch that adder sent: with two adders that both reached the size threshold, the
// flusher's "batch registered with the wait group" signal for adder A's batch can be
// consumed by adder B, whose own batch is still parked in the commander channel and
// NOT yet registered.  B's Add returns, B calls Wait, and Wait returns as soon as A's
// batch is done - before B's task has been executed.
//
// Adder A is replayed statement by statement (the body of Add is three statements)
// so that the preemption point between `pe.commander <- values` and
// `<-pe.confirmChan` is pinned; adder B uses the real Add and the real Wait.
// (With the real Add on both sides the same thing shows up a few times in 20000
// tries on a 16-core machine, see genuine3.md.)
func TestGenuineDemo(t *testing.T) {
	var lock sync.Mutex
	executed := map[any]bool{}
	gateA := make(chan struct{})
	var aStarted int32
	pe := NewPeriodicalExecutor(time.Hour, &oneTaskContainer{execute: func(tasks []any) {
		if tasks[0] == "a" {
			atomic.StoreInt32(&aStarted, 1)
			<-gateA // batch A is slow
		}
		lock.Lock()
		for _, v := range tasks {
			executed[v] = true
		}
		lock.Unlock()
	}})

	// adder A: first two statements of Add
	valuesA, ok := pe.addAndCheck("a")
	if !ok {
		t.Fatal("setup: threshold not reached")
	}
	pe.commander <- valuesA
	// ... A is preempted here, before `<-pe.confirmChan`.

	// the flusher takes batch A, registers it and offers the confirmation
	for atomic.LoadInt32(&pe.inflight) != 0 {
		time.Sleep(time.Millisecond)
	}

	// adder B: the real Add, then the real Wait
	waitReturned := make(chan struct{})
	go func() {
		pe.Add("b") // consumes the confirmation that was meant for A
		pe.Wait()
		close(waitReturned)
	}()

	// batch A starts executing only after somebody took its confirmation
	for atomic.LoadInt32(&aStarted) == 0 {
		time.Sleep(time.Millisecond)
	}
	time.Sleep(200 * time.Millisecond) // let B get into Wait
	close(gateA)                       // batch A finishes

	select {
	case <-waitReturned:
		lock.Lock()
		done := executed["b"]
		lock.Unlock()
		if !done {
			// let A resume so that nothing is left hanging
			<-pe.confirmChan
			t.Fatalf("Wait returned although task \"b\", added by the same goroutine before Wait, " +
				"has not been executed yet (its batch is still parked in the commander channel)")
		}
	case <-time.After(2 * time.Second):
		// Wait is (correctly) still waiting for b's batch, which the flusher can only
		// start once A resumes and takes its confirmation.
		<-pe.confirmChan
		<-waitReturned
		lock.Lock()
		defer lock.Unlock()
		if !executed["a"] || !executed["b"] {
			t.Fatalf("executed %v, want a and b", executed)
		}
	}
}
