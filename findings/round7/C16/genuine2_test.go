// place in: lib/executors
package executors

import (
	"sync"
	"testing"
	"time"
)

// One panic of the user's execute function on a size-triggered batch kills the
// background flusher for good: the panic unwinds backgroundFlush (GoSafe only logs
// it), pe.guarded stays true, so no later Add starts a new flusher.  From then on
// ticks flush nothing and the next size-triggered batch is parked in the commander
// channel for ever, with its adder blocked in Add.
func TestGenuineDemo(t *testing.T) {
	var lock sync.Mutex
	var got []any
	first := true
	be := NewBulkExecutor(func(tasks []any) {
		lock.Lock()
		defer lock.Unlock()
		if first {
			first = false
			panic("execute failed once")
		}
		got = append(got, tasks...)
	}, WithBulkTasks(2), WithBulkInterval(20*time.Millisecond))

	be.Add(1)
	be.Add(2) // batch [1 2] -> execute panics in the flusher goroutine
	time.Sleep(100 * time.Millisecond)

	// tick trigger: task 3 must be executed by a periodic tick
	be.Add(3)
	time.Sleep(500 * time.Millisecond) // 25 intervals
	lock.Lock()
	n := len(got)
	lock.Unlock()
	if n != 1 {
		t.Errorf("after one panicking batch the periodic tick no longer flushes: "+
			"task 3 not executed after 25 intervals (executed: %v)", got)
	}

	// size trigger: the adder of a full batch blocks for ever
	done := make(chan struct{})
	go func() {
		defer close(done)
		be.Add(4) // [3 4] reaches the threshold
		be.Add(5)
		be.Add(6)
	}()
	select {
	case <-done:
	case <-time.After(3 * time.Second):
		be.Flush()
		lock.Lock()
		defer lock.Unlock()
		t.Fatalf("Add blocked for ever after an earlier batch panicked: batch [3 4] is parked "+
			"in the commander channel and never executed, even after Flush; executed: %v", got)
	}
}
