// place in: lib/executors
package executors

import (
	"sync"
	"testing"
	"time"
)

// A size-triggered batch leaves the container in the adder's critical section but is
// registered with the wait group only later, by the flusher, when it gets round to
// reading the commander channel.  In between the batch is invisible to Wait: it is
// neither in the container (so Wait's own Flush finds nothing) nor counted in the
// wait group.  A task whose Add has long returned can sit in such a batch (the
// threshold was reached by ANOTHER adder's task), so a Wait issued after that Add
// returns before the task has been executed.
//
// Only the public API is used.  The flusher is kept busy with a slow first batch so
// that the second batch stays parked in the commander channel for a while.
func TestGenuineDemo(t *testing.T) {
	var lock sync.Mutex
	executed := map[any]bool{}
	gate1 := make(chan struct{})
	started1 := make(chan struct{})
	be := NewBulkExecutor(func(tasks []any) {
		if tasks[0] == "a" {
			close(started1)
			<-gate1 // first batch is slow
		} else {
			time.Sleep(300 * time.Millisecond)
		}
		lock.Lock()
		for _, v := range tasks {
			executed[v] = true
		}
		lock.Unlock()
	}, WithBulkTasks(2), WithBulkInterval(time.Hour))

	be.Add("a")
	be.Add("b") // batch [a b] -> flusher, executing (blocked on gate1)
	<-started1

	be.Add("c") // returns at once: c waits in the container

	go be.Add("d")                     // another adder completes the batch [c d]; it is parked in the commander channel
	time.Sleep(200 * time.Millisecond) // let d's adder get there

	waitReturned := make(chan struct{})
	go func() {
		be.Wait() // issued after Add("c") returned
		close(waitReturned)
	}()
	time.Sleep(200 * time.Millisecond) // Wait is now blocked on batch [a b]
	close(gate1)                       // batch [a b] finishes

	select {
	case <-waitReturned:
	case <-time.After(5 * time.Second):
		t.Fatal("Wait did not return")
	}
	lock.Lock()
	defer lock.Unlock()
	if !executed["c"] {
		t.Fatalf("Wait returned although task \"c\", whose Add had returned before Wait was called, "+
			"has not been executed (executed so far: %v); its batch was taken out of the container by "+
			"another adder and is not yet registered with the wait group", executed)
	}
}
