// place in: lib/breaker
package breaker

import (
	"testing"
)

// go.mod declares "go 1.19", so GODEBUG panicnil=1 is the default for this module:
// panic(nil) is a real panic for which recover() returns nil (while still stopping
// the panic). doReq detects a panic with `if e := recover(); e != nil`, so a
// panic(nil) in the protected function is (a) swallowed - Do returns a nil error as
// if the call had succeeded - and (b) recorded as NO outcome at all.
func TestGenuineDemo(t *testing.T) {
	b := New()
	gb := b.(*circuitBreaker).throttle.(loggedThrottle).internalThrottle.(*googleBreaker)

	const total = 1000
	var reraised, returnedNil, rejected int
	for i := 0; i < total; i++ {
		func() {
			defer func() {
				if recover() != nil {
					reraised++
				}
			}()
			err := b.Do(func() error {
				panic(nil)
			})
			switch err {
			case nil:
				returnedNil++
			case ErrServiceUnavailable:
				rejected++
			}
		}()
	}

	accepts, n := gb.history()
	if n+int64(rejected) != total || reraised+rejected != total {
		t.Fatalf("%d calls whose protected function panicked: panic re-raised %d times, Do returned nil %d times, "+
			"rejected %d times; outcomes recorded: total=%d accepts=%d (want every admitted call recorded as a failure "+
			"and its panic re-raised)", total, reraised, returnedNil, rejected, n, accepts)
	}
}
