// place in: api/handler
package handler

import (
	"net/http"
	"net/http/httptest"
	"testing"

	"github.com/gotid/god/lib/stat"
)

// The handler commits a 200 response, writes part of the body and then calls
// WriteHeader(500) (the usual "httpx.Error after a partial write" pattern).
// net/http ignores the superfluous WriteHeader: the status on the wire is 200 for
// every request. WithCodeResponseWriter nevertheless overwrites Code with 500, so
// BreakerHandler records a failure and the breaker opens on a route that has only
// ever answered 200.
func TestGenuineDemo(t *testing.T) {
	metrics := stat.NewMetrics("genuine-demo")
	h := BreakerHandler(http.MethodGet, "/genuine-superfluous", metrics)(http.HandlerFunc(
		func(w http.ResponseWriter, r *http.Request) {
			w.WriteHeader(http.StatusOK)
			_, _ = w.Write([]byte("partial"))
			w.WriteHeader(http.StatusInternalServerError) // ignored by net/http
		}))

	srv := httptest.NewServer(h)
	defer srv.Close()

	const total = 300
	var ok, dropped int
	for i := 0; i < total; i++ {
		resp, err := http.Get(srv.URL)
		if err != nil {
			t.Fatal(err)
		}
		resp.Body.Close()
		switch resp.StatusCode {
		case http.StatusOK:
			ok++
		case http.StatusServiceUnavailable:
			dropped++
		default:
			t.Fatalf("unexpected status %d", resp.StatusCode)
		}
	}

	if dropped != 0 {
		t.Fatalf("every admitted request was answered with HTTP 200 (%d of them), yet the breaker dropped %d requests: "+
			"a status below 500 moved the breaker to open", ok, dropped)
	}
}
