// place in: api/handler
package handler

import (
	"net/http"
	"net/http/httptest"
	"testing"

	"github.com/gotid/god/lib/stat"
)

// BreakerHandler decides Accept/Reject in a deferred function from cw.Code only.
// When the protected handler panics, cw.Code is still 0 (< 500), so the admitted
// call is recorded as a SUCCESS. A route whose handler panics on every request is
// never cut off.
func TestGenuineDemo(t *testing.T) {
	metrics := stat.NewMetrics("genuine-demo")
	h := BreakerHandler(http.MethodGet, "/genuine-panic", metrics)(http.HandlerFunc(
		func(w http.ResponseWriter, r *http.Request) {
			panic("boom")
		}))

	const total = 2000
	var panicked, dropped int
	for i := 0; i < total; i++ {
		func() {
			defer func() {
				if recover() != nil {
					panicked++
				}
			}()
			resp := httptest.NewRecorder()
			h.ServeHTTP(resp, httptest.NewRequest(http.MethodGet, "http://localhost/", http.NoBody))
			if resp.Code == http.StatusServiceUnavailable {
				dropped++
			}
		}()
	}

	if dropped == 0 {
		t.Fatalf("%d of %d admitted requests panicked, yet the breaker dropped none: "+
			"a panicking call is recorded as a success (promise.Accept) instead of a failure", panicked, total)
	}
}
