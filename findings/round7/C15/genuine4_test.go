// place in: lib/discov/internal
// Genuine violation 4: an event processed between the replay snapshot (getCurrent) and the listener
// registration (cluster.monitor) of a joining subscriber is lost for that subscriber for good.
// In-package test with a hand-written EtcdClient (bottom of this file).
package internal

import (
	"context"
	"fmt"
	"sort"
	"strings"
	"sync"
	"testing"
	"time"

	"go.etcd.io/etcd/api/v3/etcdserverpb"
	"go.etcd.io/etcd/api/v3/mvccpb"
	clientv3 "go.etcd.io/etcd/client/v3"
	"google.golang.org/grpc"
)

func TestGenuineDemo(t *testing.T) {
	endpoints := []string{"g4-join:2379"}
	cli := g4NewGFakeCli()
	cli.kvs["svc/1"] = "10.0.0.1:80"
	connManager.Set(getClusterKey(endpoints), cli)

	first := &g4GView{}
	if err := GetRegistry().Monitor(endpoints, "svc", first); err != nil {
		t.Fatal(err)
	}

	if !cli.waitWatches(1) {
		t.Fatal("watch not opened")
	}

	// A second subscriber joins. While Registry.Monitor is replaying the cached set to it
	// (after getCurrent, before the listener is registered by cluster.monitor), the watch
	// goroutine of the first subscriber receives and fully processes a new registration.
	second := &g4GView{}
	injected := false
	second.onAdd = func(kv KV) {
		if injected {
			return
		}
		injected = true
		cli.putBatch("svc/2", "10.0.0.2:80")
		if !g4GEventually(2*time.Second, func() bool { return first.has("svc/2") }) {
			t.Errorf("first subscriber never got the event")
		}
	}
	if err := GetRegistry().Monitor(endpoints, "svc", second); err != nil {
		t.Fatal(err)
	}

	if !g4GEventually(time.Second, func() bool { return second.has("svc/2") }) {
		t.Fatalf("registry has svc/1 and svc/2, first subscriber sees %v, but the subscriber that joined sees only %v "+
			"(the event fell between the replay snapshot and the listener registration; the following load "+
			"diffs against a cache that already contains it, and the new watch starts after its revision)",
			first.keys(), second.keys())
	}
}

// ---- test scaffolding ----
// g4GFakeCli is a hand-written EtcdClient: an in-memory store plus the watch channels handed out.
type g4GFakeCli struct {
	mu    sync.Mutex
	rev   int64
	kvs   map[string]string
	chans []chan clientv3.WatchResponse
}

func g4NewGFakeCli() *g4GFakeCli { return &g4GFakeCli{rev: 1, kvs: map[string]string{}} }

func (f *g4GFakeCli) ActiveConnection() *grpc.ClientConn { return nil }
func (f *g4GFakeCli) Close() error                       { return nil }
func (f *g4GFakeCli) Ctx() context.Context               { return context.Background() }
func (f *g4GFakeCli) Grant(context.Context, int64) (*clientv3.LeaseGrantResponse, error) {
	return nil, fmt.Errorf("unused")
}
func (f *g4GFakeCli) KeepAlive(context.Context, clientv3.LeaseID) (<-chan *clientv3.LeaseKeepAliveResponse, error) {
	return nil, fmt.Errorf("unused")
}
func (f *g4GFakeCli) Put(context.Context, string, string, ...clientv3.OpOption) (*clientv3.PutResponse, error) {
	return nil, fmt.Errorf("unused")
}
func (f *g4GFakeCli) Revoke(context.Context, clientv3.LeaseID) (*clientv3.LeaseRevokeResponse, error) {
	return nil, fmt.Errorf("unused")
}

func (f *g4GFakeCli) Get(_ context.Context, key string, _ ...clientv3.OpOption) (*clientv3.GetResponse, error) {
	f.mu.Lock()
	defer f.mu.Unlock()
	var keys []string
	for k := range f.kvs {
		if strings.HasPrefix(k, key) {
			keys = append(keys, k)
		}
	}
	sort.Strings(keys)
	resp := &clientv3.GetResponse{Header: &etcdserverpb.ResponseHeader{Revision: f.rev}}
	for _, k := range keys {
		resp.Kvs = append(resp.Kvs, &mvccpb.KeyValue{Key: []byte(k), Value: []byte(f.kvs[k])})
	}
	return resp, nil
}

func (f *g4GFakeCli) Watch(context.Context, string, ...clientv3.OpOption) clientv3.WatchChan {
	f.mu.Lock()
	defer f.mu.Unlock()
	ch := make(chan clientv3.WatchResponse, 16)
	f.chans = append(f.chans, ch)
	return ch
}

// waitWatches waits until n watch channels have been opened (the library opens them asynchronously).
func (f *g4GFakeCli) waitWatches(n int) bool {
	return g4GEventually(2*time.Second, func() bool {
		f.mu.Lock()
		defer f.mu.Unlock()
		return len(f.chans) >= n
	})
}

// putBatch stores the pairs and delivers them as ONE watch response on every open watch channel.
func (f *g4GFakeCli) putBatch(pairs ...string) {
	f.mu.Lock()
	defer f.mu.Unlock()
	var evs []*clientv3.Event
	for i := 0; i+1 < len(pairs); i += 2 {
		f.rev++
		f.kvs[pairs[i]] = pairs[i+1]
		evs = append(evs, &clientv3.Event{Type: clientv3.EventTypePut,
			Kv: &mvccpb.KeyValue{Key: []byte(pairs[i]), Value: []byte(pairs[i+1]), ModRevision: f.rev}})
	}
	for _, ch := range f.chans {
		ch <- clientv3.WatchResponse{Header: etcdserverpb.ResponseHeader{Revision: f.rev}, Events: evs}
	}
}

// g4GView is the obvious UpdateListener: a key -> value view of what it was told.
type g4GView struct {
	mu    sync.Mutex
	m     map[string]string
	onAdd func(kv KV)
}

func (v *g4GView) OnAdd(kv KV) {
	v.mu.Lock()
	if v.m == nil {
		v.m = map[string]string{}
	}
	v.m[kv.Key] = kv.Val
	hook := v.onAdd
	v.mu.Unlock()
	if hook != nil {
		hook(kv)
	}
}

func (v *g4GView) OnDelete(kv KV) {
	v.mu.Lock()
	delete(v.m, kv.Key)
	v.mu.Unlock()
}

func (v *g4GView) has(key string) bool {
	v.mu.Lock()
	defer v.mu.Unlock()
	_, ok := v.m[key]
	return ok
}

func (v *g4GView) keys() []string {
	v.mu.Lock()
	defer v.mu.Unlock()
	var ks []string
	for k := range v.m {
		ks = append(ks, k)
	}
	sort.Strings(ks)
	return ks
}

func g4GEventually(d time.Duration, cond func() bool) bool {
	deadline := time.Now().Add(d)
	for time.Now().Before(deadline) {
		if cond() {
			return true
		}
		time.Sleep(5 * time.Millisecond)
	}
	return cond()
}
