// place in: lib/discov/internal
// Genuine violation 3: cluster.reload deadlocks with a watch goroutine that is inside handleWatchEvents.
// In-package test with a hand-written EtcdClient (bottom of this file).
package internal

import (
	"context"
	"fmt"
	"sort"
	"strings"
	"sync"
	"testing"
	"time"

	"go.etcd.io/etcd/api/v3/etcdserverpb"
	"go.etcd.io/etcd/api/v3/mvccpb"
	clientv3 "go.etcd.io/etcd/client/v3"
	"google.golang.org/grpc"
)

func TestGenuineDemo(t *testing.T) {
	endpoints := []string{"g2-deadlock:2379"}
	cli := g3NewGFakeCli()
	connManager.Set(getClusterKey(endpoints), cli)

	entered := make(chan struct{})
	release := make(chan struct{})
	view := &g3GView{}
	view.onAdd = func(kv KV) {
		if kv.Key == "svc/1" {
			close(entered)
			<-release // a listener that takes a moment (e.g. pushes the new address list to gRPC)
		}
	}
	if err := GetRegistry().Monitor(endpoints, "svc", view); err != nil {
		t.Fatal(err)
	}
	c, _ := GetRegistry().getCluster(endpoints)
	if !cli.waitWatches(1) {
		t.Fatal("watch not opened")
	}

	// two registrations arrive in one watch response
	cli.putBatch("svc/1", "10.0.0.1:80", "svc/2", "10.0.0.2:80")
	<-entered // the watch goroutine is now between the two events of the batch

	// the connection comes back from a failure: the state watcher runs `go c.reload(cli)`
	reloaded := make(chan struct{})
	go func() {
		c.reload(cli)
		close(reloaded)
	}()
	// give reload time to take the cluster lock and start waiting for the watch goroutines
	g3GEventually(500*time.Millisecond, func() bool {
		if c.lock.TryLock() {
			c.lock.Unlock()
			return false
		}
		return true
	})
	close(release)

	select {
	case <-reloaded:
	case <-time.After(3 * time.Second):
		t.Fatalf("deadlock: reload holds the cluster lock while waiting for the watch goroutine, "+
			"which is blocked on that lock to record the second event of the batch; listener view is stuck at %v "+
			"and no reload snapshot will ever be taken", view.keys())
	}
	cli.putBatch("svc/3", "10.0.0.3:80")
	if !g3GEventually(2*time.Second, func() bool { return view.has("svc/2") && view.has("svc/3") }) {
		t.Fatalf("view %v did not converge", view.keys())
	}
}

// ---- test scaffolding ----
// g3GFakeCli is a hand-written EtcdClient: an in-memory store plus the watch channels handed out.
type g3GFakeCli struct {
	mu    sync.Mutex
	rev   int64
	kvs   map[string]string
	chans []chan clientv3.WatchResponse
}

func g3NewGFakeCli() *g3GFakeCli { return &g3GFakeCli{rev: 1, kvs: map[string]string{}} }

func (f *g3GFakeCli) ActiveConnection() *grpc.ClientConn { return nil }
func (f *g3GFakeCli) Close() error                       { return nil }
func (f *g3GFakeCli) Ctx() context.Context               { return context.Background() }
func (f *g3GFakeCli) Grant(context.Context, int64) (*clientv3.LeaseGrantResponse, error) {
	return nil, fmt.Errorf("unused")
}
func (f *g3GFakeCli) KeepAlive(context.Context, clientv3.LeaseID) (<-chan *clientv3.LeaseKeepAliveResponse, error) {
	return nil, fmt.Errorf("unused")
}
func (f *g3GFakeCli) Put(context.Context, string, string, ...clientv3.OpOption) (*clientv3.PutResponse, error) {
	return nil, fmt.Errorf("unused")
}
func (f *g3GFakeCli) Revoke(context.Context, clientv3.LeaseID) (*clientv3.LeaseRevokeResponse, error) {
	return nil, fmt.Errorf("unused")
}

func (f *g3GFakeCli) Get(_ context.Context, key string, _ ...clientv3.OpOption) (*clientv3.GetResponse, error) {
	f.mu.Lock()
	defer f.mu.Unlock()
	var keys []string
	for k := range f.kvs {
		if strings.HasPrefix(k, key) {
			keys = append(keys, k)
		}
	}
	sort.Strings(keys)
	resp := &clientv3.GetResponse{Header: &etcdserverpb.ResponseHeader{Revision: f.rev}}
	for _, k := range keys {
		resp.Kvs = append(resp.Kvs, &mvccpb.KeyValue{Key: []byte(k), Value: []byte(f.kvs[k])})
	}
	return resp, nil
}

func (f *g3GFakeCli) Watch(context.Context, string, ...clientv3.OpOption) clientv3.WatchChan {
	f.mu.Lock()
	defer f.mu.Unlock()
	ch := make(chan clientv3.WatchResponse, 16)
	f.chans = append(f.chans, ch)
	return ch
}

// waitWatches waits until n watch channels have been opened (the library opens them asynchronously).
func (f *g3GFakeCli) waitWatches(n int) bool {
	return g3GEventually(2*time.Second, func() bool {
		f.mu.Lock()
		defer f.mu.Unlock()
		return len(f.chans) >= n
	})
}

// putBatch stores the pairs and delivers them as ONE watch response on every open watch channel.
func (f *g3GFakeCli) putBatch(pairs ...string) {
	f.mu.Lock()
	defer f.mu.Unlock()
	var evs []*clientv3.Event
	for i := 0; i+1 < len(pairs); i += 2 {
		f.rev++
		f.kvs[pairs[i]] = pairs[i+1]
		evs = append(evs, &clientv3.Event{Type: clientv3.EventTypePut,
			Kv: &mvccpb.KeyValue{Key: []byte(pairs[i]), Value: []byte(pairs[i+1]), ModRevision: f.rev}})
	}
	for _, ch := range f.chans {
		ch <- clientv3.WatchResponse{Header: etcdserverpb.ResponseHeader{Revision: f.rev}, Events: evs}
	}
}

// g3GView is the obvious UpdateListener: a key -> value view of what it was told.
type g3GView struct {
	mu    sync.Mutex
	m     map[string]string
	onAdd func(kv KV)
}

func (v *g3GView) OnAdd(kv KV) {
	v.mu.Lock()
	if v.m == nil {
		v.m = map[string]string{}
	}
	v.m[kv.Key] = kv.Val
	hook := v.onAdd
	v.mu.Unlock()
	if hook != nil {
		hook(kv)
	}
}

func (v *g3GView) OnDelete(kv KV) {
	v.mu.Lock()
	delete(v.m, kv.Key)
	v.mu.Unlock()
}

func (v *g3GView) has(key string) bool {
	v.mu.Lock()
	defer v.mu.Unlock()
	_, ok := v.m[key]
	return ok
}

func (v *g3GView) keys() []string {
	v.mu.Lock()
	defer v.mu.Unlock()
	var ks []string
	for k := range v.m {
		ks = append(ks, k)
	}
	sort.Strings(ks)
	return ks
}

func g3GEventually(d time.Duration, cond func() bool) bool {
	deadline := time.Now().Add(d)
	for time.Now().Before(deadline) {
		if cond() {
			return true
		}
		time.Sleep(5 * time.Millisecond)
	}
	return cond()
}
