// place in: lib/discov
// Genuine violation 1: a key that expired and was re-registered with another value during a
// disconnection leaves the OLD value in the view and never shows the NEW one.
// End-to-end against a minimal in-process etcd server (bottom of this file).
package discov

import (
	"context"
	"net"
	"sort"
	"sync"
	"testing"
	"time"

	"go.etcd.io/etcd/api/v3/etcdserverpb"
	"go.etcd.io/etcd/api/v3/mvccpb"
	"google.golang.org/grpc"
)

func TestGenuineDemo(t *testing.T) {
	f := g1NewFakeEtcd()
	// publisher with a fixed id (discov.WithId(7)) -> key "svc/7"
	f.put("svc/7", "10.0.0.1:80")
	f.start(t)
	sub, err := NewSubscriber([]string{f.addr}, "svc")
	if err != nil {
		t.Fatal(err)
	}
	if got, want := g1SortedValues(sub), []string{"10.0.0.1:80"}; !g1EqualStrings(got, want) {
		t.Fatalf("initial view %v, want %v", got, want)
	}

	// connection loss; meanwhile the instance is rescheduled to another host:
	// its lease expires (delete) and it registers again under the same id (put).
	f.outage(t, 1, func() {
		f.del("svc/7")
		f.put("svc/7", "10.0.0.2:80")
	})

	want := []string{"10.0.0.2:80"} // the only key present under svc/ is svc/7 = 10.0.0.2:80
	if !g1Eventually(2*time.Second, func() bool { return g1EqualStrings(g1SortedValues(sub), want) }) {
		t.Fatalf("after the reload the registry holds svc/7=10.0.0.2:80 only, but Values() = %v (want %v): "+
			"handleChanges delivered OnAdd(svc/7,new) before OnDelete(svc/7,old), and the container removes by key",
			g1SortedValues(sub), want)
	}
}

// ---- test scaffolding ----
// ---- minimal in-process etcd (KV.Range, Watch, Maintenance.Status) ----

type g1FakeWatcher struct {
	id       int64
	key, end string
	st       *g1FakeStream
}

type g1FakeStream struct {
	mu  sync.Mutex
	srv etcdserverpb.Watch_WatchServer
}

func (s *g1FakeStream) send(r *etcdserverpb.WatchResponse) {
	s.mu.Lock()
	defer s.mu.Unlock()
	_ = s.srv.Send(r)
}

type g1FakeEtcd struct {
	etcdserverpb.UnimplementedKVServer
	etcdserverpb.UnimplementedWatchServer
	etcdserverpb.UnimplementedMaintenanceServer

	mu       sync.Mutex
	rev      int64
	kvs      map[string]*mvccpb.KeyValue
	history  []*mvccpb.Event
	watchers map[*g1FakeWatcher]struct{}
	nextID   int64
	ranges   int
	// a watch (re)created with 0 < StartRevision <= cutoff gets no history replay:
	// the changes made while the server was down are visible only in a snapshot.
	cutoff int64

	addr string
	srv  *grpc.Server
}

func g1NewFakeEtcd() *g1FakeEtcd {
	return &g1FakeEtcd{rev: 1, kvs: map[string]*mvccpb.KeyValue{}, watchers: map[*g1FakeWatcher]struct{}{}}
}

func (f *g1FakeEtcd) start(t *testing.T) {
	addr := f.addr
	if addr == "" {
		addr = "127.0.0.1:0"
	}
	var lis net.Listener
	var err error
	for i := 0; i < 50; i++ {
		if lis, err = net.Listen("tcp", addr); err == nil {
			break
		}
		time.Sleep(20 * time.Millisecond)
	}
	if err != nil {
		t.Fatal(err)
	}
	f.addr = lis.Addr().String()
	srv := grpc.NewServer()
	etcdserverpb.RegisterKVServer(srv, f)
	etcdserverpb.RegisterWatchServer(srv, f)
	etcdserverpb.RegisterMaintenanceServer(srv, f)
	f.mu.Lock()
	f.srv = srv
	f.cutoff = f.rev
	f.mu.Unlock()
	go srv.Serve(lis)
}

func (f *g1FakeEtcd) stop() {
	f.mu.Lock()
	srv := f.srv
	f.watchers = map[*g1FakeWatcher]struct{}{}
	f.mu.Unlock()
	srv.Stop()
}

func (f *g1FakeEtcd) header() *etcdserverpb.ResponseHeader {
	return &etcdserverpb.ResponseHeader{ClusterId: 1, MemberId: 1, Revision: f.rev, RaftTerm: 1}
}

func g1InRange(k, key, end string) bool {
	if end == "" {
		return k == key
	}
	return k >= key && k < end
}

func (f *g1FakeEtcd) Status(context.Context, *etcdserverpb.StatusRequest) (*etcdserverpb.StatusResponse, error) {
	f.mu.Lock()
	defer f.mu.Unlock()
	return &etcdserverpb.StatusResponse{Header: f.header(), Version: "3.5.5"}, nil
}

func (f *g1FakeEtcd) Range(_ context.Context, r *etcdserverpb.RangeRequest) (*etcdserverpb.RangeResponse, error) {
	f.mu.Lock()
	defer f.mu.Unlock()
	f.ranges++
	var keys []string
	for k := range f.kvs {
		if g1InRange(k, string(r.Key), string(r.RangeEnd)) {
			keys = append(keys, k)
		}
	}
	sort.Strings(keys)
	resp := &etcdserverpb.RangeResponse{Header: f.header(), Count: int64(len(keys))}
	for _, k := range keys {
		kv := *f.kvs[k]
		resp.Kvs = append(resp.Kvs, &kv)
	}
	return resp, nil
}

func (f *g1FakeEtcd) rangeCount() int {
	f.mu.Lock()
	defer f.mu.Unlock()
	return f.ranges
}

func (f *g1FakeEtcd) Watch(srv etcdserverpb.Watch_WatchServer) error {
	st := &g1FakeStream{srv: srv}
	for {
		req, err := srv.Recv()
		if err != nil {
			return err
		}
		switch r := req.RequestUnion.(type) {
		case *etcdserverpb.WatchRequest_CreateRequest:
			cr := r.CreateRequest
			f.mu.Lock()
			f.nextID++
			w := &g1FakeWatcher{id: f.nextID, key: string(cr.Key), end: string(cr.RangeEnd), st: st}
			st.send(&etcdserverpb.WatchResponse{Header: f.header(), WatchId: w.id, Created: true})
			if cr.StartRevision > f.cutoff {
				var evs []*mvccpb.Event
				for _, e := range f.history {
					if e.Kv.ModRevision >= cr.StartRevision && g1InRange(string(e.Kv.Key), w.key, w.end) {
						evs = append(evs, e)
					}
				}
				if len(evs) > 0 {
					st.send(&etcdserverpb.WatchResponse{Header: f.header(), WatchId: w.id, Events: evs})
				}
			}
			f.watchers[w] = struct{}{}
			f.mu.Unlock()
		case *etcdserverpb.WatchRequest_CancelRequest:
			f.mu.Lock()
			for w := range f.watchers {
				if w.st == st && w.id == r.CancelRequest.WatchId {
					delete(f.watchers, w)
				}
			}
			st.send(&etcdserverpb.WatchResponse{Header: f.header(), WatchId: r.CancelRequest.WatchId, Canceled: true})
			f.mu.Unlock()
		}
	}
}

func (f *g1FakeEtcd) publish(evs ...*mvccpb.Event) {
	for w := range f.watchers {
		var mine []*mvccpb.Event
		for _, e := range evs {
			if g1InRange(string(e.Kv.Key), w.key, w.end) {
				mine = append(mine, e)
			}
		}
		if len(mine) > 0 {
			w.st.send(&etcdserverpb.WatchResponse{Header: f.header(), WatchId: w.id, Events: mine})
		}
	}
}

// put registers key=val (a publisher's lease key appearing).
func (f *g1FakeEtcd) put(key, val string) {
	f.mu.Lock()
	defer f.mu.Unlock()
	f.rev++
	kv := &mvccpb.KeyValue{Key: []byte(key), Value: []byte(val), CreateRevision: f.rev, ModRevision: f.rev, Version: 1}
	f.kvs[key] = kv
	e := &mvccpb.Event{Type: mvccpb.PUT, Kv: kv}
	f.history = append(f.history, e)
	f.publish(e)
}

// del removes key (a publisher's lease expiring / being revoked).
func (f *g1FakeEtcd) del(key string) {
	f.mu.Lock()
	defer f.mu.Unlock()
	if _, ok := f.kvs[key]; !ok {
		return
	}
	f.rev++
	delete(f.kvs, key)
	e := &mvccpb.Event{Type: mvccpb.DELETE, Kv: &mvccpb.KeyValue{Key: []byte(key), ModRevision: f.rev}}
	f.history = append(f.history, e)
	f.publish(e)
}

// outage stops the server, applies the changes nobody can observe, waits long enough for the
// client connection to report TRANSIENT_FAILURE, restarts the server on the same address and
// waits until the library has reloaded (one more Range per watched prefix).
func (f *g1FakeEtcd) outage(t *testing.T, prefixes int, during func()) {
	before := f.rangeCount()
	f.stop()
	during()
	time.Sleep(400 * time.Millisecond)
	f.start(t)
	deadline := time.Now().Add(12 * time.Second)
	for f.rangeCount() < before+prefixes {
		if time.Now().After(deadline) {
			t.Fatalf("library did not reload after the reconnect")
		}
		time.Sleep(20 * time.Millisecond)
	}
}

func g1SortedValues(s *Subscriber) []string {
	v := append([]string(nil), s.Values()...)
	sort.Strings(v)
	return v
}

func g1Eventually(d time.Duration, cond func() bool) bool {
	deadline := time.Now().Add(d)
	for time.Now().Before(deadline) {
		if cond() {
			return true
		}
		time.Sleep(10 * time.Millisecond)
	}
	return cond()
}

func g1EqualStrings(a, b []string) bool {
	if len(a) != len(b) {
		return false
	}
	for i := range a {
		if a[i] != b[i] {
			return false
		}
	}
	return true
}
