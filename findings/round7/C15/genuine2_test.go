// place in: lib/discov
// Genuine violation 2: in exclusive mode a value seen through a snapshot (initial load) is retained
// under the lexicographically LAST key, not under the most recent key that published it.
// End-to-end against a minimal in-process etcd server (bottom of this file).
package discov

import (
	"context"
	"net"
	"sort"
	"sync"
	"testing"
	"time"

	"go.etcd.io/etcd/api/v3/etcdserverpb"
	"go.etcd.io/etcd/api/v3/mvccpb"
	"google.golang.org/grpc"
)

func TestGenuineDemo(t *testing.T) {
	f := g2NewFakeEtcd()
	f.put("svc/9", "10.0.0.1:80")  // old incarnation of the instance (lease not expired yet)
	f.put("svc/10", "10.0.0.1:80") // restarted incarnation, same address: the most recent publisher
	f.start(t)

	sub, err := NewSubscriber([]string{f.addr}, "svc", Exclusive())
	if err != nil {
		t.Fatal(err)
	}
	if got, want := g2SortedValues(sub), []string{"10.0.0.1:80"}; !g2EqualStrings(got, want) {
		t.Fatalf("initial view %v, want %v", got, want)
	}

	// the stale lease of the old incarnation finally expires
	f.del("svc/9")
	time.Sleep(500 * time.Millisecond) // let the watch event be processed

	want := []string{"10.0.0.1:80"} // svc/10 (the most recent key) is still present
	if got := g2SortedValues(sub); !g2EqualStrings(got, want) {
		t.Fatalf("svc/10=10.0.0.1:80 is live and is the most recent key for that value, but after the older "+
			"key svc/9 expired Values() = %v (want %v): the snapshot was applied in key order (svc/10 < svc/9), "+
			"so the value was retained under the OLDER key", got, want)
	}
}

// ---- test scaffolding ----
// ---- minimal in-process etcd (KV.Range, Watch, Maintenance.Status) ----

type g2FakeWatcher struct {
	id       int64
	key, end string
	st       *g2FakeStream
}

type g2FakeStream struct {
	mu  sync.Mutex
	srv etcdserverpb.Watch_WatchServer
}

func (s *g2FakeStream) send(r *etcdserverpb.WatchResponse) {
	s.mu.Lock()
	defer s.mu.Unlock()
	_ = s.srv.Send(r)
}

type g2FakeEtcd struct {
	etcdserverpb.UnimplementedKVServer
	etcdserverpb.UnimplementedWatchServer
	etcdserverpb.UnimplementedMaintenanceServer

	mu       sync.Mutex
	rev      int64
	kvs      map[string]*mvccpb.KeyValue
	history  []*mvccpb.Event
	watchers map[*g2FakeWatcher]struct{}
	nextID   int64
	ranges   int
	// a watch (re)created with 0 < StartRevision <= cutoff gets no history replay:
	// the changes made while the server was down are visible only in a snapshot.
	cutoff int64

	addr string
	srv  *grpc.Server
}

func g2NewFakeEtcd() *g2FakeEtcd {
	return &g2FakeEtcd{rev: 1, kvs: map[string]*mvccpb.KeyValue{}, watchers: map[*g2FakeWatcher]struct{}{}}
}

func (f *g2FakeEtcd) start(t *testing.T) {
	addr := f.addr
	if addr == "" {
		addr = "127.0.0.1:0"
	}
	var lis net.Listener
	var err error
	for i := 0; i < 50; i++ {
		if lis, err = net.Listen("tcp", addr); err == nil {
			break
		}
		time.Sleep(20 * time.Millisecond)
	}
	if err != nil {
		t.Fatal(err)
	}
	f.addr = lis.Addr().String()
	srv := grpc.NewServer()
	etcdserverpb.RegisterKVServer(srv, f)
	etcdserverpb.RegisterWatchServer(srv, f)
	etcdserverpb.RegisterMaintenanceServer(srv, f)
	f.mu.Lock()
	f.srv = srv
	f.cutoff = f.rev
	f.mu.Unlock()
	go srv.Serve(lis)
}

func (f *g2FakeEtcd) stop() {
	f.mu.Lock()
	srv := f.srv
	f.watchers = map[*g2FakeWatcher]struct{}{}
	f.mu.Unlock()
	srv.Stop()
}

func (f *g2FakeEtcd) header() *etcdserverpb.ResponseHeader {
	return &etcdserverpb.ResponseHeader{ClusterId: 1, MemberId: 1, Revision: f.rev, RaftTerm: 1}
}

func g2InRange(k, key, end string) bool {
	if end == "" {
		return k == key
	}
	return k >= key && k < end
}

func (f *g2FakeEtcd) Status(context.Context, *etcdserverpb.StatusRequest) (*etcdserverpb.StatusResponse, error) {
	f.mu.Lock()
	defer f.mu.Unlock()
	return &etcdserverpb.StatusResponse{Header: f.header(), Version: "3.5.5"}, nil
}

func (f *g2FakeEtcd) Range(_ context.Context, r *etcdserverpb.RangeRequest) (*etcdserverpb.RangeResponse, error) {
	f.mu.Lock()
	defer f.mu.Unlock()
	f.ranges++
	var keys []string
	for k := range f.kvs {
		if g2InRange(k, string(r.Key), string(r.RangeEnd)) {
			keys = append(keys, k)
		}
	}
	sort.Strings(keys)
	resp := &etcdserverpb.RangeResponse{Header: f.header(), Count: int64(len(keys))}
	for _, k := range keys {
		kv := *f.kvs[k]
		resp.Kvs = append(resp.Kvs, &kv)
	}
	return resp, nil
}

func (f *g2FakeEtcd) rangeCount() int {
	f.mu.Lock()
	defer f.mu.Unlock()
	return f.ranges
}

func (f *g2FakeEtcd) Watch(srv etcdserverpb.Watch_WatchServer) error {
	st := &g2FakeStream{srv: srv}
	for {
		req, err := srv.Recv()
		if err != nil {
			return err
		}
		switch r := req.RequestUnion.(type) {
		case *etcdserverpb.WatchRequest_CreateRequest:
			cr := r.CreateRequest
			f.mu.Lock()
			f.nextID++
			w := &g2FakeWatcher{id: f.nextID, key: string(cr.Key), end: string(cr.RangeEnd), st: st}
			st.send(&etcdserverpb.WatchResponse{Header: f.header(), WatchId: w.id, Created: true})
			if cr.StartRevision > f.cutoff {
				var evs []*mvccpb.Event
				for _, e := range f.history {
					if e.Kv.ModRevision >= cr.StartRevision && g2InRange(string(e.Kv.Key), w.key, w.end) {
						evs = append(evs, e)
					}
				}
				if len(evs) > 0 {
					st.send(&etcdserverpb.WatchResponse{Header: f.header(), WatchId: w.id, Events: evs})
				}
			}
			f.watchers[w] = struct{}{}
			f.mu.Unlock()
		case *etcdserverpb.WatchRequest_CancelRequest:
			f.mu.Lock()
			for w := range f.watchers {
				if w.st == st && w.id == r.CancelRequest.WatchId {
					delete(f.watchers, w)
				}
			}
			st.send(&etcdserverpb.WatchResponse{Header: f.header(), WatchId: r.CancelRequest.WatchId, Canceled: true})
			f.mu.Unlock()
		}
	}
}

func (f *g2FakeEtcd) publish(evs ...*mvccpb.Event) {
	for w := range f.watchers {
		var mine []*mvccpb.Event
		for _, e := range evs {
			if g2InRange(string(e.Kv.Key), w.key, w.end) {
				mine = append(mine, e)
			}
		}
		if len(mine) > 0 {
			w.st.send(&etcdserverpb.WatchResponse{Header: f.header(), WatchId: w.id, Events: mine})
		}
	}
}

// put registers key=val (a publisher's lease key appearing).
func (f *g2FakeEtcd) put(key, val string) {
	f.mu.Lock()
	defer f.mu.Unlock()
	f.rev++
	kv := &mvccpb.KeyValue{Key: []byte(key), Value: []byte(val), CreateRevision: f.rev, ModRevision: f.rev, Version: 1}
	f.kvs[key] = kv
	e := &mvccpb.Event{Type: mvccpb.PUT, Kv: kv}
	f.history = append(f.history, e)
	f.publish(e)
}

// del removes key (a publisher's lease expiring / being revoked).
func (f *g2FakeEtcd) del(key string) {
	f.mu.Lock()
	defer f.mu.Unlock()
	if _, ok := f.kvs[key]; !ok {
		return
	}
	f.rev++
	delete(f.kvs, key)
	e := &mvccpb.Event{Type: mvccpb.DELETE, Kv: &mvccpb.KeyValue{Key: []byte(key), ModRevision: f.rev}}
	f.history = append(f.history, e)
	f.publish(e)
}

// outage stops the server, applies the changes nobody can observe, waits long enough for the
// client connection to report TRANSIENT_FAILURE, restarts the server on the same address and
// waits until the library has reloaded (one more Range per watched prefix).
func (f *g2FakeEtcd) outage(t *testing.T, prefixes int, during func()) {
	before := f.rangeCount()
	f.stop()
	during()
	time.Sleep(400 * time.Millisecond)
	f.start(t)
	deadline := time.Now().Add(12 * time.Second)
	for f.rangeCount() < before+prefixes {
		if time.Now().After(deadline) {
			t.Fatalf("library did not reload after the reconnect")
		}
		time.Sleep(20 * time.Millisecond)
	}
}

func g2SortedValues(s *Subscriber) []string {
	v := append([]string(nil), s.Values()...)
	sort.Strings(v)
	return v
}

func g2Eventually(d time.Duration, cond func() bool) bool {
	deadline := time.Now().Add(d)
	for time.Now().Before(deadline) {
		if cond() {
			return true
		}
		time.Sleep(10 * time.Millisecond)
	}
	return cond()
}

func g2EqualStrings(a, b []string) bool {
	if len(a) != len(b) {
		return false
	}
	for i := range a {
		if a[i] != b[i] {
			return false
		}
	}
	return true
}
