// place in: lib/collection
package collection

import (
	"sync"
	"testing"
	"time"
)

// A ticker whose ticks are injected by the test and which can hold the wheel goroutine
// right AFTER it has processed a tick (Chan() is evaluated by TimingWheel.run at the top of
// every loop iteration).  Holding the wheel models nothing more than the wheel goroutine
// (or the goroutines talking to it) being scheduled late.
type g1Ticker struct {
	mu   sync.Mutex
	c    chan time.Time
	hold bool
	gate chan struct{}
}

func newG1Ticker() *g1Ticker {
	return &g1Ticker{c: make(chan time.Time, 1), gate: make(chan struct{})}
}

func (g *g1Ticker) Chan() <-chan time.Time {
	g.mu.Lock()
	blocked := g.hold && len(g.c) == 0 // armed and the armed tick has been consumed
	gate := g.gate
	g.mu.Unlock()
	if blocked {
		<-gate
	}
	return g.c
}

func (g *g1Ticker) Stop() {}

// tickAndHold injects one tick; the wheel processes it and is then held.
func (g *g1Ticker) tickAndHold() {
	g.mu.Lock()
	g.hold = true
	g.c <- time.Now()
	g.mu.Unlock()
}

func (g *g1Ticker) release() {
	g.mu.Lock()
	g.hold = false
	close(g.gate)
	g.gate = make(chan struct{})
	g.mu.Unlock()
}

// newG1Cache is NewCache(expire) with the wheel's real one-second ticker replaced by the
// injected one; interval, number of slots and the expiry callback are those of NewCache.
func newG1Cache(t *testing.T, expire time.Duration) (*Cache, *g1Ticker) {
	cache, err := NewCache(expire)
	if err != nil {
		t.Fatal(err)
	}
	cache.timingWheel.Stop()

	ticker := newG1Ticker()
	tw, err := newTimingWheelWithClock(time.Second, slots, func(key, val any) {
		k, ok := key.(string)
		if !ok {
			return
		}

		cache.Del(k)
	}, ticker)
	if err != nil {
		t.Fatal(err)
	}
	cache.timingWheel = tw
	return cache, ticker
}

// g1Sync returns once the wheel goroutine has finished everything it received before.
func g1Sync(c *Cache) { c.timingWheel.RemoveTimer("\x00no-such-key") }

// g1Tick injects one tick and waits until the wheel has processed it.
func g1Tick(c *Cache, g *g1Ticker) {
	g.c <- time.Now()
	for len(g.c) > 0 {
		time.Sleep(50 * time.Microsecond)
	}
	g1Sync(c)
}

// g1Peek looks at the data map without touching the LRU order or the statistics.
func g1Peek(c *Cache, key string) (any, bool) {
	c.lock.Lock()
	defer c.lock.Unlock()
	v, ok := c.data[key]
	return v, ok
}

func g1WaitFor(t *testing.T, what string, cond func() bool) {
	deadline := time.Now().Add(5 * time.Second)
	for !cond() {
		if time.Now().After(deadline) {
			t.Fatalf("timeout waiting for: %s", what)
		}
		time.Sleep(100 * time.Microsecond)
	}
}

// g1TicksToFire tells in how many ticks the timer of key fires (expiry < one revolution).
func g1TicksToFire(c *Cache, key string) int {
	g1Sync(c)
	val, ok := c.timingWheel.timers.Get(key)
	if !ok {
		return -1
	}
	pe := val.(*positionEntry)
	w := c.timingWheel
	return (pe.pos-w.tickedPos+w.numSlots-1)%w.numSlots + 1
}

// TestGenuineDemo: a value that was just Set is dropped at age 0.
//
// The wheel reports an expired key from a separate goroutine (TimingWheel.runTasks), which
// calls Cache.Del(key) unconditionally.  If the key is Set again after the wheel fired it but
// before that goroutine reaches Cache.Del, the callback deletes the NEW value (and the new
// value has no timer of its own either: MoveTimer found no timer to move).
//
// Two keys expire on the same tick: "stall" is handled first by the callback goroutine, whose
// RemoveTimer("stall") has to wait for the (held) wheel; "victim" is handled right after.
func TestGenuineDemo(t *testing.T) {
	const expire = 20 * time.Second
	cache, ticker := newG1Cache(t, expire)

	cache.Set("stall", "s")
	// put "victim" into the same slot, behind "stall" (the ±5% jitter is re-drawn on every Set)
	for i := 0; ; i++ {
		if i > 200 {
			t.Fatal("could not place both keys into one slot")
		}
		cache.Del("victim")
		cache.Set("victim", "v1")
		if g1TicksToFire(cache, "victim") == g1TicksToFire(cache, "stall") {
			break
		}
	}
	n := g1TicksToFire(cache, "victim")
	if n < 19 || n > 21 {
		t.Fatalf("unexpected schedule: fires in %d ticks", n)
	}

	for i := 0; i < n-1; i++ {
		g1Tick(cache, ticker)
	}
	if v, ok := g1Peek(cache, "victim"); !ok || v != "v1" {
		t.Fatalf("victim gone too early: %v %v", v, ok)
	}

	// the tick on which both keys expire; afterwards the wheel goroutine is held
	ticker.tickAndHold()
	g1WaitFor(t, "callback goroutine deleting 'stall'", func() bool {
		_, ok := g1Peek(cache, "stall")
		return !ok
	})
	// the callback goroutine now sits in RemoveTimer("stall"); "victim" has been fired by the
	// wheel, but its Cache.Del has not run yet.
	if v, ok := g1Peek(cache, "victim"); !ok || v != "v1" {
		t.Fatalf("setup failed, victim = %v %v", v, ok)
	}

	// The application stores a new value for the key.
	setDone := make(chan struct{})
	go func() {
		cache.Set("victim", "v2")
		close(setDone)
	}()
	g1WaitFor(t, "Set(victim, v2) storing the value", func() bool {
		v, _ := g1Peek(cache, "victim")
		return v == "v2"
	})

	ticker.release()
	<-setDone // Set("victim", "v2") has returned; no tick has happened since

	// give the callback goroutine time to finish
	time.Sleep(300 * time.Millisecond)
	g1Sync(cache)

	v, ok := cache.Get("victim")
	if !ok || v != "v2" {
		t.Fatalf("Set(victim, v2) returned, not a single clock tick later Get(victim) = (%v, %v); "+
			"want (v2, true): the entry with expiry %v was dropped at age 0 by the expiry callback "+
			"of the PREVIOUS value", v, ok, expire)
	}
}
