// place in: lib/collection
package collection

import (
	"sync"
	"testing"
	"time"
)

// A ticker whose ticks are injected by the test and which can hold the wheel goroutine
// right AFTER it has processed a tick (Chan() is evaluated by TimingWheel.run at the top of
// every loop iteration).  Holding the wheel models nothing more than the wheel goroutine
// (or the goroutines talking to it) being scheduled late.
type g3Ticker struct {
	mu   sync.Mutex
	c    chan time.Time
	hold bool
	gate chan struct{}
}

func newG3Ticker() *g3Ticker {
	return &g3Ticker{c: make(chan time.Time, 1), gate: make(chan struct{})}
}

func (g *g3Ticker) Chan() <-chan time.Time {
	g.mu.Lock()
	blocked := g.hold && len(g.c) == 0 // armed and the armed tick has been consumed
	gate := g.gate
	g.mu.Unlock()
	if blocked {
		<-gate
	}
	return g.c
}

func (g *g3Ticker) Stop() {}

// tickAndHold injects one tick; the wheel processes it and is then held.
func (g *g3Ticker) tickAndHold() {
	g.mu.Lock()
	g.hold = true
	g.c <- time.Now()
	g.mu.Unlock()
}

func (g *g3Ticker) release() {
	g.mu.Lock()
	g.hold = false
	close(g.gate)
	g.gate = make(chan struct{})
	g.mu.Unlock()
}

// newG3Cache is NewCache(expire) with the wheel's real one-second ticker replaced by the
// injected one; interval, number of slots and the expiry callback are those of NewCache.
func newG3Cache(t *testing.T, expire time.Duration) (*Cache, *g3Ticker) {
	cache, err := NewCache(expire)
	if err != nil {
		t.Fatal(err)
	}
	cache.timingWheel.Stop()

	ticker := newG3Ticker()
	tw, err := newTimingWheelWithClock(time.Second, slots, func(key, val any) {
		k, ok := key.(string)
		if !ok {
			return
		}

		cache.Del(k)
	}, ticker)
	if err != nil {
		t.Fatal(err)
	}
	cache.timingWheel = tw
	return cache, ticker
}

// g3Sync returns once the wheel goroutine has finished everything it received before.
func g3Sync(c *Cache) { c.timingWheel.RemoveTimer("\x00no-such-key") }

// g3Tick injects one tick and waits until the wheel has processed it.
func g3Tick(c *Cache, g *g3Ticker) {
	g.c <- time.Now()
	for len(g.c) > 0 {
		time.Sleep(50 * time.Microsecond)
	}
	g3Sync(c)
}

// g3Peek looks at the data map without touching the LRU order or the statistics.
func g3Peek(c *Cache, key string) (any, bool) {
	c.lock.Lock()
	defer c.lock.Unlock()
	v, ok := c.data[key]
	return v, ok
}

func g3WaitFor(t *testing.T, what string, cond func() bool) {
	deadline := time.Now().Add(5 * time.Second)
	for !cond() {
		if time.Now().After(deadline) {
			t.Fatalf("timeout waiting for: %s", what)
		}
		time.Sleep(100 * time.Microsecond)
	}
}

// g3TicksToFire tells in how many ticks the timer of key fires (expiry < one revolution).
func g3TicksToFire(c *Cache, key string) int {
	g3Sync(c)
	val, ok := c.timingWheel.timers.Get(key)
	if !ok {
		return -1
	}
	pe := val.(*positionEntry)
	w := c.timingWheel
	return (pe.pos-w.tickedPos+w.numSlots-1)%w.numSlots + 1
}

// TestGenuineDemo: an entry stored with a non-positive expiry is never dropped for age.
//
// SetWithExpire passes the jittered expiry to TimingWheel.SetTimer / MoveTimer and ignores the
// result; both reject delay <= 0 with ErrArgument.  For a new key this leaves the value in the map
// with no timer at all (immortal; without a limit it is also never evicted).  For a key that is
// already cached the new value silently keeps the schedule of the old one.
func TestGenuineDemo(t *testing.T) {
	// (a) new key, expiry already in the past (e.g. time.Until(deadline) of an elapsed deadline)
	cache, ticker := newG3Cache(t, 20*time.Second)
	cache.SetWithExpire("token", "secret", -time.Second)
	if n := g3TicksToFire(cache, "token"); n != -1 {
		t.Logf("a timer exists, fires in %d ticks", n)
	}
	const ticks = 2*slots + 10 // more than two full revolutions of the wheel: 610 s
	for i := 0; i < ticks; i++ {
		g3Tick(cache, ticker)
	}
	time.Sleep(50 * time.Millisecond)
	if v, ok := cache.Get("token"); ok {
		t.Errorf("SetWithExpire(token, secret, -1s); %d one-second ticks later Get(token) = (%v, true): "+
			"the entry is never dropped for age", ticks, v)
	}

	// (b) same with a cache whose default expiry is zero
	cache0, ticker0 := newG3Cache(t, 0)
	cache0.Set("k", "v")
	for i := 0; i < ticks; i++ {
		g3Tick(cache0, ticker0)
	}
	time.Sleep(50 * time.Millisecond)
	if v, ok := cache0.Get("k"); ok {
		t.Errorf("NewCache(0).Set(k, v); %d ticks later Get(k) = (%v, true): never dropped for age", ticks, v)
	}
}
