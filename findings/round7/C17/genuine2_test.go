// place in: lib/collection
package collection

import (
	"sync"
	"testing"
	"time"
)

// A ticker whose ticks are injected by the test and which can hold the wheel goroutine
// right AFTER it has processed a tick (Chan() is evaluated by TimingWheel.run at the top of
// every loop iteration).  Holding the wheel models nothing more than the wheel goroutine
// (or the goroutines talking to it) being scheduled late.
type g2Ticker struct {
	mu   sync.Mutex
	c    chan time.Time
	hold bool
	gate chan struct{}
}

func newG2Ticker() *g2Ticker {
	return &g2Ticker{c: make(chan time.Time, 1), gate: make(chan struct{})}
}

func (g *g2Ticker) Chan() <-chan time.Time {
	g.mu.Lock()
	blocked := g.hold && len(g.c) == 0 // armed and the armed tick has been consumed
	gate := g.gate
	g.mu.Unlock()
	if blocked {
		<-gate
	}
	return g.c
}

func (g *g2Ticker) Stop() {}

// tickAndHold injects one tick; the wheel processes it and is then held.
func (g *g2Ticker) tickAndHold() {
	g.mu.Lock()
	g.hold = true
	g.c <- time.Now()
	g.mu.Unlock()
}

func (g *g2Ticker) release() {
	g.mu.Lock()
	g.hold = false
	close(g.gate)
	g.gate = make(chan struct{})
	g.mu.Unlock()
}

// newG2Cache is NewCache(expire) with the wheel's real one-second ticker replaced by the
// injected one; interval, number of slots and the expiry callback are those of NewCache.
func newG2Cache(t *testing.T, expire time.Duration) (*Cache, *g2Ticker) {
	cache, err := NewCache(expire)
	if err != nil {
		t.Fatal(err)
	}
	cache.timingWheel.Stop()

	ticker := newG2Ticker()
	tw, err := newTimingWheelWithClock(time.Second, slots, func(key, val any) {
		k, ok := key.(string)
		if !ok {
			return
		}

		cache.Del(k)
	}, ticker)
	if err != nil {
		t.Fatal(err)
	}
	cache.timingWheel = tw
	return cache, ticker
}

// g2Sync returns once the wheel goroutine has finished everything it received before.
func g2Sync(c *Cache) { c.timingWheel.RemoveTimer("\x00no-such-key") }

// g2Tick injects one tick and waits until the wheel has processed it.
func g2Tick(c *Cache, g *g2Ticker) {
	g.c <- time.Now()
	for len(g.c) > 0 {
		time.Sleep(50 * time.Microsecond)
	}
	g2Sync(c)
}

// g2Peek looks at the data map without touching the LRU order or the statistics.
func g2Peek(c *Cache, key string) (any, bool) {
	deadline := time.Now().Add(time.Second)
	for !c.lock.TryLock() {
		if time.Now().After(deadline) {
			return nil, false
		}
		time.Sleep(50 * time.Microsecond)
	}
	defer c.lock.Unlock()
	v, ok := c.data[key]
	return v, ok
}

// g2WaitFor reports whether cond became true within two seconds.
func g2WaitFor(cond func() bool) bool {
	deadline := time.Now().Add(2 * time.Second)
	for !cond() {
		if time.Now().After(deadline) {
			return false
		}
		time.Sleep(100 * time.Microsecond)
	}
	return true
}

// g2TicksToFire tells in how many ticks the timer of key fires (expiry < one revolution).
func g2TicksToFire(c *Cache, key string) int {
	g2Sync(c)
	val, ok := c.timingWheel.timers.Get(key)
	if !ok {
		return -1
	}
	pe := val.(*positionEntry)
	w := c.timingWheel
	return (pe.pos-w.tickedPos+w.numSlots-1)%w.numSlots + 1
}

// TestGenuineDemo: an entry that never expires.
//
// The wheel reports an expired key from a separate goroutine, which runs
//
//	Cache.Del(key):  lock; delete(data, key); unlock;   timingWheel.RemoveTimer(key)
//
// If the key is Set again between the unlock and the RemoveTimer, then Set sees a new key
// (SetTimer -> a NEW timer) and the late RemoveTimer of the OLD value's callback cancels that
// new timer.  The new value stays in the map with no timer at all: it is never dropped for age.
//
// The order in which the wheel receives SetTimer (from Set) and RemoveTimer (from the callback)
// is up to the scheduler; the demo holds the wheel until both are pending, which makes either
// order equally likely, and repeats the experiment with fresh caches until the bad order occurs.
func TestGenuineDemo(t *testing.T) {
	const expire = 20 * time.Second
	const attempts = 40

	for attempt := 1; attempt <= attempts; attempt++ {
		cache, ticker := newG2Cache(t, expire)
		cache.Set("k", "v1")
		n := g2TicksToFire(cache, "k")
		if n < 19 || n > 21 {
			t.Fatalf("unexpected schedule: fires in %d ticks", n)
		}
		for i := 0; i < n-1; i++ {
			g2Tick(cache, ticker)
		}
		if v, ok := g2Peek(cache, "k"); !ok || v != "v1" {
			t.Fatalf("k gone too early: %v %v", v, ok)
		}

		// the tick on which k expires; afterwards the wheel goroutine is held, so the callback's
		// RemoveTimer("k") stays pending
		ticker.tickAndHold()
		deleted := g2WaitFor(func() bool {
			_, ok := g2Peek(cache, "k")
			return !ok
		})

		// the application stores a new value
		setDone := make(chan struct{})
		go func() {
			cache.Set("k", "v2")
			close(setDone)
		}()
		stored := deleted && g2WaitFor(func() bool {
			v, _ := g2Peek(cache, "k")
			return v == "v2"
		})
		time.Sleep(5 * time.Millisecond) // both goroutines are now parked on the wheel's channels

		ticker.release()
		<-setDone
		time.Sleep(20 * time.Millisecond)
		g2Sync(cache)
		g2Sync(cache)
		if !stored {
			continue // this tree does not allow the interleaving
		}

		if _, hasTimer := cache.timingWheel.timers.Get("k"); hasTimer {
			continue // benign order: RemoveTimer first, then SetTimer
		}
		if v, ok := g2Peek(cache, "k"); !ok || v != "v2" {
			continue
		}

		// k -> v2 is cached but nothing is scheduled for it. Let three times its expiry pass.
		ticks := 3 * int(expire/time.Second)
		for i := 0; i < ticks; i++ {
			g2Tick(cache, ticker)
		}
		time.Sleep(50 * time.Millisecond)
		if v, ok := cache.Get("k"); ok {
			t.Fatalf("attempt %d: Set(k, v2) with expiry %v; %d one-second ticks later Get(k) = (%v, true): "+
				"the entry was never dropped for age (its timer was cancelled by the expiry callback of "+
				"the previous value, wheel has a timer for k: false)", attempt, expire, ticks, v)
		}
	}
}
