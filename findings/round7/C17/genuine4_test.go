// place in: lib/collection
package collection

import (
	"sync"
	"sync/atomic"
	"testing"
	"time"
)

// TestGenuineDemo: when the fetch function panics, the caller that ran it sees the panic, but every
// concurrent Take caller of the same key that was waiting on the single-flight barrier returns
// (nil, nil) - "success, the value is nil" - although fetch never produced any result.
func TestGenuineDemo(t *testing.T) {
	cache, err := NewCache(time.Minute)
	if err != nil {
		t.Fatal(err)
	}

	const waiters = 5
	var fetches int32
	entered := make(chan struct{})
	proceed := make(chan struct{})
	fetch := func() (any, error) {
		if atomic.AddInt32(&fetches, 1) == 1 {
			close(entered)
		}
		<-proceed
		panic("backend blew up")
	}

	var wg sync.WaitGroup
	leaderPanicked := make(chan any, 1)
	wg.Add(1)
	go func() {
		defer wg.Done()
		defer func() { leaderPanicked <- recover() }()
		cache.Take("k", fetch)
	}()
	<-entered

	type outcome struct {
		val      any
		err      error
		panicked any
	}
	results := make(chan outcome, waiters)
	for i := 0; i < waiters; i++ {
		wg.Add(1)
		go func() {
			defer wg.Done()
			var o outcome
			defer func() {
				o.panicked = recover()
				results <- o
			}()
			o.val, o.err = cache.Take("k", fetch)
		}()
	}
	time.Sleep(200 * time.Millisecond) // let the waiters join the flight
	close(proceed)
	wg.Wait()

	if p := <-leaderPanicked; p == nil {
		t.Fatalf("the fetching caller did not see the panic")
	}
	if n := atomic.LoadInt32(&fetches); n != 1 {
		t.Fatalf("fetch ran %d times, the waiters did not share the flight; demo inconclusive", n)
	}
	for i := 0; i < waiters; i++ {
		o := <-results
		if o.err == nil && o.panicked == nil {
			t.Errorf("waiter %d: Take = (%v, nil) - reported as a successful fetch although the only run "+
				"of fetch panicked and returned nothing", i, o.val)
		}
	}
}
