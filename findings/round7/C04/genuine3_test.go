// place in: api/handler
package handler

import (
	"net/http"
	"net/http/httptest"
	"testing"
)

// JWT gate: a request without a valid token must be answered with 401. With an
// unauthorized-callback that writes a response body without choosing a status
// (the natural way to add an error message), the body write commits an implicit
// 200 before `unauthorized` gets to call WriteHeader(401): the client receives
// 200 OK for a rejected request.
func TestGenuineDemo(t *testing.T) {
	ran := false
	h := Authorize("B63F477D-BBA3-4E52-96D3-C0034C27694A",
		WithUnauthorizedCallback(func(w http.ResponseWriter, r *http.Request, err error) {
			w.Header().Set("Content-Type", "application/json")
			_, _ = w.Write([]byte(`{"error":"please log in"}`))
		}))(http.HandlerFunc(func(w http.ResponseWriter, r *http.Request) { ran = true }))

	srv := httptest.NewServer(h)
	defer srv.Close()

	resp, err := http.Get(srv.URL + "/private") // no Authorization header at all
	if err != nil {
		t.Fatal(err)
	}
	defer resp.Body.Close()

	if ran {
		t.Errorf("handler ran without a token")
	}
	if resp.StatusCode != http.StatusUnauthorized {
		t.Errorf("request without any token: status = %d, want 401 (the callback only wrote a body; "+
			"unauthorized() calls WriteHeader(401) after the callback, when the implicit 200 is already on the wire)",
			resp.StatusCode)
	}
}
