// place in: api/handler
package handler

import (
	"crypto/rand"
	"crypto/rsa"
	"crypto/sha256"
	"crypto/x509"
	"encoding/base64"
	"encoding/pem"
	"fmt"
	"net/http"
	"net/http/httptest"
	"os"
	"path/filepath"
	"strconv"
	"strings"
	"testing"
	"time"

	"github.com/gotid/god/lib/codec"
)

// Strict signature gate: a request whose X-Content-Security header decrypts
// under the configured key, with a fresh timestamp and a matching HMAC, must
// reach the handler. With a (valid, PKCS#1) private key whose modulus length
// is not a multiple of 8 bits - e.g. 1023, 1028 or 2047 bits - every honest
// request is refused with 403: codec.NewRsaDecryptor computes the ciphertext
// block size as N.BitLen()>>3 (rounding DOWN) instead of (BitLen+7)/8, so the
// ciphertext is cut into a short first block plus a 1-byte tail and neither
// decrypts.
func TestGenuineDemo(t *testing.T) {
	const fp = "demo-fingerprint"

	for _, bits := range []int{1024, 1028, 1023} {
		priv, err := rsa.GenerateKey(rand.Reader, bits)
		if err != nil {
			t.Fatal(err)
		}
		keyFile := filepath.Join(t.TempDir(), "pri.pem")
		if err := os.WriteFile(keyFile, pem.EncodeToMemory(&pem.Block{
			Type:  "RSA PRIVATE KEY",
			Bytes: x509.MarshalPKCS1PrivateKey(priv),
		}), 0o600); err != nil {
			t.Fatal(err)
		}
		dec, err := codec.NewRsaDecryptor(keyFile)
		if err != nil {
			t.Fatalf("%d-bit key refused at configuration time: %v", bits, err)
		}

		key := []byte("0123456789abcdef")
		ts := strconv.FormatInt(time.Now().Unix(), 10)
		// the client encrypts with the standard library, as any RSA/PKCS#1 v1.5 client would
		secret, err := rsa.EncryptPKCS1v15(rand.Reader, &priv.PublicKey,
			[]byte("type=0; key="+base64.StdEncoding.EncodeToString(key)+"; time="+ts))
		if err != nil {
			t.Fatal(err)
		}
		body := "hello"
		sig := codec.HmacBase64(key, strings.Join([]string{
			ts, http.MethodPost, "/a/b", "c=d", fmt.Sprintf("%x", sha256.Sum256([]byte(body))),
		}, "\n"))

		ran := false
		h := ContentSecurityHandler(map[string]codec.RsaDecryptor{fp: dec}, time.Hour, true)(
			http.HandlerFunc(func(w http.ResponseWriter, r *http.Request) { ran = true }))
		req := httptest.NewRequest(http.MethodPost, "http://localhost/a/b?c=d", strings.NewReader(body))
		req.Header.Set("X-Content-Security", strings.Join([]string{
			"fingerprint=" + fp,
			"secret=" + base64.StdEncoding.EncodeToString(secret),
			"signature=" + sig,
		}, "; "))
		resp := httptest.NewRecorder()
		h.ServeHTTP(resp, req)

		if !ran || resp.Code != http.StatusOK {
			t.Errorf("%d-bit key (modulus %d bits, ciphertext %d bytes): correctly signed request refused: status=%d handlerRan=%v Signature=%q",
				bits, priv.N.BitLen(), len(secret), resp.Code, ran, resp.Header().Get("Signature"))
		}
	}
}
