// place in: rpc/internal/auth
package auth

import (
	"context"
	"testing"

	"github.com/gotid/god/lib/store/redis/redistest"
	"google.golang.org/grpc/metadata"
)

// The RPC gate must reject a call "whose token differs from the one stored for
// its app" and admit a call "whose token matches". The Authenticator keeps the
// first answer of the store for 5 minutes (collection.Cache, never invalidated),
// so after the stored token is rotated or revoked the gate keeps deciding on the
// OLD store content: the revoked token is admitted, the stored one is rejected.
func TestGenuineDemo(t *testing.T) {
	store, clean, err := redistest.CreateRedis()
	if err != nil {
		t.Fatal(err)
	}
	defer clean()

	call := func(a *Authenticator, app, token string) error {
		md := metadata.New(map[string]string{"app": app, "token": token})
		return a.Authenticate(metadata.NewIncomingContext(context.Background(), md))
	}

	for _, strict := range []bool{true, false} {
		if err := store.HSet("apps", "billing", "old-token"); err != nil {
			t.Fatal(err)
		}
		a, err := NewAuthenticator(store, "apps", strict)
		if err != nil {
			t.Fatal(err)
		}
		if err := call(a, "billing", "old-token"); err != nil {
			t.Fatalf("strict=%v: matching token rejected: %v", strict, err)
		}

		// the operator rotates the (leaked) token
		if err := store.HSet("apps", "billing", "new-token"); err != nil {
			t.Fatal(err)
		}
		stored, _ := store.HGet("apps", "billing")
		if err := call(a, "billing", "old-token"); err == nil {
			t.Errorf("strict=%v: store holds %q for app billing, but a call with the revoked token %q was ADMITTED",
				strict, stored, "old-token")
		}
		if err := call(a, "billing", "new-token"); err != nil {
			t.Errorf("strict=%v: store holds %q for app billing, but a call with exactly that token was REJECTED: %v",
				strict, stored, err)
		}

		// the operator removes the app altogether: in strict mode it must be rejected
		if _, err := store.HDel("apps", "billing"); err != nil {
			t.Fatal(err)
		}
		if strict {
			if err := call(a, "billing", "old-token"); err == nil {
				t.Errorf("strict=true: app billing has no stored token any more, but the call was ADMITTED")
			}
		}
	}
}
