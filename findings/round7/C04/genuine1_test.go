// place in: api/handler
package handler

import (
	"crypto/rand"
	"crypto/rsa"
	"crypto/sha256"
	"crypto/x509"
	"encoding/base64"
	"encoding/pem"
	"fmt"
	"net/http"
	"net/http/httptest"
	"os"
	"path/filepath"
	"strconv"
	"strings"
	"testing"
	"time"

	"github.com/gotid/god/lib/codec"
)

// Strict signature gate: "altering the path or the query of a signed request
// yields 403". An attacker who captured ONE signed request can replay its
// X-Content-Security header against any other path / query of the route group:
// he only has to add the header `X-Request-Uri: <original uri>`, which the gate
// trusts instead of the real request URI (getPathQuery in
// api/internal/security/contentsecurity.go) and which is not covered by the HMAC.
func TestGenuineDemo(t *testing.T) {
	const fp = "demo-fingerprint"

	priv, err := rsa.GenerateKey(rand.Reader, 1024)
	if err != nil {
		t.Fatal(err)
	}
	keyFile := filepath.Join(t.TempDir(), "pri.pem")
	if err := os.WriteFile(keyFile, pem.EncodeToMemory(&pem.Block{
		Type:  "RSA PRIVATE KEY",
		Bytes: x509.MarshalPKCS1PrivateKey(priv),
	}), 0o600); err != nil {
		t.Fatal(err)
	}
	pubDer, err := x509.MarshalPKIXPublicKey(&priv.PublicKey)
	if err != nil {
		t.Fatal(err)
	}
	enc, err := codec.NewRsaEncryptor(pem.EncodeToMemory(&pem.Block{Type: "PUBLIC KEY", Bytes: pubDer}))
	if err != nil {
		t.Fatal(err)
	}
	dec, err := codec.NewRsaDecryptor(keyFile)
	if err != nil {
		t.Fatal(err)
	}

	// --- the honest client signs: DELETE /orders/own?id=7 (empty body) ---
	key := []byte("0123456789abcdef") // known to the honest client and the server only
	ts := strconv.FormatInt(time.Now().Unix(), 10)
	secret, err := enc.Encrypt([]byte("type=0; key=" + base64.StdEncoding.EncodeToString(key) + "; time=" + ts))
	if err != nil {
		t.Fatal(err)
	}
	const signedPath, signedQuery = "/orders/own", "id=7"
	sig := codec.HmacBase64(key, strings.Join([]string{
		ts, http.MethodDelete, signedPath, signedQuery, fmt.Sprintf("%x", sha256.Sum256(nil)),
	}, "\n"))
	captured := strings.Join([]string{
		"fingerprint=" + fp,
		"secret=" + base64.StdEncoding.EncodeToString(secret),
		"signature=" + sig,
	}, "; ")

	var seenPath, seenQuery string
	run := func(url string, extra map[string]string) (int, bool) {
		ran := false
		h := ContentSecurityHandler(map[string]codec.RsaDecryptor{fp: dec}, time.Hour, true)(
			http.HandlerFunc(func(w http.ResponseWriter, r *http.Request) {
				ran = true
				seenPath, seenQuery = r.URL.Path, r.URL.RawQuery
			}))
		req := httptest.NewRequest(http.MethodDelete, url, http.NoBody)
		req.Header.Set("X-Content-Security", captured)
		for k, v := range extra {
			req.Header.Set(k, v)
		}
		resp := httptest.NewRecorder()
		h.ServeHTTP(resp, req)
		return resp.Code, ran
	}

	// sanity: the signed request passes; altering path or query alone yields 403.
	if code, ran := run("http://localhost/orders/own?id=7", nil); code != http.StatusOK || !ran {
		t.Fatalf("honest request refused: %d %v", code, ran)
	}
	if code, ran := run("http://localhost/orders/all?id=7", nil); code != http.StatusForbidden || ran {
		t.Fatalf("altered path without the header: %d %v", code, ran)
	}
	if code, ran := run("http://localhost/orders/own?id=8", nil); code != http.StatusForbidden || ran {
		t.Fatalf("altered query without the header: %d %v", code, ran)
	}

	// the attack: the attacker (who knows neither the HMAC key nor the private key)
	// alters path AND query and adds one unsigned header.
	hdr := map[string]string{"X-Request-Uri": "http://localhost" + signedPath + "?" + signedQuery}
	if code, ran := run("http://localhost/orders/all?id=1&cascade=true", hdr); code != http.StatusForbidden || ran {
		t.Errorf("signature made for DELETE %s?%s was accepted for DELETE %s?%s: status=%d handlerRan=%v (want 403/false); "+
			"the HMAC covers the client-supplied X-Request-Uri header instead of the request's own path and query",
			signedPath, signedQuery, seenPath, seenQuery, code, ran)
	}
}
