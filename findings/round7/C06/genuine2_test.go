// place in: lib/store/sqlc
package sqlc

import (
	"testing"
	"time"

	"github.com/alicebob/miniredis/v2"
	"github.com/gotid/god/lib/store/cache"
	"github.com/gotid/god/lib/store/redis"
	"github.com/gotid/god/lib/store/sqlx"
)

// Rows are cached as encoding/json text. A row that does not survive a JSON round trip is
// returned correctly by the first read (from the database) and DIFFERENTLY by every later
// read (from the cache), although no write happened in between:
//   (a) a string column holding bytes that are not valid UTF-8 (latin1 / binary data):
//       json.Marshal silently replaces them by U+FFFD;
//   (b) a column whose struct field has no JSON representation (`json:"-"`).
func TestGenuineDemo(t *testing.T) {
	mr, err := miniredis.Run()
	if err != nil {
		t.Fatal(err)
	}
	defer mr.Close()
	c := NewNodeConn(nil, redis.New(mr.Addr()), cache.WithExpire(time.Minute))

	type user struct {
		Id     int64  `db:"id"`
		Name   string `db:"name"`
		Secret string `db:"secret" json:"-"`
	}
	dbRow := user{Id: 1, Name: "Andr\xe9", Secret: "s3cr3t"} // "André" in latin1
	queries := 0
	query := func(conn sqlx.Conn, v any) error {
		queries++
		*v.(*user) = dbRow
		return nil
	}

	var first, second user
	if err := c.QueryRow(&first, "genuine2:user#1", query); err != nil {
		t.Fatal(err)
	}
	if err := c.QueryRow(&second, "genuine2:user#1", query); err != nil {
		t.Fatal(err)
	}
	if queries != 1 {
		t.Fatalf("expected the second read to be served from the cache, db queries = %d", queries)
	}
	if first != dbRow {
		t.Errorf("first read  = %+q, database row = %+q", first, dbRow)
	}
	if second.Name != dbRow.Name {
		t.Errorf("second read (cache) Name = %+q, database row has %+q", second.Name, dbRow.Name)
	}
	if second.Secret != dbRow.Secret {
		t.Errorf("second read (cache) Secret = %q, database row has %q", second.Secret, dbRow.Secret)
	}
}
