// place in: lib/store/sqlc
package sqlc

import (
	"strings"
	"sync"
	"testing"
	"time"

	"github.com/alicebob/miniredis/v2"
	"github.com/alicebob/miniredis/v2/server"
	"github.com/gotid/god/lib/store/cache"
	"github.com/gotid/god/lib/store/redis"
)

// The background retry of a failed cache removal keeps the CALLER's key slice
// (DelCache(keys...) -> cache.DelCtx(keys...) -> asyncRetryDelCache(keys...) -> closure),
// without copying it. If the caller reuses that slice after DelCache/Exec returned, the retry
// removes a different key and the key whose removal failed is never removed.
func TestGenuineDemo(t *testing.T) {
	mr, err := miniredis.Run()
	if err != nil {
		t.Fatal(err)
	}
	defer mr.Close()

	var (
		mu      sync.Mutex
		down    = true
		retried [][]string
	)
	mr.Server().SetPreHook(func(c *server.Peer, cmd string, args ...string) bool {
		if strings.ToUpper(cmd) != "DEL" {
			return false
		}
		mu.Lock()
		defer mu.Unlock()
		if down {
			c.WriteError("ERR injected: redis is down")
			return true
		}
		retried = append(retried, append([]string(nil), args...))
		return false
	})

	const stale, other = "genuine1:user#1", "genuine1:user#2"
	mr.Set(stale, `"row 1, old version"`)
	mr.Set(other, `"row 2, current"`)

	c := NewNodeConn(nil, redis.New(mr.Addr()), cache.WithExpire(time.Minute))

	// a write to row 1 invalidates its key; Redis fails at the delete, the removal goes to the background
	keys := make([]string, 1)
	keys[0] = stale
	if err := c.DelCache(keys...); err != nil {
		t.Fatalf("DelCache: %v", err)
	}
	// the caller reuses its buffer for something else (legal: DelCache has returned)
	keys[0] = other

	mu.Lock()
	down = false // Redis is back
	mu.Unlock()

	deadline := time.Now().Add(5 * time.Second)
	for {
		mu.Lock()
		n := len(retried)
		mu.Unlock()
		if n > 0 {
			break
		}
		if time.Now().After(deadline) {
			t.Fatal("no retry observed")
		}
		time.Sleep(20 * time.Millisecond)
	}
	time.Sleep(100 * time.Millisecond)

	mu.Lock()
	defer mu.Unlock()
	if mr.Exists(stale) {
		t.Errorf("key %q whose removal failed is still cached after the retry succeeded (retry sent DEL %v): readers keep getting the old row",
			stale, retried)
	}
	if !mr.Exists(other) {
		t.Errorf("retry removed the unrelated key %q instead", other)
	}
}
