// place in: lib/store/redis
package redis

import (
	"testing"

	"github.com/alicebob/miniredis/v2"
	"github.com/gotid/god/lib/logx"
)

// Expire(key, seconds) computes time.Duration(seconds)*time.Second without an
// overflow check.  For seconds > MaxInt64/1e9 (about 292 years, e.g. 1<<34) the
// product wraps to a NEGATIVE duration, go-redis sends "EXPIRE key <negative>"
// and the server deletes the key at once.  The call returns nil.
func TestGenuineDemo(t *testing.T) {
	logx.Disable()

	s, err := miniredis.Run()
	if err != nil {
		t.Fatal(err)
	}
	defer s.Close()
	client := New(s.Addr())

	if err := client.Set("k", "precious"); err != nil {
		t.Fatal(err)
	}
	const seconds = 1 << 34 // ~544 years, a legal int on 64-bit platforms
	if err := client.Expire("k", seconds); err != nil {
		t.Fatalf("Expire: %v", err)
	}
	ok, err := client.Exists("k")
	if err != nil {
		t.Fatal(err)
	}
	if !ok {
		t.Errorf("Expire(%q, %d) returned nil but DELETED the key (the duration overflowed to a negative value); "+
			"EXPIRE k %d on a Redis server keeps the key", "k", seconds, seconds)
	}
}
