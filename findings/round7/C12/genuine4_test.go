// place in: lib/store/redis
package redis

import (
	"net"
	"testing"

	"github.com/gotid/god/lib/breaker"
	"github.com/gotid/god/lib/logx"
)

type outcomeBreaker struct {
	breaker.Breaker
	calls, failures int
}

func (b *outcomeBreaker) DoWithAcceptable(req func() error, acceptable breaker.Acceptable) error {
	b.calls++
	err := req()
	if !acceptable(err) {
		b.failures++
	}
	return err
}

// "Connection-level failures trip the per-address breaker": two command
// methods never report a connection failure to the breaker.
//   - ScriptLoadCtx does not go through r.brk at all;
//   - PingCtx goes through r.brk but converts every error into `return nil`,
//     so a refused connection is recorded as a SUCCESS.
func TestGenuineDemo(t *testing.T) {
	logx.Disable()

	l, err := net.Listen("tcp", "127.0.0.1:0")
	if err != nil {
		t.Fatal(err)
	}
	deadAddr := l.Addr().String()
	_ = l.Close()

	ob := &outcomeBreaker{}
	client := New(deadAddr)
	client.brk = ob

	// control: an ordinary command reports the refused connection
	if _, err := client.Get("k"); err == nil {
		t.Fatal("Get on a dead address succeeded")
	}
	if ob.calls != 1 || ob.failures != 1 {
		t.Fatalf("control Get: calls=%d failures=%d, want 1/1", ob.calls, ob.failures)
	}

	if _, err := client.ScriptLoad("return 1"); err == nil {
		t.Fatal("ScriptLoad on a dead address succeeded")
	}
	if ob.failures != 2 {
		t.Errorf("ScriptLoad: connection refused, but the breaker saw calls=%d failures=%d (want a 2nd failure)",
			ob.calls, ob.failures)
	}

	before := ob.failures
	if client.Ping() {
		t.Fatal("Ping on a dead address returned true")
	}
	if ob.failures != before+1 {
		t.Errorf("Ping: connection refused, but the breaker recorded it as a success (calls=%d failures=%d)",
			ob.calls, ob.failures)
	}
}
