// place in: lib/store/redis
package redis

import (
	"context"
	"testing"

	"github.com/alicebob/miniredis/v2"
	red "github.com/go-redis/redis/v8"
	"github.com/gotid/god/lib/logx"
)

// clientManager / clusterManager cache the go-redis client by r.Addr only.
// The first Redis value created for an address fixes Password and TLS for the
// whole process; a later Redis value with different (here: the CORRECT)
// credentials silently reuses the first client.
func TestGenuineDemo(t *testing.T) {
	logx.Disable()

	s, err := miniredis.Run()
	if err != nil {
		t.Fatal(err)
	}
	defer s.Close()
	s.RequireAuth("secret")

	// step 1: somebody talks to the address without a password (fails, as it should)
	if err := New(s.Addr()).Set("k", "v"); err == nil {
		t.Fatal("Set without password succeeded on a server that requires AUTH")
	}

	// reference: go-redis with the same options as the wrapper would use
	ref := red.NewClient(&red.Options{Addr: s.Addr(), Password: "secret"})
	defer ref.Close()
	if err := ref.Set(context.Background(), "k", "v", 0).Err(); err != nil {
		t.Fatalf("reference go-redis client with the right password: %v", err)
	}

	// step 2: a wrapper configured with the right password
	if err := New(s.Addr(), WithPass("secret")).Set("k", "v"); err != nil {
		t.Errorf("New(addr, WithPass(\"secret\")).Set failed with %q although go-redis with the same "+
			"address and password succeeds: the client cached for this address (created without password) is reused", err)
	}
}
