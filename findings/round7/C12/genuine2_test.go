// place in: lib/store/redis
package redis

import (
	"math"
	"testing"

	"github.com/alicebob/miniredis/v2"
	"github.com/gotid/god/lib/logx"
)

// ZAddFloat accepts any float64 score, and +inf / -inf / |score| >= 2^63 are
// legal Redis scores.  Reading them back goes through an unchecked
// int64(float64) conversion (ZScoreCtx, ZIncrByCtx, toPairs), whose result is
// implementation-defined for out-of-range values: on amd64 +Inf becomes
// math.MinInt64, i.e. the largest possible score is reported as the smallest.
func TestGenuineDemo(t *testing.T) {
	logx.Disable()

	s, err := miniredis.Run()
	if err != nil {
		t.Fatal(err)
	}
	defer s.Close()
	client := New(s.Addr())

	if _, err := client.ZAddFloat("z", 1, "low"); err != nil {
		t.Fatal(err)
	}
	if _, err := client.ZAddFloat("z", math.Inf(1), "top"); err != nil {
		t.Fatal(err)
	}

	low, err := client.ZScore("z", "low")
	if err != nil {
		t.Fatal(err)
	}
	top, err := client.ZScore("z", "top")
	if err != nil {
		t.Fatal(err)
	}
	if top <= low {
		t.Errorf("ZScore(top)=%d <= ZScore(low)=%d although top was stored with score +Inf", top, low)
	}

	pairs, err := client.ZRangeWithScores("z", 0, -1)
	if err != nil {
		t.Fatal(err)
	}
	for i := 1; i < len(pairs); i++ {
		if pairs[i].Score < pairs[i-1].Score {
			t.Errorf("ZRangeWithScores (ascending by score) returned descending scores: %+v", pairs)
		}
	}
}
