// place in: lib/store/redis
package redis

import (
	"context"
	"testing"
	"time"

	"github.com/alicebob/miniredis/v2"
	red "github.com/go-redis/redis/v8"
	"github.com/gotid/god/lib/logx"
)

// TTL must report what go-redis reports, converted to seconds: -2 for an
// absent key, -1 for a key without expiry, otherwise the remaining seconds.
// go-redis v8.11.5 encodes the two sentinels as time.Duration(-2) and
// time.Duration(-1) (nanoseconds, NOT seconds); TTLCtx divides by time.Second
// unconditionally and so turns both into 0.
func TestGenuineDemo(t *testing.T) {
	logx.Disable()

	s, err := miniredis.Run()
	if err != nil {
		t.Fatal(err)
	}
	defer s.Close()

	ref := red.NewClient(&red.Options{Addr: s.Addr()})
	defer ref.Close()
	client := New(s.Addr())

	if err := client.Set("persistent", "v"); err != nil {
		t.Fatal(err)
	}
	if err := client.SetEx("volatile", "v", 100); err != nil {
		t.Fatal(err)
	}

	toSeconds := func(d time.Duration) int {
		if d < 0 { // go-redis sentinel: -1 / -2
			return int(d)
		}
		return int(d / time.Second)
	}

	for _, key := range []string{"absent", "persistent", "volatile"} {
		d, err := ref.TTL(context.Background(), key).Result()
		if err != nil {
			t.Fatal(err)
		}
		want := toSeconds(d)
		got, err := client.TTL(key)
		if err != nil {
			t.Fatal(err)
		}
		if got != want {
			t.Errorf("TTL(%q) = %d, but go-redis TTL reports %d (raw %d ns); "+
				"an absent key, a key without expiry and a key in its last second are indistinguishable",
				key, got, want, int64(d))
		}
	}
}
