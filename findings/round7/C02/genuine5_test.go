// place in: api
package api

import (
	"net/http"
	"net/http/httptest"
	"sync"
	"sync/atomic"
	"testing"
	"time"

	"github.com/gotid/god/api/router"
	"github.com/gotid/god/lib/logx"
)

// Config.MaxConns is a server-wide setting, but engine.bindRoute instantiates
// handler.MaxConns(ng.config.MaxConns) once PER ROUTE, so every route gets a
// latch of its own: a server with R routes admits R*MaxConns requests into
// handlers at the same instant and nobody gets the 503.
func TestGenuineDemo(t *testing.T) {
	logx.Disable()

	const maxConns = 1
	const routes = 4

	var active, peak int32
	release := make(chan struct{})
	entered := make(chan struct{}, routes)
	biz := func(w http.ResponseWriter, r *http.Request) {
		n := atomic.AddInt32(&active, 1)
		for {
			p := atomic.LoadInt32(&peak)
			if n <= p || atomic.CompareAndSwapInt32(&peak, p, n) {
				break
			}
		}
		entered <- struct{}{}
		<-release
		atomic.AddInt32(&active, -1)
	}

	ng := newEngine(Config{MaxConns: maxConns, Timeout: 10000})
	var rs []Route
	paths := []string{"/a", "/b", "/c", "/d"}
	for _, p := range paths {
		rs = append(rs, Route{Method: http.MethodGet, Path: p, Handler: biz})
	}
	ng.addRoutes(featuredRoutes{routes: rs})
	rt := router.NewRouter()
	if err := ng.bindRoutes(rt); err != nil {
		t.Fatal(err)
	}

	var wg sync.WaitGroup
	codes := make([]int, routes)
	for i, p := range paths {
		wg.Add(1)
		go func(i int, p string) {
			defer wg.Done()
			rec := httptest.NewRecorder()
			rt.ServeHTTP(rec, httptest.NewRequest(http.MethodGet, "http://localhost"+p, http.NoBody))
			codes[i] = rec.Code
		}(i, p)
	}

	// wait until nobody else can get in, then let everybody go
	deadline := time.After(time.Second)
wait:
	for i := 0; i < routes; i++ {
		select {
		case <-entered:
		case <-deadline:
			break wait
		}
	}
	close(release)
	wg.Wait()

	if p := atomic.LoadInt32(&peak); p > maxConns {
		t.Errorf("Config.MaxConns=%d, yet %d requests were inside handlers at the same instant (statuses %v, no 503)",
			maxConns, p, codes)
	}
}
