// place in: api/handler
package handler

import (
	"net/http"
	"net/http/httptest"
	"sync"
	"sync/atomic"
	"testing"
	"time"
)

// Default chain order (api/engine.go bindRoute): MaxConns is OUTSIDE the
// TimeoutHandler.  When a request times out, timeoutHandler.ServeHTTP returns
// while the handler goroutine keeps running, MaxConns' deferred Return() gives
// the slot back, and the next request is admitted although the first handler
// is still executing.  With slow handlers (exactly the overload situation
// MaxConns exists for) the number of requests inside handlers is unbounded.
func TestGenuineDemo(t *testing.T) {
	const maxConns = 1

	var active, peak int32
	var wg sync.WaitGroup
	biz := http.HandlerFunc(func(w http.ResponseWriter, r *http.Request) {
		defer wg.Done()
		n := atomic.AddInt32(&active, 1)
		for {
			p := atomic.LoadInt32(&peak)
			if n <= p || atomic.CompareAndSwapInt32(&peak, p, n) {
				break
			}
		}
		time.Sleep(300 * time.Millisecond) // slow dependency, ignores ctx
		atomic.AddInt32(&active, -1)
	})

	// same nesting as the engine: MaxConns -> Timeout -> Recover -> handler
	h := MaxConns(maxConns)(TimeoutHandler(20 * time.Millisecond)(RecoverHandler(biz)))

	for i := 0; i < 5; i++ {
		wg.Add(1)
		rec := httptest.NewRecorder()
		h.ServeHTTP(rec, httptest.NewRequest(http.MethodGet, "http://localhost/", http.NoBody))
		if rec.Code != http.StatusServiceUnavailable {
			t.Fatalf("request %d: got %d, want 503", i, rec.Code)
		}
	}
	wg.Wait()

	if p := atomic.LoadInt32(&peak); p > maxConns {
		t.Errorf("MaxConns=%d but %d requests were inside the handler at the same instant", maxConns, p)
	}
}
