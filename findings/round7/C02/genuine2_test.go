// place in: api/handler
package handler

import (
	"context"
	"net/http"
	"net/http/httptest"
	"strings"
	"testing"
	"time"

	"github.com/gotid/god/api/httpx"
)

// The timeout branch of timeoutHandler.ServeHTTP emits its response through
// httpx.ErrorCtx.  As soon as the application has installed the (very common)
// global error handler with httpx.SetErrorHandlerCtx, ErrorCtx ignores the
// callback that writes 503/499 + "Request Timeout" and lets the application's
// handler translate context.DeadlineExceeded instead - typically into
// "200 + {code,msg}" or 400.  The client of a timed-out request then does not
// receive the timeout response.
func TestGenuineDemo(t *testing.T) {
	// the usual "uniform error envelope" of go-zero style services
	httpx.SetErrorHandlerCtx(func(ctx context.Context, err error) (int, any) {
		return http.StatusOK, map[string]any{"code": 10001, "msg": err.Error()}
	})
	defer httpx.SetErrorHandlerCtx(nil)

	h := TimeoutHandler(20 * time.Millisecond)(http.HandlerFunc(func(w http.ResponseWriter, r *http.Request) {
		time.Sleep(200 * time.Millisecond)
	}))

	req := httptest.NewRequest(http.MethodGet, "http://localhost/", http.NoBody)
	rec := httptest.NewRecorder()
	h.ServeHTTP(rec, req)

	if rec.Code != http.StatusServiceUnavailable {
		t.Errorf("timed-out request: client got status %d body %q, want the timeout response 503 %q",
			rec.Code, strings.TrimSpace(rec.Body.String()), reason)
	}

	// client cancel: want 499
	ctx, cancel := context.WithCancel(context.Background())
	req = httptest.NewRequest(http.MethodGet, "http://localhost/", http.NoBody).WithContext(ctx)
	rec = httptest.NewRecorder()
	time.AfterFunc(10*time.Millisecond, cancel)
	TimeoutHandler(time.Minute)(http.HandlerFunc(func(w http.ResponseWriter, r *http.Request) {
		time.Sleep(200 * time.Millisecond)
	})).ServeHTTP(rec, req)
	if rec.Code != statusClientClosedRequest {
		t.Errorf("cancelled request: recorded status %d body %q, want 499",
			rec.Code, strings.TrimSpace(rec.Body.String()))
	}
}
