// place in: api/handler
package handler

import (
	"fmt"
	"io"
	"net/http"
	"net/http/httptest"
	"testing"
	"time"
)

// net/http (Go >= 1.19) lets a handler send informational 1xx responses with
// WriteHeader (e.g. 103 Early Hints) before the final status.  timeoutWriter
// treats the 1xx as THE status: the handler's real status is dropped as
// "superfluous", and when the buffered response is replayed the final status
// degenerates to net/http's implicit 200.  A handler that finishes well within
// the timeout and answers "103, then 404 + body" is delivered as "200 + body".
func TestGenuineDemo(t *testing.T) {
	biz := http.HandlerFunc(func(w http.ResponseWriter, r *http.Request) {
		w.Header().Set("Link", "</style.css>; rel=preload; as=style")
		w.WriteHeader(http.StatusEarlyHints) // 103
		w.WriteHeader(http.StatusNotFound)   // the handler's status
		io.WriteString(w, "no such thing")
	})

	fetch := func(h http.Handler) string {
		ts := httptest.NewServer(h)
		defer ts.Close()
		resp, err := http.Get(ts.URL)
		if err != nil {
			return err.Error()
		}
		defer resp.Body.Close()
		body, _ := io.ReadAll(resp.Body)
		return fmt.Sprintf("%d %q", resp.StatusCode, body)
	}

	plain := fetch(biz)
	if plain != `404 "no such thing"` {
		t.Fatalf("sanity: without the timeout guard the client gets %s", plain)
	}
	guarded := fetch(TimeoutHandler(time.Minute)(biz))
	if guarded != plain {
		t.Errorf("handler finished within the timeout and answered %s, but the client received %s", plain, guarded)
	}
}
