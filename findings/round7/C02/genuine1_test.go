// place in: api
package api

import (
	"fmt"
	"io"
	"net/http"
	"net/http/httptest"
	"strings"
	"testing"
	"time"

	"github.com/gotid/god/api/router"
	"github.com/gotid/god/lib/logx"
)

// engine.withTimeout() configures http.Server.WriteTimeout = 0.9 * Config.Timeout,
// i.e. the connection's write deadline expires BEFORE the route timeout.  The
// timeout handler buffers the whole response and writes it only when the
// handler is done (or when the deadline fires), so
//   - a handler that finishes within the route timeout, but later than 0.9*Timeout,
//     and
//   - every handler that runs into the route timeout (the 503 is written at
//     1.0*Timeout > 0.9*Timeout)
// produce NO response at all: net/http fails the write and closes the connection.
func TestGenuineDemo(t *testing.T) {
	logx.Disable()

	const timeoutMs = 1000 // Config.Timeout in ms; WriteTimeout becomes 900ms

	ng := newEngine(Config{Timeout: timeoutMs})
	ng.addRoutes(featuredRoutes{routes: []Route{
		{
			Method: http.MethodGet,
			Path:   "/late",
			Handler: func(w http.ResponseWriter, r *http.Request) {
				time.Sleep(950 * time.Millisecond) // within the 1000ms route timeout
				w.Header().Set("X-Handler", "yes")
				w.WriteHeader(http.StatusCreated)
				io.WriteString(w, "handler body")
			},
		},
		{
			Method: http.MethodGet,
			Path:   "/stuck",
			Handler: func(w http.ResponseWriter, r *http.Request) {
				time.Sleep(3 * time.Second) // far beyond the route timeout
			},
		},
	}})

	rt := router.NewRouter()
	if err := ng.bindRoutes(rt); err != nil {
		t.Fatal(err)
	}

	// exactly what engine.start does: an http.Server with ng.withTimeout() applied
	ts := httptest.NewUnstartedServer(rt)
	ng.withTimeout()(ts.Config)
	ts.Start()
	defer ts.Close()

	get := func(path string) string {
		resp, err := http.Get(ts.URL + path)
		if err != nil {
			return fmt.Sprintf("NO RESPONSE (%v)", err)
		}
		defer resp.Body.Close()
		body, _ := io.ReadAll(resp.Body)
		return fmt.Sprintf("%d %q", resp.StatusCode, strings.TrimSpace(string(body)))
	}

	results := make(chan [2]string, 2)
	go func() { results <- [2]string{"/late", get("/late")} }()
	go func() { results <- [2]string{"/stuck", get("/stuck")} }()

	want := map[string]string{
		"/late":  `201 "handler body"`,
		"/stuck": `503 "Request Timeout"`,
	}
	for i := 0; i < 2; i++ {
		r := <-results
		if r[1] != want[r[0]] {
			t.Errorf("GET %s: client got %s, want %s", r[0], r[1], want[r[0]])
		}
	}
}
