// place in: api/router
package router

import (
	"net/http"
	"net/http/httptest"
	"strings"
	"testing"

	"github.com/gotid/god/api/pathvar"
)

// TestGenuineDemo: a pattern that uses the same parameter name in two segments
// is accepted without complaint, yet the invoked handler cannot be given
// "each ':name' bound to the corresponding path segment": the binding of the
// deeper segment is silently overwritten by the shallower one.
func TestGenuineDemo(t *testing.T) {
	const pattern = "/users/:id/posts/:id"
	const request = "/users/7/posts/42"

	rt := NewRouter()
	var vars map[string]string
	err := rt.Handle(http.MethodGet, pattern, http.HandlerFunc(
		func(w http.ResponseWriter, r *http.Request) {
			vars = pathvar.Vars(r)
		}))
	if err != nil {
		// rejecting such a pattern would be a sound way out
		t.Skipf("pattern rejected (%v): nothing to demonstrate", err)
	}

	rec := httptest.NewRecorder()
	rt.ServeHTTP(rec, httptest.NewRequest(http.MethodGet, request, http.NoBody))
	if vars == nil {
		t.Fatalf("handler not invoked / no vars (status %d)", rec.Code)
	}

	patSegs := strings.Split(pattern[1:], "/")
	reqSegs := strings.Split(request[1:], "/")
	for i, ps := range patSegs {
		if ps[0] != ':' {
			continue
		}
		if got := vars[ps[1:]]; got != reqSegs[i] {
			t.Errorf("pattern %s, request %s: segment %d is %q in the pattern and %q in the path, "+
				"but the handler sees %s=%q (all vars: %v)",
				pattern, request, i, ps, reqSegs[i], ps[1:], got, vars)
		}
	}
}
