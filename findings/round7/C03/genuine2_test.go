// place in: api/router
package router

import (
	"bufio"
	"net/http"
	"net/http/httptest"
	"strings"
	"testing"
)

// TestGenuineDemo: a legal HTTP/1.1 request in absolute-form without a path
// ("GET http://example.com HTTP/1.1", RFC 7230 5.3.2: an empty path is the
// root path "/") reaches the handler chain with r.URL.Path == "".
// patRouter cleans it with path.Clean(""), which yields "." - not "/" - so
// the root pattern is never matched: 404 although GET "/" is registered
// (and 404 instead of 405 when only another method registered "/").
func TestGenuineDemo(t *testing.T) {
	req, err := http.ReadRequest(bufio.NewReader(strings.NewReader(
		"GET http://example.com HTTP/1.1\r\nHost: example.com\r\n\r\n")))
	if err != nil {
		t.Fatal(err)
	}
	if req.URL.Path != "" {
		t.Skipf("net/http delivered path %q, not the empty path", req.URL.Path)
	}

	rt := NewRouter()
	invoked := false
	if err = rt.Handle(http.MethodGet, "/", http.HandlerFunc(
		func(w http.ResponseWriter, r *http.Request) { invoked = true })); err != nil {
		t.Fatal(err)
	}

	// the explicit spelling of the same target works ...
	rec := httptest.NewRecorder()
	rt.ServeHTTP(rec, httptest.NewRequest(http.MethodGet, "http://example.com/", http.NoBody))
	if !invoked {
		t.Fatalf("control request for / not routed (status %d)", rec.Code)
	}

	// ... the empty-path spelling does not
	invoked = false
	rec = httptest.NewRecorder()
	rt.ServeHTTP(rec, req)
	if !invoked {
		t.Errorf("GET with empty request path (the root path): handler of pattern \"/\" not invoked, status %d",
			rec.Code)
	}

	// same for the 405 side: POST with the empty path, only GET "/" registered
	preq, _ := http.ReadRequest(bufio.NewReader(strings.NewReader(
		"POST http://example.com HTTP/1.1\r\nHost: example.com\r\nContent-Length: 0\r\n\r\n")))
	rec = httptest.NewRecorder()
	rt.ServeHTTP(rec, preq)
	if rec.Code != http.StatusMethodNotAllowed || rec.Header().Get("Allow") != http.MethodGet {
		t.Errorf("POST with empty request path: status %d Allow %q, want 405 with Allow: GET",
			rec.Code, rec.Header().Get("Allow"))
	}
}
