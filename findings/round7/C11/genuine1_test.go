// place in: lib/store/sqlx
package sqlx

// Uses mockTx / beginMock from the existing tx_test.go of this package.

import (
	"context"
	"testing"
)

// A transaction body that panics with a nil value - `panic(nil)`, or
// `panic(err)` with an untyped-nil `err` - is COMMITTED and Transact returns nil.
// go.mod says `go 1.19`, so the toolchain runs the module with GODEBUG
// panicnil=1: recover() returns nil for panic(nil), the deferred function of
// transactOnConn takes neither the "panic" nor the "error" branch and commits.
func TestGenuineDemo(t *testing.T) {
	mock := &mockTx{}
	var err error
	func() {
		defer func() {
			// if the panic reaches the caller, that is fine ("or the panic")
			if p := recover(); p != nil {
				err = p.(error)
			}
		}()
		err = transactOnConn(context.Background(), nil, beginMock(mock),
			func(_ context.Context, s Session) error {
				_, _ = s.Exec("insert into t values (1)")
				panic(nil) // body aborted half-way
			})
	}()

	if mock.status&mockCommit != 0 || mock.status&mockRollback == 0 || err == nil {
		t.Fatalf("body panicked half-way, but: commit=%v rollback=%v err=%v (want rollback, no commit, non-nil result)",
			mock.status&mockCommit != 0, mock.status&mockRollback != 0, err)
	}
}
