// place in: lib/store/sqlx
package sqlx

// Uses runOrmTest from the existing orm_test.go of this package.

import (
	"context"
	"database/sql"
	"testing"

	"github.com/DATA-DOG/go-sqlmock"
)

// Every field carries a `db` tag, but because one of the tagged fields lives in
// an embedded struct, getTaggedFieldValueMap gives up (the embedded field itself
// has no tag) and the mapper silently falls back to POSITIONAL mapping.
// With a column order that differs from the field order, values land in the
// wrong fields and no error is reported.
func TestGenuineDemo(t *testing.T) {
	type Base struct {
		ID string `db:"id"`
	}
	type User struct {
		Base
		Name string `db:"name"`
	}

	runOrmTest(t, func(db *sql.DB, mock sqlmock.Sqlmock) {
		rs := sqlmock.NewRows([]string{"name", "id"}).AddRow("alice", "42").AddRow("bob", "43")
		mock.ExpectQuery("select").WillReturnRows(rs)

		var users []User
		err := query(context.Background(), db, func(rows *sql.Rows) error {
			return unmarshalRows(&users, rows, true)
		}, "select name, id from users")
		if err != nil {
			t.Fatalf("unexpected error: %v", err)
		}
		if len(users) != 2 || users[0].Name != "alice" || users[0].ID != "42" ||
			users[1].Name != "bob" || users[1].ID != "43" {
			t.Fatalf("columns (name,id) were not mapped by their db tags: got %+v", users)
		}
	})
}
