// place in: lib/store/sqlx
package sqlx

// Uses runOrmTest from the existing orm_test.go of this package.

import (
	"context"
	"database/sql"
	"fmt"
	"testing"
	"time"

	"github.com/DATA-DOG/go-sqlmock"
)

// A struct destination that has an unexported nil pointer field makes the row
// mapper PANIC (reflect: Set using value obtained using unexported field) in
// unwrapFields, instead of returning ErrNotReadableValue / ErrUnsupportedValueType.
// time.Time (field `loc *Location`) is the everyday example:
//     var t time.Time; conn.QueryRow(&t, "select now()")
func TestGenuineDemo(t *testing.T) {
	check := func(name string, dest any) {
		runOrmTest(t, func(db *sql.DB, mock sqlmock.Sqlmock) {
			rs := sqlmock.NewRows([]string{"v"}).AddRow(time.Unix(1700000000, 0))
			mock.ExpectQuery("select").WillReturnRows(rs)

			var err error
			var panicked any
			func() {
				defer func() { panicked = recover() }()
				err = query(context.Background(), db, func(rows *sql.Rows) error {
					return unmarshalRow(dest, rows, true)
				}, "select now()")
			}()
			if panicked != nil {
				t.Errorf("%s: row mapping panicked instead of returning an error: %v", name, panicked)
				return
			}
			t.Logf("%s: err=%v", name, err)
		})
	}

	var tm time.Time
	check("time.Time destination", &tm)

	type inner struct{ n int }
	var s struct {
		When time.Time `db:"v"`
		priv *inner    // unexported, nil
	}
	check("struct with unexported nil pointer field", &s)
	_ = fmt.Sprint(s.priv)
}
