// place in: lib/store/sqlx
package sqlx

// Uses runOrmTest from the existing orm_test.go of this package.

import (
	"context"
	"database/sql"
	"errors"
	"testing"

	"github.com/DATA-DOG/go-sqlmock"
)

// unmarshalRows never looks at rows.Err() after its `for scanner.Next()` loop.
// If the driver fails while the result set is being streamed (connection lost,
// context deadline, ...), Next() returns false, the loop ends, and the caller
// receives a TRUNCATED result together with a nil error.
func TestGenuineDemo(t *testing.T) {
	runOrmTest(t, func(db *sql.DB, mock sqlmock.Sqlmock) {
		rs := sqlmock.NewRows([]string{"name"}).
			AddRow("a").AddRow("b").AddRow("c").
			RowError(1, errors.New("connection lost while streaming"))
		mock.ExpectQuery("select").WillReturnRows(rs)

		var names []string
		err := query(context.Background(), db, func(rows *sql.Rows) error {
			return unmarshalRows(&names, rows, true)
		}, "select name from users")

		if err == nil {
			t.Fatalf("driver failed after the first of 3 rows, yet QueryRows returned nil error with %d row(s): %v",
				len(names), names)
		}
	})
}
