// place in: lib/store/sqlx
package sqlx

// Uses runOrmTest from the existing orm_test.go of this package.

import (
	"context"
	"database/sql"
	"testing"
	"time"

	"github.com/DATA-DOG/go-sqlmock"
)

// A nil *time.Time is a perfectly valid driver argument (it is sent as NULL),
// but with statement logging enabled (the default) the statement guard formats
// the arguments first and writeValue calls v.String() on the nil pointer:
// Exec / Query PANIC with a nil pointer dereference before reaching the driver.
func TestGenuineDemo(t *testing.T) {
	prevSQL, prevSlow := logSQL.True(), logSlowSQL.True()
	logSQL.Set(true)
	logSlowSQL.Set(true)
	defer func() {
		logSQL.Set(prevSQL)
		logSlowSQL.Set(prevSlow)
	}()

	runOrmTest(t, func(db *sql.DB, mock sqlmock.Sqlmock) {
		mock.ExpectExec("update").WillReturnResult(sqlmock.NewResult(0, 1))

		var deletedAt *time.Time // NULL
		var panicked any
		var err error
		func() {
			defer func() { panicked = recover() }()
			_, err = exec(context.Background(), db, "update t set deleted_at = ? where id = ?", deletedAt, 1)
		}()
		if panicked != nil {
			t.Fatalf("Exec with a nil *time.Time argument panicked: %v", panicked)
		}
		if err != nil {
			t.Fatalf("unexpected error: %v", err)
		}
	})
}
