// place in: rpc/internal/balancer/p2c
package p2c

import (
	"context"
	"sync/atomic"
	"testing"
	"time"

	"github.com/gotid/god/lib/timex"
	"google.golang.org/grpc/balancer"
	"google.golang.org/grpc/balancer/base"
	"google.golang.org/grpc/resolver"
)

// Consequence of genuine finding 1 (timex.Now() follows the wall clock) for the balancer.
// The wall clock cannot be stepped from a test, so the state a backward step of one hour
// leaves behind is EMULATED: the `pick` stamps written before the step are one hour ahead
// of what timex.Now() returns after it. Nothing else is touched. Under sustained traffic
// the more loaded of two backends must still be picked about once per second; it gets no
// pick at all (and would get none for the whole hour).
func TestGenuineDemo(t *testing.T) {
	ready := map[balancer.SubConn]base.SubConnInfo{
		mockClientConn{id: "genuine-a"}: {Address: resolver.Address{Addr: "a"}},
		mockClientConn{id: "genuine-b"}: {Address: resolver.Address{Addr: "b"}},
	}
	picker := new(p2cPickerBuilder).Build(base.PickerBuildInfo{ReadySCs: ready}).(*p2cPicker)
	slow, fast := picker.conns[0], picker.conns[1]
	atomic.StoreUint64(&slow.lag, uint64(50*time.Millisecond)) // a slow (e.g. recovering) backend
	atomic.StoreUint64(&fast.lag, uint64(time.Millisecond))

	// stamps taken "before the step": one hour ahead of the stepped-back clock
	before := int64(timex.Now() + time.Hour)
	atomic.StoreInt64(&slow.pick, before)
	atomic.StoreInt64(&fast.pick, before)

	deadline := time.Now().Add(2500 * time.Millisecond)
	picks := 0
	for time.Now().Before(deadline) {
		res, err := picker.Pick(balancer.PickInfo{FullMethodName: "/", Ctx: context.Background()})
		if err != nil {
			t.Fatal(err)
		}
		res.Done(balancer.DoneInfo{})
		picks++
		time.Sleep(time.Millisecond)
	}
	// lag was overwritten by the completions above only for the picked backend; count picks
	if n := atomic.LoadInt64(&slow.requests); n == 0 {
		t.Fatalf("2.5s of sustained traffic (%d picks) after a (emulated) 1h backward wall-clock step: "+
			"the more loaded backend was picked %d times, want about 2 forced picks; "+
			"start-pick is negative until the wall clock catches up, so it stays starved for the whole hour",
			picks, n)
	}
}
