// place in: lib/timex
package timex

import (
	"strings"
	"testing"
	"time"
)

// timex.Now() is the clock of the p2c balancer (pick stamps, completion stamps, latencies).
// It is computed as time.Since(initTime). time.Since only uses the monotonic clock when its
// argument carries a monotonic reading; initTime is built with AddDate, which goes through
// time.Date and therefore STRIPS the monotonic reading. So Now() is a wall-clock difference
// and goes backwards / jumps forwards with every wall-clock step (NTP step, manual change,
// VM resume), although every user treats it as a monotone relative time.
func TestGenuineDemo(t *testing.T) {
	// time.Time.String() prints " m=±<value>" exactly when a monotonic reading is present.
	if !strings.Contains(initTime.String(), " m=") {
		// show the consequence too: the value equals the pure wall-clock difference
		wall := time.Now().Round(0).Sub(initTime) // Round(0) strips the monotonic reading
		now := Now()
		t.Fatalf("timex.initTime = %q carries no monotonic clock reading (AddDate stripped it), "+
			"so timex.Now() = time.Since(initTime) is computed from the WALL clock "+
			"(Now()=%v, wall-clock difference=%v) and is not monotone: after a backward wall-clock "+
			"step of X the p2c balancer sees start-pick < 0 and makes no forced pick for X+1s",
			initTime.String(), now, wall)
	}
}
