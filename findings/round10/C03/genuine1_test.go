// place in: api
package api

import (
	"io"
	"net/http"
	"net/http/httptest"
	"testing"

	"github.com/gotid/god/lib/conf"
	"github.com/gotid/god/lib/logx"
)

// With WithCors() enabled the server's router no longer routes by the registered patterns:
//   - a registered OPTIONS route is never invoked (the CORS wrapper answers every OPTIONS itself),
//   - OPTIONS on a path no pattern matches is answered 204 instead of 404,
//   - a method mismatch (POST on a GET-only path) is answered 404 without Allow instead of 405 + Allow.
func TestGenuineDemo(t *testing.T) {
	writer := logx.Reset()
	defer logx.SetWriter(writer)
	logx.SetWriter(logx.NewWriter(io.Discard))

	var cnf Config
	if err := conf.LoadFromYamlBytes([]byte("Name: foo\nPort: 54321\n"), &cnf); err != nil {
		t.Fatal(err)
	}
	svr, err := NewServer(cnf, WithCors())
	if err != nil {
		t.Fatal(err)
	}

	optionsInvoked, getInvoked := false, false
	svr.AddRoutes([]Route{
		{Method: http.MethodOptions, Path: "/opts", Handler: func(w http.ResponseWriter, r *http.Request) {
			optionsInvoked = true
			w.WriteHeader(http.StatusOK)
		}},
		{Method: http.MethodGet, Path: "/only-get", Handler: func(w http.ResponseWriter, r *http.Request) {
			getInvoked = true
		}},
	})
	// what Start() does before listening
	if err = svr.ng.bindRoutes(svr.router); err != nil {
		t.Fatal(err)
	}

	serve := func(method, target string) *httptest.ResponseRecorder {
		w := httptest.NewRecorder()
		svr.router.ServeHTTP(w, httptest.NewRequest(method, target, nil))
		return w
	}

	if w := serve(http.MethodGet, "/only-get"); !getInvoked {
		t.Fatalf("sanity: GET /only-get not routed, code %d", w.Code)
	}

	var failures []string
	if w := serve(http.MethodOptions, "/opts"); !optionsInvoked {
		failures = append(failures, "registered route OPTIONS /opts matches the request but its handler was NOT invoked (code "+http.StatusText(w.Code)+")")
	}
	if w := serve(http.MethodOptions, "/no/such/path"); w.Code != http.StatusNotFound {
		failures = append(failures, "OPTIONS /no/such/path matches no pattern of any method, expected 404, got "+http.StatusText(w.Code))
	}
	if w := serve(http.MethodPost, "/only-get"); w.Code != http.StatusMethodNotAllowed || w.Header().Get("Allow") != "GET" {
		failures = append(failures, "POST /only-get: expected 405 with Allow: GET, got "+http.StatusText(w.Code)+" Allow="+w.Header().Get("Allow"))
	}
	for _, f := range failures {
		t.Error(f)
	}
}
