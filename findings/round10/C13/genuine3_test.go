// place in: lib/hash
package hash

import (
	"fmt"
	"testing"
)

// TestGenuineDemo: "each node's share of a large key population is roughly
// proportional to its weight" - for every weight setting. AddWithWeight turns a
// weight w into h.replicas*w/100 virtual nodes, i.e. with the default ring a
// weight of 1 is ONE virtual node and a weight of 2 is TWO. Nodes given small
// (relative-looking) weights such as 1:1 or 2:2 therefore get wildly unequal
// shares: equal weights, 100000 keys, and one node receives ~10x the other.
// The minReplicas floor (100) that is meant to guarantee balance is bypassed,
// because the weight scales the replica count down AFTER the floor was applied.
func TestGenuineDemo(t *testing.T) {
	const total = 100000
	for _, w := range []int{1, 2} {
		ch := NewConsistentHash()
		n0, n1 := "redis-0:6379", "redis-1:6379"
		ch.AddWithWeight(n0, w)
		ch.AddWithWeight(n1, w)

		cnt := map[any]int{}
		for i := 0; i < total; i++ {
			n, ok := ch.Get(fmt.Sprintf("user:%d", i))
			if !ok {
				t.Fatalf("absence with two nodes of weight %d", w)
			}
			cnt[n]++
		}

		// equal weights => expected 50% each; allow a very generous 35%..65%
		for _, n := range []string{n0, n1} {
			share := float64(cnt[n]) / total
			if share < 0.35 || share > 0.65 {
				t.Errorf("two nodes of EQUAL weight %d: node %s got %.1f%% of %d keys (want roughly 50%%); split = %v",
					w, n, share*100, total, cnt)
			}
		}
	}
}
