// place in: lib/hash
package hash

import (
	"fmt"
	"testing"
)

// TestGenuineDemo: weights above TopWeight (100) are silently clamped, so a node
// of weight 200 next to a node of weight 100 gets the same share instead of
// roughly twice as much (expected ~66.7% / 33.3%). The quantifier covers every
// weight setting; AddWithWeight neither rejects nor rescales such a weight.
// (Borderline: the doc comment says weights are 1-100.)
func TestGenuineDemo(t *testing.T) {
	const total = 100000
	ch := NewConsistentHash()
	heavy, light := "redis-0:6379", "redis-1:6379"
	ch.AddWithWeight(heavy, 200)
	ch.AddWithWeight(light, 100)

	cnt := map[any]int{}
	for i := 0; i < total; i++ {
		n, _ := ch.Get(fmt.Sprintf("user:%d", i))
		cnt[n]++
	}

	share := float64(cnt[heavy]) / total
	if share < 0.55 { // expected 0.667; 0.55 is already a generous tolerance
		t.Errorf("node of weight 200 got %.1f%% and node of weight 100 got %.1f%% of %d keys; want roughly 66.7%% / 33.3%%",
			share*100, float64(cnt[light])/total*100, total)
	}
}
