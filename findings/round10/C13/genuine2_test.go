// place in: lib/hash
package hash

import "testing"

// endpoint is a plain comparable struct node (no String method).
type endpoint struct {
	Host string
	Tag  string
}

// TestGenuineDemo: two DIFFERENT struct nodes (a != b in Go) whose default
// rendering happens to coincide ("{10.0.0.1 blue green}") are treated as one
// node, because the ring identifies a node only by lang.Repr(node) ==
// fmt.Sprint(node), which does not delimit or quote struct fields.
//   - Add(b) silently evicts a (adding a node must only move keys TO the new node,
//     and every added node of positive weight must get its share);
//   - Remove(a) then removes b, and Get reports absence although b - a node of
//     positive weight that was added and never removed - is still a member.
func TestGenuineDemo(t *testing.T) {
	a := endpoint{Host: "10.0.0.1 blue", Tag: "green"}
	b := endpoint{Host: "10.0.0.1", Tag: "blue green"}
	if a == b {
		t.Fatal("precondition: a and b are different nodes")
	}

	ch := NewConsistentHash()
	ch.Add(a)
	ch.Add(b)

	seen := map[any]int{}
	for i := 0; i < 2000; i++ {
		n, ok := ch.Get(i)
		if !ok {
			t.Fatalf("Get(%d) reported absence with two nodes added", i)
		}
		seen[n]++
	}
	if seen[a] == 0 || seen[b] == 0 {
		t.Errorf("two nodes of equal weight were added, but the 2000 keys were split a=%d b=%d (node a was silently evicted by Add(b))", seen[a], seen[b])
	}

	ch.Remove(a) // b must stay
	if n, ok := ch.Get("some-key"); !ok || n != b {
		t.Errorf("after Add(a), Add(b), Remove(a): Get = (%v, %v); want (%v, true) - removing a removed the different node b", n, ok, b)
	}
}
