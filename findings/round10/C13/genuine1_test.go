// place in: lib/hash
package hash

import (
	"fmt"
	"testing"
)

// keyErr is an ordinary error type with a value receiver, as most small error
// types are written. *keyErr therefore implements error too.
type keyErr struct{ msg string }

func (e keyErr) Error() string { return e.msg }

// TestGenuineDemo: Lookup must be total - for every key it returns one of the
// currently added nodes. A typed-nil pointer whose type implements `error`
// (but not fmt.Stringer) is a legal `any` key (fmt prints it as "<nil>"), yet
// ConsistentHash.Get panics on it inside lang.Repr -> reprOfValue, whose
// `case error:` calls Error() through the nil pointer. (The sibling
// fmt.Stringer case was repaired; the error case, listed BEFORE Stringer in
// the type switch, was not.) The same panic hits Add/Remove with such a node.
func TestGenuineDemo(t *testing.T) {
	ch := NewConsistentHash()
	ch.Add("node-a")
	ch.Add("node-b")

	var key *keyErr // typed nil; fmt.Sprint(key) == "<nil>"
	if got := fmt.Sprint(key); got != "<nil>" {
		t.Fatalf("precondition: fmt renders the key as %q", got)
	}

	func() {
		defer func() {
			if r := recover(); r != nil {
				t.Errorf("Get(%T(nil)) panicked instead of returning one of the two added nodes: %v", key, r)
			}
		}()
		node, ok := ch.Get(key)
		if !ok || (node != "node-a" && node != "node-b") {
			t.Errorf("Get(%T(nil)) = %v, %v; want one of the added nodes", key, node, ok)
		}
	}()

	// second shape of the same defect: pointer to a nil pointer whose type is a Stringer
	var inner *mockNode // *mockNode implements fmt.Stringer and dereferences its receiver
	func() {
		defer func() {
			if r := recover(); r != nil {
				t.Errorf("Get(**mockNode -> nil) panicked instead of returning an added node: %v", r)
			}
		}()
		if _, ok := ch.Get(&inner); !ok {
			t.Errorf("Get(&(*mockNode)(nil)) reported absence with two nodes present")
		}
	}()
}
