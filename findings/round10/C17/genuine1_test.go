// place in: lib/collection
package collection

import (
	"testing"
	"time"

	"github.com/gotid/god/lib/timex"
)

// Re-setting an EXISTING key with an expiry below one wheel tick (anything up to ~1.05s before
// jitter, e.g. the default expiry of NewCache(time.Second) on every second re-Set) drops the fresh
// value at once: TimingWheel.moveTask runs the expiry callback immediately for delay < interval,
// whereas the same Set on a NEW key is rounded UP to one tick (setTask).
//
// The wheel of the cache is replaced by an identical one driven by a fake ticker that never ticks,
// so no wheel tick elapses during the test: nothing may be dropped for age.
func TestGenuineDemo(t *testing.T) {
	cache, err := NewCache(time.Minute)
	if err != nil {
		t.Fatal(err)
	}
	ticker := timex.NewFakeTicker() // never ticked
	tw, err := newTimingWheelWithClock(time.Second, slots, func(key, val any) {
		if k, ok := key.(string); ok {
			cache.Del(k)
		}
	}, ticker)
	if err != nil {
		t.Fatal(err)
	}
	cache.timingWheel.Stop()
	cache.timingWheel = tw

	// control: a NEW key with the same sub-tick expiry survives until the next tick
	cache.SetWithExpire("fresh", "v", 900*time.Millisecond)
	// an EXISTING key re-set with a sub-tick expiry
	cache.Set("k", "v1")
	cache.SetWithExpire("k", "v2", 900*time.Millisecond)

	time.Sleep(100 * time.Millisecond) // far below 95% of 900ms, and no tick has happened

	if v, ok := cache.Get("fresh"); !ok || v != "v" {
		t.Errorf("control: new key with 900ms expiry: Get = (%v, %v), want (v, true)", v, ok)
	}
	if v, ok := cache.Get("k"); !ok || v != "v2" {
		t.Errorf("existing key re-set with 900ms expiry, 100ms later and without any wheel tick: "+
			"Get(\"k\") = (%v, %v), want (v2, true) - the value just set was dropped at age 0", v, ok)
	}
}
