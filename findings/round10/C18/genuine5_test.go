// place in: lib/timex
package timex

import (
	"strings"
	"testing"
)

// timex.Now()/Since() are the clock behind TimeoutLimit.Borrow's "remaining
// timeout" and Pool's idle age. initTime is built with AddDate, which strips
// the monotonic clock reading, so every timex.Now() is a WALL-clock difference.
func TestGenuineDemo(t *testing.T) {
	if !strings.Contains(initTime.String(), " m=") {
		t.Fatalf("timex.initTime = %q carries no monotonic reading: time.Since(initTime) "+
			"falls back to wall-clock subtraction, so a wall-clock step (NTP, manual set) "+
			"shifts timex.Now() by the same amount", initTime.String())
	}
}
