// place in: lib/syncx
package syncx

import (
	"testing"
	"time"
)

// Pool.Get counts a resource as live BEFORE create() has produced it and never
// takes the count back when create() panics. A pool of limit 1 whose create
// panicked once has zero live resources, yet every later Get blocks for ever.
func TestGenuineDemo(t *testing.T) {
	fail := true
	p := NewPool(1, func() any {
		if fail {
			fail = false
			panic("dial failed")
		}
		return "conn"
	}, func(any) {})

	func() {
		defer func() { _ = recover() }()
		p.Get() // create panics; the caller recovers, as an HTTP handler would
	}()

	if p.created != 0 {
		t.Errorf("no resource was produced, yet the pool accounts %d live resource(s) (limit %d)", p.created, p.limit)
	}

	got := make(chan any, 1)
	go func() { got <- p.Get() }()
	select {
	case v := <-got:
		if v != "conn" {
			t.Fatalf("unexpected resource %v", v)
		}
	case <-time.After(2 * time.Second):
		t.Fatalf("Get blocks although the pool holds 0 live resources and its limit is 1: " +
			"the slot taken for the panicked create() was never given back")
	}
}
