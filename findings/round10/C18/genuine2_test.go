// place in: lib/syncx
package syncx

import (
	"testing"
	"time"
)

// While the first fetch of an ImmutableResource is still running, a second Get
// returns (nil, nil): neither a resource nor an error.
func TestGenuineDemo(t *testing.T) {
	entered := make(chan struct{})
	release := make(chan struct{})
	ir := NewImmutableResource(func() (any, error) {
		close(entered)
		<-release
		return "resource", nil
	})

	first := make(chan any, 1)
	go func() {
		v, _ := ir.Get()
		first <- v
	}()
	<-entered // the first Get is inside fetch

	type result struct {
		v   any
		err error
	}
	second := make(chan result, 1)
	go func() {
		v, err := ir.Get()
		second <- result{v, err}
	}()

	select {
	case r := <-second:
		close(release)
		<-first
		if r.v == nil && r.err == nil {
			t.Fatalf("Get overlapping the first fetch returned (nil, nil): no resource and no error")
		}
	case <-time.After(500 * time.Millisecond):
		// waiting for the fetch in progress is acceptable behaviour
		close(release)
		<-first
		r := <-second
		if r.v != "resource" || r.err != nil {
			t.Fatalf("Get = (%v, %v), want (resource, nil)", r.v, r.err)
		}
	}
}
