// place in: lib/syncx
package syncx

import "testing"

type demoConn struct{ id int }

// MarkBroken hands its own "no resource" sentinel (nil) to the user's equal
// function. Two users reporting the same broken connection - or a report
// arriving before the first Take - make an ordinary typed equal panic.
func TestGenuineDemo(t *testing.T) {
	mr := NewManagedResource(func() any {
		return &demoConn{id: 1}
	}, func(a, b any) bool {
		return a.(*demoConn) == b.(*demoConn)
	})

	c := mr.Take()
	mr.MarkBroken(c) // first reporter

	defer func() {
		if r := recover(); r != nil {
			t.Fatalf("second MarkBroken of the same broken resource panicked: %v", r)
		}
	}()
	mr.MarkBroken(c) // second reporter: must be a no-op
	if got := mr.Take(); got == nil {
		t.Fatal("Take returned nil")
	}
}
