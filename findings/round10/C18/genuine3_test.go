// place in: lib/syncx
package syncx

import (
	"errors"
	"math"
	"testing"
	"time"
)

// maybeRefresh computes lastTime+refreshInterval; with a very large interval
// ("never retry after a failure") the sum overflows to a negative number, so a
// failed fetch is retried on EVERY Get instead of never.
func TestGenuineDemo(t *testing.T) {
	var fetches int
	ir := NewImmutableResource(func() (any, error) {
		fetches++
		return nil, errors.New("down")
	}, WithRefreshIntervalOnFailure(time.Duration(math.MaxInt64)))

	for i := 0; i < 5; i++ {
		if _, err := ir.Get(); err == nil {
			t.Fatal("expected the cached error")
		}
	}
	if fetches != 1 {
		t.Fatalf("refresh interval on failure is %v, yet 5 Gets within a millisecond fetched %d times (want 1)",
			time.Duration(math.MaxInt64), fetches)
	}
}
