// place in: api/handler
package handler

import (
	"crypto/sha256"
	"encoding/base64"
	"fmt"
	"io"
	"net/http"
	"net/http/httptest"
	"os"
	"strconv"
	"strings"
	"testing"
	"time"

	"github.com/gotid/god/api/httpx"
	"github.com/gotid/god/lib/codec"
)

// A strict signature route. The client sends a correctly signed request of the "encrypted" type whose
// plaintext body is empty: AES-ECB/PKCS#5 of "" is one block of sixteen 0x10 bytes, exactly what the
// library's own codec.EcbEncrypt produces. Header decrypts, timestamp is now, HMAC matches - the handler
// must run. It does for the body "x"; for the empty body the gate answers 400 and the handler never runs.
func TestGenuineDemo(t *testing.T) {
	keyFile, err := createTempFile(priKey)
	if err != nil {
		t.Fatal(err)
	}
	defer os.Remove(keyFile)
	decrypter, err := codec.NewRsaDecryptor(keyFile)
	if err != nil {
		t.Fatal(err)
	}

	aesKey := []byte("q4t7w!z%C*F-JaNdRgUjXn2r5u8x/A?D")
	enc, err := codec.NewRsaEncryptor(pubKey)
	if err != nil {
		t.Fatal(err)
	}

	send := func(plain string) (code int, ran bool, got string) {
		h := ContentSecurityHandler(map[string]codec.RsaDecryptor{fingerprint: decrypter}, time.Hour, true)(
			http.HandlerFunc(func(w http.ResponseWriter, r *http.Request) {
				ran = true
				bs, _ := io.ReadAll(r.Body)
				got = string(bs)
			}))

		cipherText, err := codec.EcbEncrypt(aesKey, []byte(plain))
		if err != nil {
			t.Fatal(err)
		}
		body := base64.StdEncoding.EncodeToString(cipherText)
		ts := strconv.FormatInt(time.Now().Unix(), 10)
		secret, err := enc.Encrypt([]byte(strings.Join([]string{
			"type=1",
			"key=" + base64.StdEncoding.EncodeToString(aesKey),
			"time=" + ts,
		}, "; ")))
		if err != nil {
			t.Fatal(err)
		}

		r := httptest.NewRequest(http.MethodPost, "http://localhost/a/b?c=d", strings.NewReader(body))
		bodySign := fmt.Sprintf("%x", sha256.Sum256([]byte(body)))
		sign := codec.HmacBase64(aesKey, strings.Join([]string{ts, http.MethodPost, "/a/b", "c=d", bodySign}, "\n"))
		r.Header.Set(httpx.ContentSecurity, strings.Join([]string{
			"fingerprint=" + fingerprint,
			"secret=" + base64.StdEncoding.EncodeToString(secret),
			"signature=" + sign,
		}, "; "))

		resp := httptest.NewRecorder()
		h.ServeHTTP(resp, r)
		return resp.Code, ran, got
	}

	if code, ran, got := send("x"); code != http.StatusOK || !ran || got != "x" {
		t.Fatalf("sanity: body \"x\": code %d, ran %v, handler saw %q", code, ran, got)
	}

	if code, ran, got := send(""); code != http.StatusOK || !ran || got != "" {
		t.Fatalf("correctly signed encrypted request with an empty plaintext body "+
			"(ciphertext = codec.EcbEncrypt(key, \"\")): code %d, handler ran %v; want 200 and handler run", code, ran)
	}
}
