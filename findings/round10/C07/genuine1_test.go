// place in: lib/mr
package mr

import (
	"context"
	"errors"
	"testing"
	"time"
)

// A done context / a cancel(err) must make the call return. Both go through the
// once-guarded cancel closure, which runs drain(source) synchronously BEFORE it
// closes done/output - in the calling goroutine for the context arm. While the
// generator is merely slow (blocked between two sends) the call cannot return;
// with a generator that never ends it never returns.
func TestGenuineDemo(t *testing.T) {
	t.Run("context deadline", func(t *testing.T) {
		release := make(chan struct{})
		defer close(release) // let the generator finish after the check

		ctx, cancelCtx := context.WithTimeout(context.Background(), 50*time.Millisecond)
		defer cancelCtx()

		errCh := make(chan error, 1)
		go func() {
			_, err := MapReduce(func(source chan<- any) {
				source <- 1
				<-release // slow producer: e.g. waiting for the next page of a cursor
				source <- 2
			}, func(item any, writer Writer, cancel func(error)) {
				writer.Write(item)
			}, func(pipe <-chan any, writer Writer, cancel func(error)) {
				n := 0
				for range pipe {
					n++
				}
				writer.Write(n)
			}, WithContext(ctx))
			errCh <- err
		}()

		select {
		case err := <-errCh:
			if !errors.Is(err, context.DeadlineExceeded) {
				t.Fatalf("got %v, want context.DeadlineExceeded", err)
			}
		case <-time.After(2 * time.Second):
			t.Fatal("context was done after 50ms, but MapReduce has not returned context.DeadlineExceeded " +
				"2s later: the caller is stuck in cancel -> drain(source) until the generator returns")
		}
	})

	t.Run("mapper cancel", func(t *testing.T) {
		release := make(chan struct{})
		defer close(release)
		errBoom := errors.New("boom")

		errCh := make(chan error, 1)
		go func() {
			_, err := MapReduce(func(source chan<- any) {
				source <- 1
				<-release
				source <- 2
			}, func(item any, writer Writer, cancel func(error)) {
				cancel(errBoom)
			}, func(pipe <-chan any, writer Writer, cancel func(error)) {
				for range pipe {
				}
			})
			errCh <- err
		}()

		select {
		case err := <-errCh:
			if err != errBoom {
				t.Fatalf("got %v, want %v", err, errBoom)
			}
		case <-time.After(2 * time.Second):
			t.Fatal("cancel(boom) was called, but MapReduce has not returned boom 2s later: " +
				"cancel blocks in drain(source) until the generator returns, output is closed only afterwards")
		}
	})
}
