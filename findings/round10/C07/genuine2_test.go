// place in: lib/mr
package mr

import (
	"context"
	"testing"
	"time"
)

// ForEach (two workers) with a context that becomes done while the generator is
// between two sends: the call must return. It does not: executeMappers took a
// free worker slot and is blocked in the plain receive `<-mCtx.source`, which
// looks neither at the context nor at done; the collector is closed only after
// the generator sends again or returns. With a generator that is blocked for
// good (or endless and idle) ForEach never returns.
func TestGenuineDemo(t *testing.T) {
	release := make(chan struct{})
	ctx, cancel := context.WithCancel(context.Background())
	defer cancel()

	generatorDone := make(chan struct{})
	returned := make(chan struct{})
	go func() {
		ForEach(func(source chan<- any) {
			defer close(generatorDone)
			source <- 1
			<-release // slow producer
			source <- 2
		}, func(item any) {
			if item.(int) == 1 {
				// by now the dispatcher holds the second worker slot and sits in
				// its bare `item, ok := <-mCtx.source` receive (no select there)
				time.Sleep(100 * time.Millisecond)
				cancel()
			}
		}, WithContext(ctx), WithWorkers(2))
		close(returned)
	}()

	select {
	case <-returned:
	case <-time.After(2 * time.Second):
		close(release)
		t.Fatal("context is done and every started mapper has finished, but ForEach has not returned 2s later: " +
			"the dispatcher is stuck in `<-mCtx.source` until the generator sends again or returns")
	}

	// clean termination: once the generator returns nothing is left behind
	close(release)
	select {
	case <-generatorDone:
	case <-time.After(2 * time.Second):
		t.Fatal("generator was not drained after ForEach returned")
	}
}
