// place in: lib/discov
// Genuine violation 2 (round 10): an exclusive subscriber that JOINS a cluster already being watched gets
// the current set replayed from the cluster cache in Go map iteration order (Registry.Monitor ->
// cluster.getCurrent), so a value published by two live keys ends up under a RANDOM key, not under the
// most recent one; when the older key then expires the value vanishes from the joiner's view although
// the most recent key that published it is alive.  (Sibling of the round-7 finding about the initial
// snapshot, at another site: here the order is not even deterministic and the cache keeps no revision.)
// 64 joiners are used: with the classic Go map a 3-entry map is iterated in the bad order with probability 1/8 per joiner, so the test passes by luck with probability (7/8)^64 < 0.02%.
package discov

import (
	"context"
	"net"
	"sort"
	"sync"
	"testing"
	"time"

	"github.com/gotid/god/lib/logx"
	"go.etcd.io/etcd/api/v3/etcdserverpb"
	"go.etcd.io/etcd/api/v3/mvccpb"
	"google.golang.org/grpc"
)

func g2Has(s *Subscriber, v string) bool {
	for _, each := range s.Values() {
		if each == v {
			return true
		}
	}
	return false
}

func TestGenuineDemo(t *testing.T) {
	logx.Disable()
	const addr = "10.0.0.1:80"

	f := g2NewFakeEtcd()
	f.start(t)
	defer f.stop()
	first, err := NewSubscriber([]string{f.addr}, "svc", Exclusive())
	if err != nil {
		t.Fatal(err)
	}
	// delivered by the watch, in this order: svc/2 is the most recent key that published addr
	f.put("svc/1", addr)
	f.put("svc/2", addr)
	f.put("svc/s0", "s0")
	if !g2Eventually(5*time.Second, func() bool { return g2Has(first, "s0") }) {
		t.Fatal("precondition: watch events not processed")
	}

	// subscribers attached later: they see the current set at once ...
	var joiners []*Subscriber
	for i := 0; i < 64; i++ {
		s, err := NewSubscriber([]string{f.addr}, "svc", Exclusive())
		if err != nil {
			t.Fatal(err)
		}
		if got, want := g2SortedValues(s), []string{addr, "s0"}; !g2EqualStrings(got, want) {
			t.Fatalf("joiner %d sees %v at once, want %v", i, got, want)
		}
		joiners = append(joiners, s)
	}

	// ... then the OLDER key expires; svc/2 (most recent publisher of addr) stays
	f.del("svc/1")
	f.put("svc/s1", "s1")
	all := append([]*Subscriber{first}, joiners...)
	if !g2Eventually(5*time.Second, func() bool {
		for _, s := range all {
			if !g2Has(s, "s1") {
				return false
			}
		}
		return true
	}) {
		t.Fatal("precondition: watch events not processed")
	}

	want := []string{addr, "s0", "s1"} // registry: svc/2=addr, svc/s0, svc/s1
	if got := g2SortedValues(first); !g2EqualStrings(got, want) {
		t.Errorf("first subscriber lists %v, want %v", got, want)
	}
	var bad int
	for _, s := range joiners {
		if !g2EqualStrings(g2SortedValues(s), want) {
			bad++
		}
	}
	if bad > 0 {
		t.Errorf("svc/2=%s is alive and is the most recent key that published that value (the first subscriber "+
			"lists %v), but %d of %d exclusive subscribers that joined later lost the value when the OLDER key "+
			"svc/1 expired: the replay to a joiner runs in map iteration order", addr, g2SortedValues(first), bad, len(joiners))
	}
}

// ---- test scaffolding ----
// ---- minimal in-process etcd (KV.Range, Watch, Maintenance.Status) ----

type g2FakeWatcher struct {
	id       int64
	key, end string
	st       *g2FakeStream
}

type g2FakeStream struct {
	mu  sync.Mutex
	srv etcdserverpb.Watch_WatchServer
}

func (s *g2FakeStream) send(r *etcdserverpb.WatchResponse) {
	s.mu.Lock()
	defer s.mu.Unlock()
	_ = s.srv.Send(r)
}

type g2FakeEtcd struct {
	etcdserverpb.UnimplementedKVServer
	etcdserverpb.UnimplementedWatchServer
	etcdserverpb.UnimplementedMaintenanceServer

	mu       sync.Mutex
	rev      int64
	kvs      map[string]*mvccpb.KeyValue
	history  []*mvccpb.Event
	watchers map[*g2FakeWatcher]struct{}
	nextID   int64
	ranges   int
	// a watch (re)created with 0 < StartRevision <= cutoff gets no history replay:
	// the changes made while the server was down are visible only in a snapshot.
	cutoff int64

	addr string
	srv  *grpc.Server
}

func g2NewFakeEtcd() *g2FakeEtcd {
	return &g2FakeEtcd{rev: 1, kvs: map[string]*mvccpb.KeyValue{}, watchers: map[*g2FakeWatcher]struct{}{}}
}

func (f *g2FakeEtcd) start(t *testing.T) {
	addr := f.addr
	if addr == "" {
		addr = "127.0.0.1:0"
	}
	var lis net.Listener
	var err error
	for i := 0; i < 50; i++ {
		if lis, err = net.Listen("tcp", addr); err == nil {
			break
		}
		time.Sleep(20 * time.Millisecond)
	}
	if err != nil {
		t.Fatal(err)
	}
	f.addr = lis.Addr().String()
	srv := grpc.NewServer()
	etcdserverpb.RegisterKVServer(srv, f)
	etcdserverpb.RegisterWatchServer(srv, f)
	etcdserverpb.RegisterMaintenanceServer(srv, f)
	f.mu.Lock()
	f.srv = srv
	f.cutoff = f.rev
	f.mu.Unlock()
	go srv.Serve(lis)
}

func (f *g2FakeEtcd) stop() {
	f.mu.Lock()
	srv := f.srv
	f.watchers = map[*g2FakeWatcher]struct{}{}
	f.mu.Unlock()
	srv.Stop()
}

func (f *g2FakeEtcd) header() *etcdserverpb.ResponseHeader {
	return &etcdserverpb.ResponseHeader{ClusterId: 1, MemberId: 1, Revision: f.rev, RaftTerm: 1}
}

func g2InRange(k, key, end string) bool {
	if end == "" {
		return k == key
	}
	return k >= key && k < end
}

func (f *g2FakeEtcd) Status(context.Context, *etcdserverpb.StatusRequest) (*etcdserverpb.StatusResponse, error) {
	f.mu.Lock()
	defer f.mu.Unlock()
	return &etcdserverpb.StatusResponse{Header: f.header(), Version: "3.5.5"}, nil
}

func (f *g2FakeEtcd) Range(_ context.Context, r *etcdserverpb.RangeRequest) (*etcdserverpb.RangeResponse, error) {
	f.mu.Lock()
	defer f.mu.Unlock()
	f.ranges++
	var keys []string
	for k := range f.kvs {
		if g2InRange(k, string(r.Key), string(r.RangeEnd)) {
			keys = append(keys, k)
		}
	}
	sort.Strings(keys)
	resp := &etcdserverpb.RangeResponse{Header: f.header(), Count: int64(len(keys))}
	for _, k := range keys {
		kv := *f.kvs[k]
		resp.Kvs = append(resp.Kvs, &kv)
	}
	return resp, nil
}

func (f *g2FakeEtcd) rangeCount() int {
	f.mu.Lock()
	defer f.mu.Unlock()
	return f.ranges
}

func (f *g2FakeEtcd) Watch(srv etcdserverpb.Watch_WatchServer) error {
	st := &g2FakeStream{srv: srv}
	for {
		req, err := srv.Recv()
		if err != nil {
			return err
		}
		switch r := req.RequestUnion.(type) {
		case *etcdserverpb.WatchRequest_CreateRequest:
			cr := r.CreateRequest
			f.mu.Lock()
			f.nextID++
			w := &g2FakeWatcher{id: f.nextID, key: string(cr.Key), end: string(cr.RangeEnd), st: st}
			st.send(&etcdserverpb.WatchResponse{Header: f.header(), WatchId: w.id, Created: true})
			if cr.StartRevision > f.cutoff {
				var evs []*mvccpb.Event
				for _, e := range f.history {
					if e.Kv.ModRevision >= cr.StartRevision && g2InRange(string(e.Kv.Key), w.key, w.end) {
						evs = append(evs, e)
					}
				}
				if len(evs) > 0 {
					st.send(&etcdserverpb.WatchResponse{Header: f.header(), WatchId: w.id, Events: evs})
				}
			}
			f.watchers[w] = struct{}{}
			f.mu.Unlock()
		case *etcdserverpb.WatchRequest_CancelRequest:
			f.mu.Lock()
			for w := range f.watchers {
				if w.st == st && w.id == r.CancelRequest.WatchId {
					delete(f.watchers, w)
				}
			}
			st.send(&etcdserverpb.WatchResponse{Header: f.header(), WatchId: r.CancelRequest.WatchId, Canceled: true})
			f.mu.Unlock()
		}
	}
}

func (f *g2FakeEtcd) publish(evs ...*mvccpb.Event) {
	for w := range f.watchers {
		var mine []*mvccpb.Event
		for _, e := range evs {
			if g2InRange(string(e.Kv.Key), w.key, w.end) {
				mine = append(mine, e)
			}
		}
		if len(mine) > 0 {
			w.st.send(&etcdserverpb.WatchResponse{Header: f.header(), WatchId: w.id, Events: mine})
		}
	}
}

// put registers key=val (a publisher's lease key appearing).
func (f *g2FakeEtcd) put(key, val string) {
	f.mu.Lock()
	defer f.mu.Unlock()
	f.rev++
	kv := &mvccpb.KeyValue{Key: []byte(key), Value: []byte(val), CreateRevision: f.rev, ModRevision: f.rev, Version: 1}
	f.kvs[key] = kv
	e := &mvccpb.Event{Type: mvccpb.PUT, Kv: kv}
	f.history = append(f.history, e)
	f.publish(e)
}

// del removes key (a publisher's lease expiring / being revoked).
func (f *g2FakeEtcd) del(key string) {
	f.mu.Lock()
	defer f.mu.Unlock()
	if _, ok := f.kvs[key]; !ok {
		return
	}
	f.rev++
	delete(f.kvs, key)
	e := &mvccpb.Event{Type: mvccpb.DELETE, Kv: &mvccpb.KeyValue{Key: []byte(key), ModRevision: f.rev}}
	f.history = append(f.history, e)
	f.publish(e)
}

// outage stops the server, applies the changes nobody can observe, waits long enough for the
// client connection to report TRANSIENT_FAILURE, restarts the server on the same address and
// waits until the library has reloaded (one more Range per watched prefix).
func (f *g2FakeEtcd) outage(t *testing.T, prefixes int, during func()) {
	before := f.rangeCount()
	f.stop()
	during()
	time.Sleep(400 * time.Millisecond)
	f.start(t)
	deadline := time.Now().Add(12 * time.Second)
	for f.rangeCount() < before+prefixes {
		if time.Now().After(deadline) {
			t.Fatalf("library did not reload after the reconnect")
		}
		time.Sleep(20 * time.Millisecond)
	}
}

func g2SortedValues(s *Subscriber) []string {
	v := append([]string(nil), s.Values()...)
	sort.Strings(v)
	return v
}

func g2Eventually(d time.Duration, cond func() bool) bool {
	deadline := time.Now().Add(d)
	for time.Now().Before(deadline) {
		if cond() {
			return true
		}
		time.Sleep(10 * time.Millisecond)
	}
	return cond()
}

func g2EqualStrings(a, b []string) bool {
	if len(a) != len(b) {
		return false
	}
	for i := range a {
		if a[i] != b[i] {
			return false
		}
	}
	return true
}
