// place in: lib/discov
// Genuine violation 1 (round 10): exclusive mode - a key that expired and registered again WITH THE SAME
// VALUE while the watch was down is the most recent publisher of that value, but cluster.handleChanges
// diffs the reload snapshot against the cluster cache by (key, value) only, so the re-registration is
// invisible; when the other key of the value has gone too, the value disappears from the view although
// a live key (the most recent one that published it) carries it.
// The same history DELIVERED by the watch gives the right view (control part of the test).
// End-to-end against a minimal in-process etcd server (bottom of this file, scaffolding of round 7).
package discov

import (
	"context"
	"net"
	"sort"
	"sync"
	"testing"
	"time"

	"github.com/gotid/god/lib/logx"
	"go.etcd.io/etcd/api/v3/etcdserverpb"
	"go.etcd.io/etcd/api/v3/mvccpb"
	"google.golang.org/grpc"
)

func g1Has(s *Subscriber, v string) bool {
	for _, each := range s.Values() {
		if each == v {
			return true
		}
	}
	return false
}

func TestGenuineDemo(t *testing.T) {
	logx.Disable()
	const addr = "10.0.0.1:80"

	f := g1NewFakeEtcd()
	f.start(t)
	sub, err := NewSubscriber([]string{f.addr}, "svc", Exclusive())
	if err != nil {
		t.Fatal(err)
	}
	ctl, err := NewSubscriber([]string{f.addr}, "ctl", Exclusive())
	if err != nil {
		t.Fatal(err)
	}

	// both prefixes: instance with fixed id 1 publishes addr, then a second key publishes the same addr
	// and takes the value over (exclusive).  All of this is delivered by the watch.
	for _, p := range []string{"svc", "ctl"} {
		f.put(p+"/1", addr)
		f.put(p+"/2", addr)
		f.put(p+"/sentinel", "s0")
	}
	if !g1Eventually(5*time.Second, func() bool { return g1Has(sub, "s0") && g1Has(ctl, "s0") }) {
		t.Fatal("precondition: watch events not processed")
	}

	// the rest of the history, the same for both prefixes:
	//   key 1 expires and registers again with the same value (it is now the most recent key that
	//   published addr), then key 2 expires.
	history := func(p string) {
		f.del(p + "/1")
		f.put(p+"/1", addr)
		f.del(p + "/2")
	}

	// control: prefix ctl sees the history through the watch
	history("ctl")
	f.put("ctl/sentinel2", "s1")
	if !g1Eventually(5*time.Second, func() bool { return g1Has(ctl, "s1") }) {
		t.Fatal("precondition: control events not processed")
	}
	wantCtl := []string{addr, "s0", "s1"}
	if got := g1SortedValues(ctl); !g1EqualStrings(got, wantCtl) {
		t.Fatalf("control (history delivered by the watch): Values() = %v, want %v", got, wantCtl)
	}

	// prefix svc misses the same history during a disconnection and sees it only in the reload snapshot
	f.outage(t, 2, func() { history("svc") })

	want := []string{addr, "s0"} // registry: svc/1 = addr (most recent publisher of addr), svc/sentinel = s0
	if !g1Eventually(3*time.Second, func() bool { return g1EqualStrings(g1SortedValues(sub), want) }) {
		t.Fatalf("after the reload the registry holds svc/1=%s (the most recent key that published it) and "+
			"svc/sentinel=s0, but the exclusive subscriber lists %v (want %v); the same history delivered by the "+
			"watch gave %v on the control prefix", addr, g1SortedValues(sub), want, g1SortedValues(ctl))
	}
}

// ---- test scaffolding ----
// ---- minimal in-process etcd (KV.Range, Watch, Maintenance.Status) ----

type g1FakeWatcher struct {
	id       int64
	key, end string
	st       *g1FakeStream
}

type g1FakeStream struct {
	mu  sync.Mutex
	srv etcdserverpb.Watch_WatchServer
}

func (s *g1FakeStream) send(r *etcdserverpb.WatchResponse) {
	s.mu.Lock()
	defer s.mu.Unlock()
	_ = s.srv.Send(r)
}

type g1FakeEtcd struct {
	etcdserverpb.UnimplementedKVServer
	etcdserverpb.UnimplementedWatchServer
	etcdserverpb.UnimplementedMaintenanceServer

	mu       sync.Mutex
	rev      int64
	kvs      map[string]*mvccpb.KeyValue
	history  []*mvccpb.Event
	watchers map[*g1FakeWatcher]struct{}
	nextID   int64
	ranges   int
	// a watch (re)created with 0 < StartRevision <= cutoff gets no history replay:
	// the changes made while the server was down are visible only in a snapshot.
	cutoff int64

	addr string
	srv  *grpc.Server
}

func g1NewFakeEtcd() *g1FakeEtcd {
	return &g1FakeEtcd{rev: 1, kvs: map[string]*mvccpb.KeyValue{}, watchers: map[*g1FakeWatcher]struct{}{}}
}

func (f *g1FakeEtcd) start(t *testing.T) {
	addr := f.addr
	if addr == "" {
		addr = "127.0.0.1:0"
	}
	var lis net.Listener
	var err error
	for i := 0; i < 50; i++ {
		if lis, err = net.Listen("tcp", addr); err == nil {
			break
		}
		time.Sleep(20 * time.Millisecond)
	}
	if err != nil {
		t.Fatal(err)
	}
	f.addr = lis.Addr().String()
	srv := grpc.NewServer()
	etcdserverpb.RegisterKVServer(srv, f)
	etcdserverpb.RegisterWatchServer(srv, f)
	etcdserverpb.RegisterMaintenanceServer(srv, f)
	f.mu.Lock()
	f.srv = srv
	f.cutoff = f.rev
	f.mu.Unlock()
	go srv.Serve(lis)
}

func (f *g1FakeEtcd) stop() {
	f.mu.Lock()
	srv := f.srv
	f.watchers = map[*g1FakeWatcher]struct{}{}
	f.mu.Unlock()
	srv.Stop()
}

func (f *g1FakeEtcd) header() *etcdserverpb.ResponseHeader {
	return &etcdserverpb.ResponseHeader{ClusterId: 1, MemberId: 1, Revision: f.rev, RaftTerm: 1}
}

func g1InRange(k, key, end string) bool {
	if end == "" {
		return k == key
	}
	return k >= key && k < end
}

func (f *g1FakeEtcd) Status(context.Context, *etcdserverpb.StatusRequest) (*etcdserverpb.StatusResponse, error) {
	f.mu.Lock()
	defer f.mu.Unlock()
	return &etcdserverpb.StatusResponse{Header: f.header(), Version: "3.5.5"}, nil
}

func (f *g1FakeEtcd) Range(_ context.Context, r *etcdserverpb.RangeRequest) (*etcdserverpb.RangeResponse, error) {
	f.mu.Lock()
	defer f.mu.Unlock()
	f.ranges++
	var keys []string
	for k := range f.kvs {
		if g1InRange(k, string(r.Key), string(r.RangeEnd)) {
			keys = append(keys, k)
		}
	}
	sort.Strings(keys)
	resp := &etcdserverpb.RangeResponse{Header: f.header(), Count: int64(len(keys))}
	for _, k := range keys {
		kv := *f.kvs[k]
		resp.Kvs = append(resp.Kvs, &kv)
	}
	return resp, nil
}

func (f *g1FakeEtcd) rangeCount() int {
	f.mu.Lock()
	defer f.mu.Unlock()
	return f.ranges
}

func (f *g1FakeEtcd) Watch(srv etcdserverpb.Watch_WatchServer) error {
	st := &g1FakeStream{srv: srv}
	for {
		req, err := srv.Recv()
		if err != nil {
			return err
		}
		switch r := req.RequestUnion.(type) {
		case *etcdserverpb.WatchRequest_CreateRequest:
			cr := r.CreateRequest
			f.mu.Lock()
			f.nextID++
			w := &g1FakeWatcher{id: f.nextID, key: string(cr.Key), end: string(cr.RangeEnd), st: st}
			st.send(&etcdserverpb.WatchResponse{Header: f.header(), WatchId: w.id, Created: true})
			if cr.StartRevision > f.cutoff {
				var evs []*mvccpb.Event
				for _, e := range f.history {
					if e.Kv.ModRevision >= cr.StartRevision && g1InRange(string(e.Kv.Key), w.key, w.end) {
						evs = append(evs, e)
					}
				}
				if len(evs) > 0 {
					st.send(&etcdserverpb.WatchResponse{Header: f.header(), WatchId: w.id, Events: evs})
				}
			}
			f.watchers[w] = struct{}{}
			f.mu.Unlock()
		case *etcdserverpb.WatchRequest_CancelRequest:
			f.mu.Lock()
			for w := range f.watchers {
				if w.st == st && w.id == r.CancelRequest.WatchId {
					delete(f.watchers, w)
				}
			}
			st.send(&etcdserverpb.WatchResponse{Header: f.header(), WatchId: r.CancelRequest.WatchId, Canceled: true})
			f.mu.Unlock()
		}
	}
}

func (f *g1FakeEtcd) publish(evs ...*mvccpb.Event) {
	for w := range f.watchers {
		var mine []*mvccpb.Event
		for _, e := range evs {
			if g1InRange(string(e.Kv.Key), w.key, w.end) {
				mine = append(mine, e)
			}
		}
		if len(mine) > 0 {
			w.st.send(&etcdserverpb.WatchResponse{Header: f.header(), WatchId: w.id, Events: mine})
		}
	}
}

// put registers key=val (a publisher's lease key appearing).
func (f *g1FakeEtcd) put(key, val string) {
	f.mu.Lock()
	defer f.mu.Unlock()
	f.rev++
	kv := &mvccpb.KeyValue{Key: []byte(key), Value: []byte(val), CreateRevision: f.rev, ModRevision: f.rev, Version: 1}
	f.kvs[key] = kv
	e := &mvccpb.Event{Type: mvccpb.PUT, Kv: kv}
	f.history = append(f.history, e)
	f.publish(e)
}

// del removes key (a publisher's lease expiring / being revoked).
func (f *g1FakeEtcd) del(key string) {
	f.mu.Lock()
	defer f.mu.Unlock()
	if _, ok := f.kvs[key]; !ok {
		return
	}
	f.rev++
	delete(f.kvs, key)
	e := &mvccpb.Event{Type: mvccpb.DELETE, Kv: &mvccpb.KeyValue{Key: []byte(key), ModRevision: f.rev}}
	f.history = append(f.history, e)
	f.publish(e)
}

// outage stops the server, applies the changes nobody can observe, waits long enough for the
// client connection to report TRANSIENT_FAILURE, restarts the server on the same address and
// waits until the library has reloaded (one more Range per watched prefix).
func (f *g1FakeEtcd) outage(t *testing.T, prefixes int, during func()) {
	before := f.rangeCount()
	f.stop()
	during()
	time.Sleep(400 * time.Millisecond)
	f.start(t)
	deadline := time.Now().Add(12 * time.Second)
	for f.rangeCount() < before+prefixes {
		if time.Now().After(deadline) {
			t.Fatalf("library did not reload after the reconnect")
		}
		time.Sleep(20 * time.Millisecond)
	}
}

func g1SortedValues(s *Subscriber) []string {
	v := append([]string(nil), s.Values()...)
	sort.Strings(v)
	return v
}

func g1Eventually(d time.Duration, cond func() bool) bool {
	deadline := time.Now().Add(d)
	for time.Now().Before(deadline) {
		if cond() {
			return true
		}
		time.Sleep(10 * time.Millisecond)
	}
	return cond()
}

func g1EqualStrings(a, b []string) bool {
	if len(a) != len(b) {
		return false
	}
	for i := range a {
		if a[i] != b[i] {
			return false
		}
	}
	return true
}
