// place in: lib/limit
package limit

import (
	"testing"
	"time"

	"github.com/alicebob/miniredis/v2"
	"github.com/gotid/god/lib/store/redis"
)

// Genuine violation 1: a request for a NEGATIVE number of tokens is "granted" and
// mints tokens: it refills an exhausted bucket at once (and even stores more than
// `burst` tokens in Redis), so more than burst + rate*t events are admitted inside
// one caller second.
func TestGenuineDemo(t *testing.T) {
	s, err := miniredis.Run()
	if err != nil {
		t.Fatal(err)
	}
	defer s.Close()

	const (
		rate  = 1
		burst = 10
	)
	l := NewTokenLimiter(rate, burst, redis.New(s.Addr()), "genuine-neg")
	now := time.Unix(1_700_000_000, 0) // the caller's clock never moves: t = 0

	admitted := 0
	for i := 0; i < 3*burst; i++ {
		if l.AllowN(now, 1) {
			admitted++
		}
	}
	if admitted != burst {
		t.Fatalf("setup: expected exactly %d admissions from a full bucket, got %d", burst, admitted)
	}

	// the bucket is empty now; "-1000 tokens" are certainly not a legitimate refill
	l.AllowN(now, -1000)

	if v, err := s.Get("{genuine-neg}.tokens"); err == nil && v != "0" {
		t.Errorf("bucket of capacity %d holds %s tokens in Redis after AllowN(now, -1000)", burst, v)
	}

	for i := 0; i < 3*burst; i++ {
		if l.AllowN(now, 1) {
			admitted++
		}
	}
	if admitted > burst+rate*0 {
		t.Errorf("within ONE second (t=0) %d single-token events were admitted; the bound is burst + rate*t = %d",
			admitted, burst)
	}
}
