// place in: lib/limit
package limit

import (
	"testing"

	"github.com/alicebob/miniredis/v2"
	"github.com/gotid/god/lib/store/redis"
)

// Genuine violation 3 (boundary configuration): period = 0 is accepted by the
// constructor; the script then runs `EXPIRE key 0`, which deletes the counter at
// once, so every take is "the first one" and the limiter never limits. With
// Align() the same configuration panics (integer division by zero).
func TestGenuineDemo(t *testing.T) {
	s, err := miniredis.Run()
	if err != nil {
		t.Fatal(err)
	}
	defer s.Close()
	store := redis.New(s.Addr())

	const quota = 3
	l := NewPeriodLimit(0, quota, store, "genuine-p0:")
	allowed := 0
	for i := 0; i < 10*quota; i++ {
		code, err := l.Take("k")
		if err != nil {
			t.Fatal(err)
		}
		if code == Allowed {
			allowed++
		}
	}
	if allowed > quota-1 {
		t.Errorf("period=0, quota=%d: %d back-to-back takes of one key reported Allowed (at most %d may); "+
			"HitQuota / OverQuota are never reported", quota, allowed, quota-1)
	}

	func() {
		defer func() {
			if r := recover(); r != nil {
				t.Errorf("period=0 with Align(): Take panicked: %v", r)
			}
		}()
		_, _ = NewPeriodLimit(0, quota, store, "genuine-p0a:", Align()).Take("k")
	}()
}
