// place in: lib/limit
package limit

import (
	"net"
	"sync/atomic"
	"testing"
	"time"

	"github.com/alicebob/miniredis/v2"
	"github.com/gotid/god/lib/store/redis"
)

// lossyProxy forwards TCP traffic to backend. When *dropNext is 1, the next reply
// coming back from the backend is swallowed and the connection closed: the command
// HAS been executed by Redis, only its reply is lost (a one-packet network fault,
// a connection reset, a fail-over of a proxy in front of Redis ...).
func lossyProxy(t *testing.T, backend string, dropNext *int32) string {
	ln, err := net.Listen("tcp", "127.0.0.1:0")
	if err != nil {
		t.Fatal(err)
	}
	t.Cleanup(func() { ln.Close() })
	go func() {
		for {
			c, err := ln.Accept()
			if err != nil {
				return
			}
			b, err := net.Dial("tcp", backend)
			if err != nil {
				c.Close()
				continue
			}
			go func() { // client -> backend
				buf := make([]byte, 64<<10)
				for {
					n, err := c.Read(buf)
					if n > 0 {
						b.Write(buf[:n])
					}
					if err != nil {
						b.Close()
						return
					}
				}
			}()
			go func() { // backend -> client
				buf := make([]byte, 64<<10)
				for {
					n, err := b.Read(buf)
					if n > 0 {
						if atomic.CompareAndSwapInt32(dropNext, 1, 0) {
							c.Close()
							b.Close()
							return
						}
						c.Write(buf[:n])
					}
					if err != nil {
						c.Close()
						return
					}
				}
			}()
		}
	}()
	return ln.Addr().String()
}

// Genuine violation 2: the limiter scripts are not idempotent, but they are sent
// through a go-redis client configured with MaxRetries = 3 (lib/store/redis/
// clientmanager.go). When the reply of an EVAL is lost, go-redis silently re-sends
// the script: ONE Take is counted twice, ONE AllowN is charged twice.
func TestGenuineDemo(t *testing.T) {
	s, err := miniredis.Run()
	if err != nil {
		t.Fatal(err)
	}
	defer s.Close()

	var drop int32
	store := redis.New(lossyProxy(t, s.Addr(), &drop))
	if !store.Ping() {
		t.Fatal("setup: proxy does not forward")
	}

	// period limiter, quota 2: the first take of the window must be Allowed,
	// the second HitQuota.
	pl := NewPeriodLimit(3600, 2, store, "genuine-retry:")
	atomic.StoreInt32(&drop, 1) // the reply of the next command gets lost once
	code, err := pl.Take("k")
	counter, _ := s.Get("genuine-retry:k")
	if err != nil || code != Allowed {
		t.Errorf("period limiter, quota 2: the FIRST take of the window reported code=%d err=%v (want Allowed=%d); "+
			"the counter in Redis is %s after one Take", code, err, Allowed, counter)
	}

	// token limiter, burst 1: one token is available, a request for one token must be granted.
	tl := NewTokenLimiter(1, 1, store, "genuine-retry-tok")
	atomic.StoreInt32(&drop, 1)
	if !tl.AllowN(time.Unix(1_700_000_000, 0), 1) {
		t.Errorf("token limiter, burst 1, fresh bucket: a request for 1 token was DENIED although 1 token was available " +
			"(the script ran twice: the first run took the token, the retried run reported the denial)")
	}
}
