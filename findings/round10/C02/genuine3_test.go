// place in: rpc
package rpc

import (
	"context"
	"math"
	"testing"

	"github.com/gotid/god/lib/stat"
	"google.golang.org/grpc"
	"google.golang.org/grpc/status"
)

// ServerConfig.Timeout is an int64 number of milliseconds. setupInterceptors converts it
// with time.Duration(c.Timeout) * time.Millisecond, which silently overflows for
// Timeout > math.MaxInt64/1e6 (e.g. the "effectively unlimited" value math.MaxInt64)
// and yields a NEGATIVE duration. The `c.Timeout > 0` guard still installs the timeout
// interceptor, so every unary call - even one whose handler returns at once - is
// answered DeadlineExceeded and the handler's result is thrown away.
// (uses mockedServer from the package's existing server_test.go)
func TestGenuineDemo(t *testing.T) {
	for _, timeoutMs := range []int64{math.MaxInt64, math.MaxInt64/1000000 + 1} {
		server := new(mockedServer)
		if err := setupInterceptors(server, ServerConfig{Timeout: timeoutMs}, new(stat.Metrics)); err != nil {
			t.Fatal(err)
		}
		if len(server.unaryInterceptors) != 1 {
			t.Fatalf("want exactly the timeout interceptor, got %d interceptors", len(server.unaryInterceptors))
		}

		// 50 calls: the handler finishes immediately, far inside any positive deadline.
		for i := 0; i < 50; i++ {
			resp, err := server.unaryInterceptors[0](context.Background(), "req",
				&grpc.UnaryServerInfo{FullMethod: "/svc/Method"},
				func(ctx context.Context, req interface{}) (interface{}, error) {
					return "pong", nil
				})
			if err != nil || resp != "pong" {
				t.Fatalf("Timeout=%d ms: handler returned (\"pong\", nil) immediately, but call #%d got resp=%v, "+
					"status=%v (%v)", timeoutMs, i, resp, status.Code(err), err)
			}
		}
	}
}
