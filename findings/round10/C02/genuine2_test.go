// place in: api/handler
package handler

import (
	"io"
	"net/http"
	"net/http/httptest"
	"testing"
	"time"
)

// Default chain order: TimeoutHandler -> RecoverHandler -> handler.
// With a route timeout nothing reaches the client before the handler returns (the
// timeout writer buffers everything). A handler that wrote part of its body and then
// panics has therefore committed NOTHING to the client - yet the chain answers
// 200 with the truncated body, framed with a matching Content-Length so the client
// cannot even notice the truncation, instead of 500.
func TestGenuineDemo(t *testing.T) {
	var h http.Handler = http.HandlerFunc(func(w http.ResponseWriter, r *http.Request) {
		w.Header().Set("Content-Type", "application/json")
		io.WriteString(w, `{"items":[{"id":1},`)
		panic("boom while encoding item 2")
	})
	h = TimeoutHandler(time.Second)(RecoverHandler(h))

	srv := httptest.NewServer(h)
	defer srv.Close()

	resp, err := http.Get(srv.URL)
	if err != nil {
		t.Fatalf("no response: %v", err)
	}
	defer resp.Body.Close()
	body, rerr := io.ReadAll(resp.Body)
	if resp.StatusCode != http.StatusInternalServerError {
		t.Fatalf("handler panicked before a single byte was sent to the client, want 500; "+
			"got status %d, Content-Length %d, body %q (read err: %v) - a well-formed looking success carrying half a document",
			resp.StatusCode, resp.ContentLength, body, rerr)
	}
}
