// place in: api/handler
package handler

import (
	"io"
	"net/http"
	"net/http/httptest"
	"testing"
	"time"
)

// A handler announces its body (Content-Length / Content-Type) and then panics BEFORE
// committing anything. RecoverHandler answers 500 but leaves the handler's
// Content-Length in place, so the "500" promises N body bytes that never come:
// the client gets a truncated response (unexpected EOF) and the connection is torn down.
// Same result with and without the route timeout in front.
func TestGenuineDemo(t *testing.T) {
	for _, tc := range []struct {
		name    string
		timeout time.Duration
	}{
		{"recover only (Timeout=0)", 0},
		{"timeout + recover (default chain order)", time.Second},
	} {
		t.Run(tc.name, func(t *testing.T) {
			var h http.Handler = http.HandlerFunc(func(w http.ResponseWriter, r *http.Request) {
				payload := []byte(`{"hello":"world"}`)
				w.Header().Set("Content-Type", "application/json")
				w.Header().Set("Content-Length", "17")
				if r.URL.Query().Get("boom") != "" {
					panic("boom") // nothing written, nothing committed
				}
				w.Write(payload)
			})
			h = TimeoutHandler(tc.timeout)(RecoverHandler(h))

			srv := httptest.NewServer(h)
			defer srv.Close()

			resp, err := http.Get(srv.URL + "/?boom=1")
			if err != nil {
				t.Fatalf("no response at all: %v", err)
			}
			defer resp.Body.Close()
			if resp.StatusCode != http.StatusInternalServerError {
				t.Fatalf("status = %d, want 500", resp.StatusCode)
			}
			body, err := io.ReadAll(resp.Body)
			if err != nil {
				t.Fatalf("the 500 response is not a complete response: it declares Content-Length=%d "+
					"(left over from the panicked handler) but carries %d body bytes; reading it fails with: %v",
					resp.ContentLength, len(body), err)
			}
		})
	}
}
