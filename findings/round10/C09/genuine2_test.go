// place in: lib/collection
package collection

import (
	"strconv"
	"testing"
	"time"
)

// Only manifests where int is 32 bits wide: run with  GOARCH=386 go test -run TestGenuineDemo ./lib/collection/
// (on a 64-bit platform the test passes).
//
// spanAt converts the number of elapsed buckets to int BEFORE comparing it with the window size. After an idle
// gap of 2^32 bucket intervals (49.7 days for 1 ms buckets, 4.3 s for 1 us buckets ...) the conversion wraps to a
// small non-negative number, the gap looks like "same bucket", nothing is expired and a value that is older than
// the whole window is still observed (and new values are added on top of it).
func TestGenuineDemo(t *testing.T) {
	const size = 3
	interval := time.Millisecond
	r := NewRollingWindow(size, interval)
	r.Add(1)

	// simulate an idle gap of exactly 2^32 bucket intervals (in-package: move the bucket start into the past)
	r.lock.Lock()
	r.lastTime -= time.Duration(1<<32) * interval
	r.lock.Unlock()

	var sum float64
	var n int
	r.Reduce(func(b *Bucket) {
		sum += b.Sum
		n++
	})
	if sum != 0 {
		t.Fatalf("int is %d bits: after a gap of 2^32 bucket intervals (far longer than the %d-bucket window) Reduce still visits %d buckets and sees the old value: sum=%v, want 0",
			strconv.IntSize, size, n, sum)
	}

	r.Add(2)
	sum = 0
	r.Reduce(func(b *Bucket) { sum += b.Sum })
	if sum != 2 {
		t.Fatalf("after the gap and a new Add(2) the window sums to %v, want 2", sum)
	}
}
