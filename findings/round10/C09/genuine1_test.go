// place in: lib/load
package load

import (
	"testing"
	"time"

	"github.com/gotid/god/lib/logx"
)

// Default-shaped shedder (100 ms buckets -> exactly 10 buckets per second). The window holds one complete
// bucket with 10 passes of 290 ms each: capacity = 10 passes x 10 buckets/s x 0.290 s = 29 exactly.
// With 29 requests in flight (current and smoothed) nothing EXCEEDS the capacity, so an arriving request
// must be admitted even under overload. The shedder computes 10*10*(290/1e3) = 28.999999999999996,
// truncates it to 28 and rejects.
func TestGenuineDemo(t *testing.T) {
	logx.Disable()
	enabled.Set(true)

	oldChecker := systemOverloadChecker
	defer func() { systemOverloadChecker = oldChecker }()
	systemOverloadChecker = func(int64) bool { return true } // CPU over the threshold

	as, ok := NewAdaptiveShedder(WithWindow(2*time.Second), WithBuckets(20), WithCpuThreshold(900)).(*adaptiveShedder)
	if !ok {
		t.Fatal("expected an adaptive shedder")
	}
	if as.windows != 10 {
		t.Fatalf("test setup: expected exactly 10 buckets per second, got %v", as.windows)
	}

	// exactly what ten Pass() calls with a measured latency of 290 ms record
	for i := 0; i < 10; i++ {
		as.rtCounter.Add(290)
		as.passCounter.Add(1)
	}
	time.Sleep(130 * time.Millisecond) // the bucket is now complete (the current bucket is ignored)

	if mp, rt := as.maxPass(), as.minRt(); mp != 10 || rt != 290 {
		t.Fatalf("test setup: maxPass=%d minRt=%v, want 10 and 290", mp, rt)
	}

	const capacity = 29 // 10 * 10 * 290 / 1000
	if got := as.maxFlight(); got != capacity {
		t.Errorf("maxFlight() = %d, want %d (max passes 10 x 10 buckets/s x 0.290 s)", got, capacity)
	}

	as.flying = capacity
	as.avgFlying = capacity
	p, err := as.Allow()
	if err != nil {
		t.Fatalf("request rejected with %d in flight (smoothed %d) although the capacity estimated from the window is %d: %v",
			capacity, capacity, capacity, err)
	}
	p.Fail()
}
