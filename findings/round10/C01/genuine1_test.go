// place in: lib/breaker
package breaker

import (
	"testing"
	"time"
)

// TestGenuineDemo: the breaker must reject only when, over the TRAILING 10 s of recorded
// outcomes, (total - 5) > 1.5 x successes.  Here 100 successes are recorded ~9.9 s before the
// check and 30 failures ~9.8 s before the check: all 130 outcomes are inside the trailing 10 s,
// (130 - 5) = 125 <= 150 = 1.5 x 100, so no call may be rejected.  The library drops whole
// 250 ms buckets aligned to the breaker's creation time, so it has already forgotten the (older)
// successes while still counting the (younger) failures, and rejects.
func TestGenuineDemo(t *testing.T) {
	created := time.Now()
	b := New(WithName("genuine-bucket-granularity"))

	sleepUntil := func(d time.Duration) {
		if rest := d - time.Since(created); rest > 0 {
			time.Sleep(rest)
		}
	}

	// successes late in the first 250 ms bucket
	sleepUntil(200 * time.Millisecond)
	firstOutcome := time.Now()
	for i := 0; i < 100; i++ {
		if err := b.Do(func() error { return nil }); err != nil {
			t.Fatalf("unexpected rejection while only successes were recorded: %v", err)
		}
	}
	if time.Since(created) >= 245*time.Millisecond {
		t.Skip("machine too slow: successes did not fit into the first bucket")
	}

	// failures early in the second bucket
	sleepUntil(300 * time.Millisecond)
	for i := 0; i < 30; i++ {
		p, err := b.Allow()
		if err != nil {
			t.Fatalf("unexpected rejection: 100 successes / %d failures cannot trip the breaker: %v", i, err)
		}
		p.Reject("boom")
	}
	if time.Since(created) >= 490*time.Millisecond {
		t.Skip("machine too slow: failures did not fit into the second bucket")
	}

	// 10.1 s after creation: every outcome above is between 9.8 s and 9.9 s old
	sleepUntil(10100 * time.Millisecond)

	rejected := 0
	const attempts = 50
	for i := 0; i < attempts; i++ {
		p, err := b.Allow()
		if err != nil {
			rejected++
			continue
		}
		p.Accept()
	}
	age := time.Since(firstOutcome)
	if age >= 10*time.Second {
		t.Skipf("inconclusive: oldest outcome is already %v old", age)
	}
	if rejected > 0 {
		t.Fatalf("%d of %d calls were rejected although the oldest recorded outcome is only %v old: "+
			"over the trailing 10 s there are 100 successes and 30 failures, (130-5)=125 <= 1.5*100=150, "+
			"so the breaker must stay closed (it forgot the 9.9 s old successes but kept the 9.8 s old failures)",
			rejected, attempts, age)
	}
}
