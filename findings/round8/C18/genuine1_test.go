// place in: lib/syncx
package syncx

import (
	"math"
	"sync/atomic"
	"testing"
	"time"
)

// Pool.Get decides "idle beyond the maximum age" with
//     head.lastUsed+p.maxAge < timex.Now()
// For a very large maximum age (the usual "practically never" value
// time.Duration(math.MaxInt64), or anything above ~290 years) the addition
// overflows int64, becomes negative, and a resource that was put back a
// microsecond ago is destroyed instead of being reused.
func TestGenuineDemo(t *testing.T) {
	for _, maxAge := range []time.Duration{
		time.Duration(math.MaxInt64),
		time.Duration(math.MaxInt64) - 24*time.Hour,
	} {
		var seq int32
		var destroyed []int32
		pool := NewPool(2, func() any {
			return atomic.AddInt32(&seq, 1)
		}, func(x any) {
			destroyed = append(destroyed, x.(int32))
		}, WithMaxAge(maxAge))

		v1 := pool.Get().(int32)
		pool.Put(v1)
		v2 := pool.Get().(int32) // idle for microseconds, max age is ~292 years

		if v2 != v1 || len(destroyed) != 0 {
			t.Errorf("maxAge=%v: resource %d was idle for microseconds but Get destroyed it (destroyed=%v) and returned a newly created resource %d",
				maxAge, v1, destroyed, v2)
		}
	}
}
