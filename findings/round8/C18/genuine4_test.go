// place in: lib/syncx
package syncx

import (
	"fmt"
	"io"
	"testing"
)

type g4Closer struct{ closed int }

func (c *g4Closer) Close() error {
	c.closed++
	return nil
}

// A create function that answers (nil, nil) - "nothing to open, no error" -
// makes Get panic with "interface conversion: interface is nil" AFTER it has
// already stored the nil entry in the map. From then on Close() of the manager
// panics with a nil dereference in the middle of its loop, so the other,
// healthy resources of the manager are not (all) closed.
func TestGenuineDemo(t *testing.T) {
	m := NewResourceManager()

	good := make([]*g4Closer, 8)
	for i := range good {
		c := &g4Closer{}
		good[i] = c
		if _, err := m.Get(fmt.Sprintf("good-%d", i), func() (io.Closer, error) { return c, nil }); err != nil {
			t.Fatal(err)
		}
	}

	var getPanic any
	func() {
		defer func() { getPanic = recover() }()
		res, err := m.Get("odd", func() (io.Closer, error) { return nil, nil })
		t.Logf("Get(odd) = %v, %v", res, err)
	}()

	var closePanic any
	func() {
		defer func() { closePanic = recover() }()
		_ = m.Close()
	}()

	closed := 0
	for _, c := range good {
		closed += c.closed
	}

	if getPanic != nil || closePanic != nil || closed != len(good) {
		t.Fatalf("Get with create()=(nil,nil) panicked: %v\nClose panicked: %v\nhealthy resources closed by Close: %d of %d",
			getPanic, closePanic, closed, len(good))
	}
}
