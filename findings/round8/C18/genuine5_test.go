// place in: lib/syncx
package syncx

import "testing"

// A Clean() that arrives while the resource has no user (an unbalanced or an
// early Clean) silently drives the counter to -1. From then on the counter is
// off by one for ever: the resource is used once, released once - its uses drop
// to zero - and the clean callback is never run, and the resource keeps
// accepting Use().
func TestGenuineDemo(t *testing.T) {
	cleaned := 0
	r := NewRefResource(func() { cleaned++ })

	r.Clean() // no user yet: neither cleans (uses are zero) nor is ignored

	if err := r.Use(); err != nil {
		// would be fine if the early Clean had cleaned the resource
		if cleaned != 1 {
			t.Fatalf("Use refused (%v) but the resource was cleaned %d times", err, cleaned)
		}
		return
	}
	r.Clean() // uses drop 1 -> 0: the resource must be cleaned now

	if cleaned != 1 {
		ref := r.ref
		err := r.Use()
		t.Fatalf("uses dropped to zero but clean ran %d times (want 1); internal ref = %d; a further Use() returns %v",
			cleaned, ref, err)
	}
}
