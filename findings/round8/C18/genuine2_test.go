// place in: lib/syncx
package syncx

import (
	"testing"
	"time"
)

// A Limit of 0 must never have an outstanding borrow, and a Return that was not
// preceded by a borrow must be an error. NewLimit(0) builds an UNBUFFERED
// channel: a goroutine blocked in Borrow (send) rendezvouses with the receive
// in Return, so Return() of somebody who never borrowed answers nil and, at the
// same moment, the blocked Borrow() succeeds although the limit is 0.
func TestGenuineDemo(t *testing.T) {
	l := NewLimit(0)

	if l.TryBorrow() {
		t.Fatal("TryBorrow on a limit of 0 succeeded")
	}
	if err := l.Return(); err != ErrLimitReturn {
		t.Fatalf("sanity: Return on an idle limit = %v", err)
	}

	borrowed := make(chan struct{})
	go func() {
		l.Borrow() // limit is 0: must never get through
		close(borrowed)
	}()
	time.Sleep(100 * time.Millisecond) // let the borrower block

	// Nothing has been borrowed so far (capacity is 0), so this must be ErrLimitReturn.
	err := l.Return()

	got := false
	select {
	case <-borrowed:
		got = true
	case <-time.After(300 * time.Millisecond):
	}

	if err == nil || got {
		t.Fatalf("NewLimit(0): Return() without any borrow returned %v (want %v); the blocked Borrow() completed = %v (want false: a limit of 0 allows no outstanding borrow)",
			err, ErrLimitReturn, got)
	}
}
