// place in: lib/syncx
package syncx

import (
	"io"
	"testing"
)

type g3Closer struct {
	name   string
	closed int
}

func (c *g3Closer) Close() error {
	c.closed++
	return nil
}

// The manager created r1 for key "k" through Get. A later Set for the same key
// simply overwrites the map entry: r1 is dropped without being closed, and
// Close() of the manager never closes it either - "closes all of them on Close"
// is broken by a purely sequential Get, Set, Close.
func TestGenuineDemo(t *testing.T) {
	m := NewResourceManager()

	r1 := &g3Closer{name: "created-by-Get"}
	got, err := m.Get("k", func() (io.Closer, error) { return r1, nil })
	if err != nil || got != io.Closer(r1) {
		t.Fatalf("Get = %v, %v", got, err)
	}

	r2 := &g3Closer{name: "injected-by-Set"}
	m.Set("k", r2)

	if err := m.Close(); err != nil {
		t.Fatal(err)
	}

	if r1.closed != 1 || r2.closed != 1 {
		t.Fatalf("after Close: resource created by Get closed %d time(s), resource given to Set closed %d time(s); want 1 and 1 - the replaced resource is leaked",
			r1.closed, r2.closed)
	}
}
