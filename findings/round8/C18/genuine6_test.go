// place in: lib/syncx
package syncx

import (
	"sync/atomic"
	"testing"
	"time"
)

// Put does no accounting at all: a resource that was not obtained from Get
// (pre-seeding the pool, or putting a replacement for a broken resource) is
// simply pushed on the idle stack while `created` is left alone. The pool then
// owns more live resources than its limit.
func TestGenuineDemo(t *testing.T) {
	const limit = 2
	var live int32 // resources known to the pool and not destroyed
	pool := NewPool(limit, func() any {
		atomic.AddInt32(&live, 1)
		return new(int)
	}, func(any) {
		atomic.AddInt32(&live, -1)
	})

	// pre-seed the pool with two ready-made resources
	for i := 0; i < limit; i++ {
		atomic.AddInt32(&live, 1)
		pool.Put(new(int))
	}

	// a pool of limit 2 must block at the third Get (nothing is ever put back)
	got := make(chan any, 2*limit)
	go func() {
		for i := 0; i < 2*limit; i++ {
			got <- pool.Get()
		}
	}()

	held := make(map[any]bool)
collect:
	for {
		select {
		case x := <-got:
			held[x] = true
		case <-time.After(300 * time.Millisecond):
			break collect
		}
	}

	if len(held) > limit {
		t.Fatalf("pool with limit %d handed out %d distinct live resources at the same time (live=%d)",
			limit, len(held), atomic.LoadInt32(&live))
	}
}
