// place in: api/httpc
package httpc

import (
	"context"
	"math"
	"net/http"
	"net/http/httptest"
	"testing"

	"github.com/gotid/god/api/httpx"
	"github.com/gotid/god/api/router"
)

// A uint64 JSON value >= 2^63 is rejected by the server-side parser (it reads unsigned fields
// through json.Number.Int64), so the request the client sends cannot be parsed back.
func TestGenuineDemo(t *testing.T) {
	type Req struct {
		ID    uint64 `json:"id"`
		Limit uint64 `form:"limit"`
	}
	sent := Req{ID: math.MaxUint64, Limit: math.MaxUint64}

	var got Req
	var parseErr error
	rt := router.NewRouter()
	if err := rt.Handle(http.MethodPost, "/things", http.HandlerFunc(func(w http.ResponseWriter, r *http.Request) {
		parseErr = httpx.Parse(r, &got)
	})); err != nil {
		t.Fatal(err)
	}
	svr := httptest.NewServer(http.HandlerFunc(rt.ServeHTTP))
	defer svr.Close()

	resp, err := Do(context.Background(), http.MethodPost, svr.URL+"/things", sent)
	if err != nil {
		t.Fatalf("client refused: %v", err)
	}
	resp.Body.Close()

	if parseErr != nil {
		t.Fatalf("server could not parse back what the client sent (form part got limit=%d): %v", got.Limit, parseErr)
	}
	if got != sent {
		t.Fatalf("sent %+v, parsed %+v", sent, got)
	}
}
