// place in: api/httpc
package httpc

import (
	"context"
	"net/http"
	"net/http/httptest"
	"testing"
	"time"

	"github.com/gotid/god/api/httpx"
	"github.com/gotid/god/api/router"
)

// A time.Duration in the JSON part is written by the client as a number of nanoseconds,
// which the server-side parser refuses (it only takes "1s"-style text) - even for the zero value
// of an optional field.
func TestGenuineDemo(t *testing.T) {
	type Req struct {
		Name    string        `json:"name"`
		Timeout time.Duration `json:"timeout,optional"`
	}

	for _, sent := range []Req{{Name: "a", Timeout: 3 * time.Second}, {Name: "b"}} {
		var got Req
		var parseErr error
		rt := router.NewRouter()
		if err := rt.Handle(http.MethodPost, "/jobs", http.HandlerFunc(func(w http.ResponseWriter, r *http.Request) {
			parseErr = httpx.Parse(r, &got)
		})); err != nil {
			t.Fatal(err)
		}
		svr := httptest.NewServer(http.HandlerFunc(rt.ServeHTTP))

		resp, err := Do(context.Background(), http.MethodPost, svr.URL+"/jobs", sent)
		if err != nil {
			t.Fatalf("client refused: %v", err)
		}
		resp.Body.Close()
		svr.Close()

		if parseErr != nil {
			t.Errorf("sent %+v: server could not parse it back: %v", sent, parseErr)
		} else if got != sent {
			t.Errorf("sent %+v, parsed %+v", sent, got)
		}
	}
}
