// place in: lib/mapping
package mapping

import "testing"

type genuine3Rule struct {
	Action string `json:"action,options=allow|deny"`
	Weight int    `json:"weight,range=[1:5]"`
	Proto  string `json:"proto,default=tcp"`
	Name   string `json:"name"` // required
}

// A map field may be given as a string holding a JSON object (that is how form / header / path
// parts carry it).  That string is decoded by encoding/json straight into the field, so none of the
// mapping rules (options=, range=, required, default=) are applied to what is inside.
func TestGenuineDemo(t *testing.T) {
	asObject := `{"rules":{"r1":{"action":"explode","weight":99}}}`
	asString := `{"rules":"{\"r1\":{\"action\":\"explode\",\"weight\":99}} trailing garbage"}`

	var a struct {
		Rules map[string]genuine3Rule `json:"rules"`
	}
	if err := UnmarshalJsonBytes([]byte(asObject), &a); err == nil {
		t.Fatalf("object form unexpectedly accepted: %+v", a)
	}

	var b struct {
		Rules map[string]genuine3Rule `json:"rules"`
	}
	if err := UnmarshalJsonBytes([]byte(asString), &b); err == nil {
		t.Errorf("string-encoded form accepted: %+v\n  action outside options=allow|deny, weight outside range=[1:5], "+
			"required name absent, default proto=tcp not applied, trailing garbage ignored", b.Rules["r1"])
	}

	// the same through the form unmarshaler (the realistic route)
	var c struct {
		Rules map[string]genuine3Rule `form:"rules"`
	}
	form := NewUnmarshaler("form", WithStringValues())
	if err := form.Unmarshal(map[string]any{"rules": `{"r1":{"action":"explode","weight":99}}`}, &c); err == nil {
		t.Errorf("form value accepted: %+v", c.Rules["r1"])
	}
}
