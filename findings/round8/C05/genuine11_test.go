// place in: lib/conf
package conf

import "testing"

// Config keys that differ from the field only in the case of a non-ASCII initial letter,
// or that are the usual snake_case spelling of a field with an acronym, are not recognised.
func TestGenuineDemo(t *testing.T) {
	var a struct {
		Élan int `json:",optional"`
		Name string
	}
	if err := LoadFromJsonBytes([]byte(`{"élan": 3, "name": "x"}`), &a); err != nil {
		t.Errorf("lower-case initial: %v", err)
	} else if a.Élan != 3 {
		t.Errorf(`key "élan" silently ignored for optional field Élan (got %d, want 3) although "name" is accepted for Name`, a.Élan)
	}

	var b struct {
		UserID int `json:",optional"`
	}
	if err := LoadFromYamlBytes([]byte("user_id: 7\n"), &b); err != nil {
		t.Errorf("snake_case: %v", err)
	} else if b.UserID != 7 {
		t.Errorf(`snake_case key "user_id" silently ignored for optional field UserID (got %d, want 7); only "user_i_d" works`, b.UserID)
	}
}
