// place in: lib/mapping
package mapping

import (
	"fmt"
	"testing"
)

// A map field whose elements are pointers to a list or to an object (map[string]*[]T,
// map[string]*map[K]V) panics on perfectly well-typed documents.
func TestGenuineDemo(t *testing.T) {
	run := func(name string, f func() error) {
		defer func() {
			if r := recover(); r != nil {
				t.Errorf("%s: Unmarshal PANICKED: %v", name, r)
			}
		}()
		if err := f(); err != nil {
			t.Logf("%s: error (acceptable): %v", name, err)
		}
	}

	run(`map[string]*[]int      <- {"m":{"a":[]}}`, func() error {
		var v struct {
			M map[string]*[]int `json:"m"`
		}
		err := UnmarshalJsonBytes([]byte(`{"m":{"a":[]}}`), &v)
		if err == nil && (v.M["a"] == nil || len(*v.M["a"]) != 0) {
			return fmt.Errorf("wrong value %v", v.M)
		}
		return err
	})
	run(`map[string]*[]int      <- {"m":{"a":[null]}}`, func() error {
		var v struct {
			M map[string]*[]int `json:"m"`
		}
		return UnmarshalJsonBytes([]byte(`{"m":{"a":[null]}}`), &v)
	})
	run(`map[string]*map[string]int <- {"m":{"a":{"b":1}}}`, func() error {
		var v struct {
			M map[string]*map[string]int `json:"m"`
		}
		err := UnmarshalJsonBytes([]byte(`{"m":{"a":{"b":1}}}`), &v)
		if err == nil && (v.M["a"] == nil || (*v.M["a"])["b"] != 1) {
			return fmt.Errorf("wrong value %v", v.M)
		}
		return err
	})
	run(`yaml: map[string]*map[string]string`, func() error {
		var v struct {
			Labels map[string]*map[string]string `json:"labels"`
		}
		return UnmarshalYamlBytes([]byte("labels:\n  svc:\n    tier: web\n"), &v)
	})
}
