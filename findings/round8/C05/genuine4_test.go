// place in: lib/mapping
package mapping

import (
	"math"
	"testing"
)

// NaN passes every range= check because all comparisons with NaN are false.
func TestGenuineDemo(t *testing.T) {
	form := NewUnmarshaler("form", WithStringValues())

	var v struct {
		Ratio float64 `form:"ratio,range=[0:1]"`
	}
	err := form.Unmarshal(map[string]any{"ratio": "NaN"}, &v)
	if err == nil {
		t.Errorf("form ratio=NaN accepted into a field declared range=[0:1]: got %v (IsNaN=%v)", v.Ratio, math.IsNaN(v.Ratio))
	}

	var w struct {
		Ratio *float32 `json:"ratio,string,range=(0:1)"`
	}
	if err := UnmarshalJsonBytes([]byte(`{"ratio":"nan"}`), &w); err == nil {
		t.Errorf(`json {"ratio":"nan"} accepted into a ",string,range=(0:1)" field: got %v`, *w.Ratio)
	}

	// sanity: an ordinary out-of-range value is rejected on the same path
	var x struct {
		Ratio float64 `form:"ratio,range=[0:1]"`
	}
	if err := form.Unmarshal(map[string]any{"ratio": "1.5"}, &x); err == nil {
		t.Errorf("1.5 accepted")
	}
}
