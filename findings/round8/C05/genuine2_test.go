// place in: lib/mapping
package mapping

import (
	"testing"
	"time"
)

// options= is not enforced for time.Duration fields.
func TestGenuineDemo(t *testing.T) {
	var v struct {
		Interval time.Duration  `json:"interval,options=1s|5s"`
		Backoff  *time.Duration `json:"backoff,options=1s|5s"`
	}
	err := UnmarshalJsonBytes([]byte(`{"interval":"3h","backoff":"72h"}`), &v)
	if err == nil {
		t.Errorf("interval=%v backoff=%v accepted although the fields declare options=1s|5s", v.Interval, *v.Backoff)
	}

	// the same options on a string field are enforced
	var s struct {
		Interval string `json:"interval,options=1s|5s"`
	}
	if err := UnmarshalJsonBytes([]byte(`{"interval":"3h"}`), &s); err == nil {
		t.Errorf("string field: options not enforced either")
	}

	// an allowed value must of course still be accepted
	var ok struct {
		Interval time.Duration `json:"interval,options=1s|5s"`
	}
	if err := UnmarshalJsonBytes([]byte(`{"interval":"5s"}`), &ok); err != nil || ok.Interval != 5*time.Second {
		t.Errorf("allowed value rejected: %v %v", ok.Interval, err)
	}
}
