// place in: lib/mapping
package mapping

import "testing"

// Inside lists and maps JSON numbers are accepted for bool and string elements
// (1 -> true, 12 -> "12"), although the same ill-typed value is a type mismatch for a scalar field.
// With the `string` tag option a string *field* takes numbers too, and then the JSON and the YAML
// spelling of the same document give different structs.
func TestGenuineDemo(t *testing.T) {
	var scalar struct {
		On bool `json:"on"`
	}
	if err := UnmarshalJsonBytes([]byte(`{"on":1}`), &scalar); err == nil {
		t.Fatalf("scalar bool accepted 1")
	}

	var v struct {
		Flags []bool            `json:"flags"`
		Names []string          `json:"names"`
		Set   map[string]bool   `json:"set"`
		Tags  map[string]string `json:"tags"`
	}
	err := UnmarshalJsonBytes([]byte(`{"flags":[1,0],"names":[12,3.50],"set":{"a":1},"tags":{"k":1e3}}`), &v)
	if err == nil {
		t.Errorf("ill-typed elements accepted: %+v", v)
	}

	type S struct {
		Code string `json:"code,string"`
	}
	var j, y S
	ej := UnmarshalJsonBytes([]byte(`{"code": 1e3}`), &j)
	ey := UnmarshalYamlBytes([]byte(`{"code": 1e3}`), &y)
	if ej == nil || ey == nil {
		if j != y {
			t.Errorf("same document, JSON gives %+v (err %v), YAML gives %+v (err %v)", j, ej, y, ey)
		}
	}
}
