// place in: lib/mapping
package mapping

import "testing"

// range= is checked on a float64 copy of the number, so 64-bit integers just outside the
// declared range are accepted (and stored exactly - i.e. outside the range).
func TestGenuineDemo(t *testing.T) {
	var v struct {
		Offset int64 `json:"offset,range=[0:9007199254740992]"` // 2^53
	}
	if err := UnmarshalJsonBytes([]byte(`{"offset":9007199254740993}`), &v); err == nil {
		t.Errorf("offset=%d accepted, declared range=[0:9007199254740992]", v.Offset)
	}

	var w struct {
		ID uint64 `form:"id,range=[1:9223372036854775807)"` // right-open at MaxInt64
	}
	form := NewUnmarshaler("form", WithStringValues())
	if err := form.Unmarshal(map[string]any{"id": "9223372036854775806"}, &w); err != nil {
		t.Errorf("id=9223372036854775806 rejected although it lies inside [1:9223372036854775807): %v", err)
	}
}
