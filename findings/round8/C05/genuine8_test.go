// place in: api/httpc
package httpc

import (
	"context"
	"net/http"
	"net/http/httptest"
	"testing"

	"github.com/gotid/god/api/httpx"
	"github.com/gotid/god/api/router"
)

type Genuine8Paging struct {
	Page int `form:"page,optional"`
	Size int `form:"size,default=10"`
}

type Genuine8Audit struct {
	Operator string `json:"operator,optional"`
}

// The members of an anonymous (embedded) struct are silently left out of the request by the client,
// although the server-side parser expands embedded structs.
func TestGenuineDemo(t *testing.T) {
	type Req struct {
		Genuine8Paging
		Genuine8Audit
		Keyword string `form:"keyword"`
	}
	sent := Req{
		Genuine8Paging: Genuine8Paging{Page: 7, Size: 50},
		Genuine8Audit:  Genuine8Audit{Operator: "alice"},
		Keyword:        "x",
	}

	var got Req
	var parseErr error
	var rawQuery string
	rt := router.NewRouter()
	if err := rt.Handle(http.MethodPost, "/search", http.HandlerFunc(func(w http.ResponseWriter, r *http.Request) {
		rawQuery = r.URL.RawQuery
		parseErr = httpx.Parse(r, &got)
	})); err != nil {
		t.Fatal(err)
	}
	svr := httptest.NewServer(http.HandlerFunc(rt.ServeHTTP))
	defer svr.Close()

	resp, err := Do(context.Background(), http.MethodPost, svr.URL+"/search", sent)
	if err != nil {
		t.Fatalf("client refused: %v", err)
	}
	resp.Body.Close()

	if parseErr != nil {
		t.Fatalf("server could not parse the request back: %v", parseErr)
	}
	if got != sent {
		t.Fatalf("query sent: %q\n  sent   %+v\n  parsed %+v  (embedded members lost without any error)", rawQuery, sent, got)
	}
}
