// place in: api/httpc
package httpc

import (
	"context"
	"net/http"
	"net/http/httptest"
	"reflect"
	"testing"

	"github.com/gotid/god/api/httpx"
	"github.com/gotid/god/api/router"
)

// A pointer field that carries the `string` tag option is still sent as its memory address
// ("0xc000012345"), in the JSON part as well as in the form part.
func TestGenuineDemo(t *testing.T) {
	type Req struct {
		Page *int `json:"page,string"`
		Size *int `form:"size,string"`
	}
	page, size := 3, 20
	sent := Req{Page: &page, Size: &size}

	var got Req
	var parseErr error
	var rawQuery string
	rt := router.NewRouter()
	if err := rt.Handle(http.MethodPost, "/list", http.HandlerFunc(func(w http.ResponseWriter, r *http.Request) {
		rawQuery = r.URL.RawQuery
		parseErr = httpx.Parse(r, &got)
	})); err != nil {
		t.Fatal(err)
	}
	svr := httptest.NewServer(http.HandlerFunc(rt.ServeHTTP))
	defer svr.Close()

	resp, err := Do(context.Background(), http.MethodPost, svr.URL+"/list", sent)
	if err != nil {
		t.Fatalf("client refused: %v", err)
	}
	resp.Body.Close()

	if parseErr != nil {
		t.Fatalf("server could not parse back what the client sent (query %q): %v", rawQuery, parseErr)
	}
	if !reflect.DeepEqual(got, sent) {
		t.Fatalf("sent page=%d size=%d, parsed %+v", page, size, got)
	}
}
