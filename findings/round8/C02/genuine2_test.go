// place in: rpc/internal/serverinterceptors
package serverinterceptors

import (
	"context"
	"sync/atomic"
	"testing"
	"time"

	"github.com/gotid/god/lib/stat"
	"google.golang.org/grpc"
	"google.golang.org/grpc/codes"
	"google.golang.org/grpc/status"
)

// probeReq notices when the chain serialises it while the handler goroutine still owns it.
type probeReq struct {
	inHandler int32
	overlap   int32
	Labels    map[string]string
}

func (p *probeReq) MarshalJSON() ([]byte, error) {
	if atomic.LoadInt32(&p.inHandler) == 1 {
		atomic.StoreInt32(&p.overlap, 1)
	}
	return []byte(`{}`), nil
}

// rpc/internal/server.go chains  ... Crash -> Stat -> Prometheus -> Breaker -> [Shedding] -> Timeout -> handler.
// At the deadline the timeout interceptor returns while the handler goroutine keeps running
// with the very same request message; the stat interceptor (outside the timeout interceptor)
// then runs json.Marshal(req) for its access log - concurrently with the handler.
// A handler that touches a map field of its request after the deadline therefore races with
// a map iteration: "fatal error: concurrent map iteration and map write" is not a panic, no
// crash interceptor can recover it, the whole server process dies.
func TestGenuineDemo(t *testing.T) {
	metrics := stat.NewMetrics("c02-demo")
	statIc := UnaryStatInterceptor(metrics)
	timeoutIc := UnaryTimeoutInterceptor(20 * time.Millisecond)
	info := &grpc.UnaryServerInfo{FullMethod: "/demo.Svc/Call"}

	req := &probeReq{Labels: map[string]string{}}
	handlerDone := make(chan struct{})
	handler := func(ctx context.Context, r interface{}) (interface{}, error) {
		defer close(handlerDone)
		p := r.(*probeReq)
		atomic.StoreInt32(&p.inHandler, 1)
		defer atomic.StoreInt32(&p.inHandler, 0)
		time.Sleep(200 * time.Millisecond) // overruns the 20ms deadline, still working on its request
		return "late", nil
	}

	_, err := statIc(context.Background(), req, info, func(ctx context.Context, r interface{}) (interface{}, error) {
		return timeoutIc(ctx, r, info, handler)
	})
	if status.Code(err) != codes.DeadlineExceeded {
		t.Fatalf("want DeadlineExceeded, got %v", err)
	}
	<-handlerDone

	if atomic.LoadInt32(&req.overlap) == 1 {
		t.Errorf("the stat interceptor serialised the request message (json.Marshal(req)) at the deadline " +
			"while the timed-out handler goroutine was still running with it: unsynchronised concurrent " +
			"access; with a map field in the request this is a fatal 'concurrent map iteration and map write' " +
			"that no recover() can stop")
	}
}
