// place in: api
package api

import (
	"io"
	"net/http"
	"net/http/httptest"
	"testing"
	"time"

	"github.com/gotid/god/api/router"
)

// Any client can switch the route timeout off for any ordinary route by adding the
// request header "Upgrade: websocket" to a plain GET: the default chain then runs the
// handler without a deadline, and the client receives the late handler response
// instead of the 503 timeout response.
func TestGenuineDemo(t *testing.T) {
	const timeoutMs = 100
	ng := newEngine(Config{Timeout: timeoutMs, MaxConns: 100, MaxBytes: 1 << 20})
	ng.addRoutes(featuredRoutes{routes: []Route{{
		Method: http.MethodGet,
		Path:   "/slow",
		Handler: func(w http.ResponseWriter, r *http.Request) {
			// an ordinary (non-websocket) handler that overruns the route timeout 5 times
			time.Sleep(5 * timeoutMs * time.Millisecond)
			w.Header().Set("X-Handler", "late")
			w.Write([]byte("late handler output"))
		},
	}}})
	rt := router.NewRouter()
	if err := ng.bindRoutes(rt); err != nil {
		t.Fatal(err)
	}
	srv := httptest.NewServer(rt)
	defer srv.Close()

	do := func(upgrade bool) (int, string, time.Duration) {
		req, _ := http.NewRequest(http.MethodGet, srv.URL+"/slow", nil)
		if upgrade {
			req.Header.Set("Upgrade", "websocket") // no "Connection: Upgrade", no websocket key: just a header
		}
		start := time.Now()
		resp, err := http.DefaultClient.Do(req)
		if err != nil {
			t.Fatal(err)
		}
		defer resp.Body.Close()
		b, _ := io.ReadAll(resp.Body)
		return resp.StatusCode, string(b), time.Since(start)
	}

	code, body, took := do(false)
	if code != http.StatusServiceUnavailable {
		t.Fatalf("control: plain request: want 503 at the %dms deadline, got %d %q after %v", timeoutMs, code, body, took)
	}

	code, body, took = do(true)
	if code != http.StatusServiceUnavailable || took > 4*timeoutMs*time.Millisecond {
		t.Errorf("request with header 'Upgrade: websocket' on a route with Timeout=%dms: "+
			"want the 503 timeout response at the deadline, got %d %q after %v "+
			"(the handler ran unbounded and its late output reached the client)",
			timeoutMs, code, body, took)
	}
}
