// place in: api
package api

import (
	"io"
	"net/http"
	"net/http/httptest"
	"testing"

	"github.com/gotid/god/api/router"
)

// The handler's response headers are those present when it commits the status
// (net/http: "changing the header map after a call to WriteHeader or Write has no
// effect", except for declared trailers, which are sent as trailers only).
// The timeout writer copies the header map only after the handler has returned, so
//   - headers the handler (or a middleware below the timeout guard) changes AFTER the
//     commit are sent / removed anyway,
//   - a declared trailer is sent twice: as an ordinary response header and as trailer.
// The same handler behind the same chain without route timeout behaves as net/http documents.
func TestGenuineDemo(t *testing.T) {
	serve := func(timeoutMs int64, path string) *http.Response {
		ng := newEngine(Config{Timeout: timeoutMs, MaxConns: 100, MaxBytes: 1 << 20})
		ng.addRoutes(featuredRoutes{routes: []Route{
			{Method: http.MethodGet, Path: "/late", Handler: func(w http.ResponseWriter, r *http.Request) {
				w.Header().Set("Content-Type", "application/json")
				w.Header().Set("X-Committed", "yes")
				w.WriteHeader(http.StatusCreated)
				w.Write([]byte(`{"ok":true}`))
				// after the commit: must not change the response any more
				w.Header().Set("Content-Type", "text/plain")
				w.Header().Set("X-After-Commit", "leaked")
				w.Header().Del("X-Committed")
			}},
			{Method: http.MethodGet, Path: "/trailer", Handler: func(w http.ResponseWriter, r *http.Request) {
				w.Header().Set("Trailer", "X-Checksum")
				w.WriteHeader(http.StatusOK)
				w.Write([]byte("payload"))
				w.Header().Set("X-Checksum", "abc123") // trailer value, known after the body
			}},
		}})
		rt := router.NewRouter()
		if err := ng.bindRoutes(rt); err != nil {
			t.Fatal(err)
		}
		srv := httptest.NewServer(rt)
		defer srv.Close()
		resp, err := http.Get(srv.URL + path)
		if err != nil {
			t.Fatal(err)
		}
		io.ReadAll(resp.Body) // populates resp.Trailer
		resp.Body.Close()
		return resp
	}

	for _, timeoutMs := range []int64{0, 10000} {
		resp := serve(timeoutMs, "/late")
		if resp.StatusCode != http.StatusCreated {
			t.Fatalf("Timeout=%d /late: status %d", timeoutMs, resp.StatusCode)
		}
		if ct := resp.Header.Get("Content-Type"); ct != "application/json" {
			t.Errorf("Timeout=%dms /late: Content-Type committed as application/json, client got %q", timeoutMs, ct)
		}
		if v := resp.Header.Get("X-After-Commit"); v != "" {
			t.Errorf("Timeout=%dms /late: header set after WriteHeader+Write reached the client: X-After-Commit=%q", timeoutMs, v)
		}
		if v := resp.Header.Get("X-Committed"); v != "yes" {
			t.Errorf("Timeout=%dms /late: committed header X-Committed lost (got %q) because it was deleted after the commit", timeoutMs, v)
		}

		resp = serve(timeoutMs, "/trailer")
		if v := resp.Trailer.Get("X-Checksum"); v != "abc123" {
			t.Errorf("Timeout=%dms /trailer: trailer X-Checksum=%q, want abc123", timeoutMs, v)
		}
		if v := resp.Header.Get("X-Checksum"); v != "" {
			t.Errorf("Timeout=%dms /trailer: declared trailer was ALSO sent as a response header X-Checksum=%q", timeoutMs, v)
		}
	}
}
