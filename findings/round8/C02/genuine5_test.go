// place in: api/handler
package handler

import (
	"net/http"
	"net/http/httptest"
	"sync/atomic"
	"testing"
	"time"
)

type pushRecorder struct {
	*httptest.ResponseRecorder
	pushes int32
}

func (p *pushRecorder) Push(target string, opts *http.PushOptions) error {
	atomic.AddInt32(&p.pushes, 1)
	return nil
}

// After the deadline the timeout writer refuses Write and WriteHeader, but Push is still
// forwarded to the real (HTTP/2) ResponseWriter: a handler that overran the deadline can
// still make the server send PUSH_PROMISE + pushed responses to the client, and it touches
// the underlying ResponseWriter after the outer ServeHTTP has returned (which net/http forbids).
func TestGenuineDemo(t *testing.T) {
	release := make(chan struct{})
	finished := make(chan error, 1)
	h := TimeoutHandler(20 * time.Millisecond)(http.HandlerFunc(func(w http.ResponseWriter, r *http.Request) {
		<-release // overrun the deadline
		if _, err := w.Write([]byte("late")); err != http.ErrHandlerTimeout {
			finished <- nil
			t.Errorf("control: late Write should be refused, got %v", err)
			return
		}
		finished <- w.(http.Pusher).Push("/static/app.js", nil)
	}))

	rec := &pushRecorder{ResponseRecorder: httptest.NewRecorder()}
	h.ServeHTTP(rec, httptest.NewRequest(http.MethodGet, "http://localhost/", http.NoBody))
	if rec.Code != http.StatusServiceUnavailable {
		t.Fatalf("want 503 timeout response, got %d", rec.Code)
	}
	// the request is over: the client has its one (timeout) response
	close(release)
	err := <-finished
	if n := atomic.LoadInt32(&rec.pushes); n != 0 || err == nil {
		t.Errorf("after the 503 timeout response was sent, the handler's Push was forwarded to the "+
			"connection %d time(s) (Push returned %v); want it refused like Write/WriteHeader (http.ErrHandlerTimeout)", n, err)
	}
}
