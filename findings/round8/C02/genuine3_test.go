// place in: api
package api

import (
	"io"
	"net/http"
	"net/http/httptest"
	"testing"

	"github.com/gotid/god/api/router"
)

// net/http accepts every three-digit status (100..999) in ResponseWriter.WriteHeader,
// and the REST chain delivers such a status unchanged when no route timeout is set.
// With a route timeout the timeout writer only accepts 100..599: it panics inside the
// handler's WriteHeader call, the recover guard turns that into 500, and the client
// receives 500 with an empty body although the handler finished long before the deadline.
func TestGenuineDemo(t *testing.T) {
	const status = 799
	serve := func(timeoutMs int64) (int, string) {
		ng := newEngine(Config{Timeout: timeoutMs, MaxConns: 100, MaxBytes: 1 << 20})
		ng.addRoutes(featuredRoutes{routes: []Route{{
			Method: http.MethodGet,
			Path:   "/custom",
			Handler: func(w http.ResponseWriter, r *http.Request) {
				w.Header().Set("X-Handler", "1")
				w.WriteHeader(status) // explicit, legal for net/http
				w.Write([]byte("custom status body"))
			},
		}}})
		rt := router.NewRouter()
		if err := ng.bindRoutes(rt); err != nil {
			t.Fatal(err)
		}
		srv := httptest.NewServer(rt)
		defer srv.Close()
		resp, err := http.Get(srv.URL + "/custom")
		if err != nil {
			t.Fatal(err)
		}
		defer resp.Body.Close()
		b, _ := io.ReadAll(resp.Body)
		return resp.StatusCode, string(b)
	}

	// control: same chain without a route timeout delivers the handler's response
	if code, body := serve(0); code != status || body != "custom status body" {
		t.Fatalf("control (Timeout=0): want %d, got %d %q", status, code, body)
	}

	// with a generous timeout (10s) the handler finishes in time, yet the client gets 500
	if code, body := serve(10000); code != status || body != "custom status body" {
		t.Errorf("Timeout=10s, handler finished at once with WriteHeader(%d)+body: "+
			"client got %d %q instead of the handler's status and body", status, code, body)
	}
}
