// place in: lib/collection
package collection

import (
	"fmt"
	"testing"
	"time"
)

// An entry set with a 2s expiry may be dropped for age no earlier than 95% of 2s =
// 1.9s after its Set, give or take the one-second wheel tick - i.e. never before it
// is 0.9s old. Here the entries are set 0.1s before a wheel tick and looked up when
// they are about 0.5s old.
func TestGenuineDemo(t *testing.T) {
	created := time.Now()
	cache, err := NewCache(2 * time.Second) // the wheel ticks at created+1s, +2s, ...
	if err != nil {
		t.Fatal(err)
	}

	time.Sleep(time.Until(created.Add(900 * time.Millisecond)))
	const n = 40
	setAt := time.Now()
	for i := 0; i < n; i++ {
		cache.Set(fmt.Sprintf("k%d", i), i)
	}

	time.Sleep(time.Until(created.Add(1400 * time.Millisecond)))
	age := time.Since(setAt)
	var lost []string
	for i := 0; i < n; i++ {
		key := fmt.Sprintf("k%d", i)
		if _, ok := cache.Get(key); !ok {
			lost = append(lost, key)
		}
	}
	if len(lost) > 0 {
		t.Fatalf("%d of %d entries with a 2s expiry are already gone %v after their Set "+
			"(95%% of the expiry is 1.9s; even one whole tick earlier would be 0.9s): %v",
			len(lost), n, age.Round(10*time.Millisecond), lost)
	}
}
