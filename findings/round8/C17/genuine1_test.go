// place in: lib/collection
package collection

import (
	"fmt"
	"math"
	"testing"
	"time"
)

// A very long expiry ("keep it for good", the usual time.Duration(math.MaxInt64)
// idiom) is a legal expiry. An entry may only be dropped for age at 95%..105% of the
// expiry given in its LAST Set:
//   - keys a*: Set with the 2s default, then re-set with the long expiry - must still
//     be there after 3.5s;
//   - keys b*: first set with the long expiry, then re-set with the 2s default - must
//     be gone after 3.5s.
func TestGenuineDemo(t *testing.T) {
	cache, err := NewCache(2 * time.Second)
	if err != nil {
		t.Fatal(err)
	}

	const n = 40
	forever := time.Duration(math.MaxInt64)
	for i := 0; i < n; i++ {
		a, b := fmt.Sprintf("a%d", i), fmt.Sprintf("b%d", i)
		cache.Set(a, "short-lived") // expires after ~2s
		cache.SetWithExpire(a, "keep", forever)

		cache.SetWithExpire(b, "keep", forever)
		cache.Set(b, "short-lived") // last Set: ~2s
	}

	time.Sleep(3500 * time.Millisecond)

	var lost, immortal []string
	for i := 0; i < n; i++ {
		a, b := fmt.Sprintf("a%d", i), fmt.Sprintf("b%d", i)
		if _, ok := cache.Get(a); !ok {
			lost = append(lost, a)
		}
		if _, ok := cache.Get(b); ok {
			immortal = append(immortal, b)
		}
	}
	if len(lost) > 0 || len(immortal) > 0 {
		t.Fatalf("after 3.5s:\n%d of %d entries whose last Set asked for an expiry of %v were dropped "+
			"(they kept the 2s deadline of the value they replaced): %v\n"+
			"%d of %d entries whose last Set asked for the 2s default expiry are still cached "+
			"(no timer exists for them, they never expire): %v",
			len(lost), n, forever, lost, len(immortal), n, immortal)
	}
}
