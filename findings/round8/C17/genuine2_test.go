// place in: lib/collection
package collection

import (
	"fmt"
	"testing"
	"time"
)

// The smallest positive expiry, 1ns, is a legal expiry. Entries set with it must be
// dropped at the next wheel tick or so (105% of 1ns, to the granularity of the 1s
// tick) - certainly within a few seconds - and must not live for ever.
func TestGenuineDemo(t *testing.T) {
	cache, err := NewCache(time.Nanosecond)
	if err != nil {
		t.Fatal(err)
	}

	const n = 40
	for i := 0; i < n; i++ {
		cache.Set(fmt.Sprintf("k%d", i), i)
	}

	time.Sleep(3500 * time.Millisecond)

	var alive []string
	for i := 0; i < n; i++ {
		key := fmt.Sprintf("k%d", i)
		if _, ok := cache.Get(key); ok {
			alive = append(alive, key)
		}
	}
	if len(alive) > 0 {
		t.Fatalf("%d of %d entries set with expiry 1ns are still cached after 3.5s "+
			"(no timer was ever registered for them, they never expire): %v", len(alive), n, alive)
	}
}
