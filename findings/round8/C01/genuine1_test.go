// place in: lib/store/sqlx
package sqlx

import (
	"context"
	"database/sql"
	"errors"
	"fmt"
	"testing"

	"github.com/DATA-DOG/go-sqlmock"
	"github.com/gotid/god/lib/breaker"
)

// sql.ErrNoRows (= sqlx.ErrNotFound), sql.ErrTxDone and context.Canceled are declared benign by the
// sqlx integration.  The check is done with `==`, so the very same outcomes are counted as breaker
// FAILURES as soon as they arrive wrapped (fmt.Errorf("...: %w", sqlx.ErrNotFound) from a Transact
// callback, or a driver/net error that wraps context.Canceled): a perfectly healthy database is cut off.
func TestGenuineDemo(t *testing.T) {
	db, mock, err := sqlmock.New()
	if err != nil {
		t.Fatal(err)
	}
	defer db.Close()
	mock.MatchExpectationsInOrder(false)

	conn := NewConnFromDB(db)

	benign := []error{
		fmt.Errorf("load user 42: %w", ErrNotFound),        // wrapped sql.ErrNoRows
		fmt.Errorf("commit twice: %w", sql.ErrTxDone),      // wrapped sql.ErrTxDone
		fmt.Errorf("query aborted: %w", context.Canceled),  // wrapped context.Canceled
	}
	for _, e := range benign {
		if !errors.Is(e, ErrNotFound) && !errors.Is(e, sql.ErrTxDone) && !errors.Is(e, context.Canceled) {
			t.Fatalf("test bug: %v is not one of the benign outcomes", e)
		}
	}

	// 300 transactions whose only "problem" is a (wrapped) not-found / tx-done / canceled outcome.
	const rounds = 300
	for i := 0; i < rounds; i++ {
		mock.ExpectBegin()
		mock.ExpectRollback()
		want := benign[i%len(benign)]
		got := conn.TransactCtx(context.Background(), func(ctx context.Context, s Session) error {
			return want
		})
		if got == breaker.ErrServiceUnavailable {
			t.Fatalf("round %d: the database only ever produced benign outcomes (wrapped ErrNoRows/ErrTxDone/context.Canceled), "+
				"yet the breaker rejected the call: %v", i, got)
		}
		if got != want {
			t.Fatalf("round %d: unexpected error %v", i, got)
		}
	}

	// the database is healthy: plain statements must still be admitted
	var rejected int
	const probes = 100
	for i := 0; i < probes; i++ {
		mock.ExpectExec("update").WillReturnResult(sqlmock.NewResult(1, 1))
		if _, err := conn.Exec("update t set a = 1"); err == breaker.ErrServiceUnavailable {
			rejected++
		}
	}
	if rejected > 0 {
		t.Fatalf("%d of %d healthy statements were rejected with ErrServiceUnavailable after %d benign outcomes",
			rejected, probes, rounds)
	}
}
