// place in: lib/logx
package logx

import (
	"bytes"
	"os"
	"path/filepath"
	"testing"
	"time"
)

// Size rule, gzip off, no clean-up configured at all (days = 0, maxBackups = 0).
// The logger is created and fills its first file within the same wall-clock second
// (a burst at start-up, or - even more likely - a restart on top of an almost full log file).
// The second rotation happens more than a second after the first one, as the quantifier demands.
// Still the second rotation renames the live file onto the backup of the first rotation.
func TestGenuineDemo(t *testing.T) {
	dir := t.TempDir()
	filename := filepath.Join(dir, "app.log")

	// start early in a wall-clock second, so that creation and first rotation share that second
	for time.Now().Nanosecond() > 200_000_000 {
		time.Sleep(5 * time.Millisecond)
	}

	rule := NewSizeLimitRotateRule(filename, "-", 0, 1, 0, false) // 1 MB, keep everything
	logger, err := NewLogger(filename, rule, false)
	if err != nil {
		t.Fatal(err)
	}

	record := func(tag string) []byte {
		line := []byte("record-" + tag + " 0123456789012345678901234567890123456789012345678901\n")
		return bytes.Repeat(line, 600*1024/len(line)) // ~600 KB: two of them do not fit into 1 MB
	}
	recA, recB, recC := record("AAAA"), record("BBBB"), record("CCCC")

	waitCurrentSize := func(want int) {
		t.Helper()
		deadline := time.Now().Add(5 * time.Second)
		for time.Now().Before(deadline) {
			if fi, err := os.Stat(filename); err == nil && fi.Size() == int64(want) {
				return
			}
			time.Sleep(5 * time.Millisecond)
		}
		t.Fatalf("current file never reached %d bytes", want)
	}

	logger.Write(recA)
	logger.Write(recB) // rotation 1: the file holding A becomes a backup
	waitCurrentSize(len(recB))

	time.Sleep(1200 * time.Millisecond) // rotations more than a second apart

	logger.Write(recC) // rotation 2: the file holding B becomes a backup
	waitCurrentSize(len(recC))
	if err := logger.Close(); err != nil {
		t.Fatal(err)
	}

	entries, err := os.ReadDir(dir)
	if err != nil {
		t.Fatal(err)
	}
	var names []string
	found := map[string]int{}
	for _, e := range entries {
		names = append(names, e.Name())
		content, err := os.ReadFile(filepath.Join(dir, e.Name()))
		if err != nil {
			t.Fatal(err)
		}
		for tag, rec := range map[string][]byte{"A": recA, "B": recB, "C": recC} {
			if bytes.Contains(content, rec) {
				found[tag]++
			}
		}
	}
	for _, tag := range []string{"A", "B", "C"} {
		if found[tag] != 1 {
			t.Errorf("record %s is present in %d files, want exactly 1 (files after two rotations 1.2 s apart: %v)",
				tag, found[tag], names)
		}
	}
}
