// place in: lib/logx
package logx

import (
	"bytes"
	"io/fs"
	"os"
	"path/filepath"
	"testing"
	"time"
)

// The delimiter is part of the rule configuration. A delimiter that contains the path separator
// (e.g. "/" - "keep the backups in a sub-directory named after the log") is accepted by the rule
// and by NewLogger without complaint, but every rotation then fails in os.Rename. rotate() has
// already closed the live file at that point and does not re-open it, so the record that
// triggered the rotation and EVERY later record is dropped (only a line on stderr is printed).
func TestGenuineDemo(t *testing.T) {
	dir := t.TempDir()
	filename := filepath.Join(dir, "app.log")

	rule := NewSizeLimitRotateRule(filename, "/", 0, 1, 0, false) // 1 MB, keep everything
	logger, err := NewLogger(filename, rule, false)
	if err != nil {
		t.Fatal(err)
	}

	record := func(tag string) []byte {
		line := []byte("record-" + tag + " 0123456789012345678901234567890123456789012345678901\n")
		return bytes.Repeat(line, 600*1024/len(line)) // ~600 KB: two of them do not fit into 1 MB
	}
	recA, recB, recC := record("AAAA"), record("BBBB"), []byte("record-CCCC small\n")

	logger.Write(recA)
	logger.Write(recB) // must rotate
	time.Sleep(1200 * time.Millisecond)
	logger.Write(recC)
	time.Sleep(300 * time.Millisecond) // let the worker process the queue before Close
	logger.Close()

	found := map[string]int{}
	var names []string
	filepath.WalkDir(dir, func(p string, d fs.DirEntry, err error) error {
		if err != nil || d.IsDir() {
			return nil
		}
		names = append(names, p[len(dir):])
		content, _ := os.ReadFile(p)
		for tag, rec := range map[string][]byte{"A": recA, "B": recB, "C": recC} {
			if bytes.Contains(content, rec) {
				found[tag]++
			}
		}
		return nil
	})
	for _, tag := range []string{"A", "B", "C"} {
		if found[tag] != 1 {
			t.Errorf("delimiter \"/\": record %s is present in %d files, want exactly 1 (files: %v)", tag, found[tag], names)
		}
	}
}
