// place in: lib/logx
package logx

import (
	"os"
	"path/filepath"
	"sort"
	"testing"
	"time"
)

// Two size-rule loggers of this library share a directory: app.log and app-err.log
// (default delimiter "-"). The clean-up pattern of app.log is "app-*.log": it also matches
// the sibling's CURRENT file app-err.log and the sibling's backups app-err-<time>.log, and every
// match is ranked as if it were a backup of app.log. 'e' sorts after every digit, so the
// sibling's files always count as the "newest backups" and push the real ones out.
func TestGenuineDemo(t *testing.T) {
	dir := t.TempDir()
	touch := func(name string) string {
		p := filepath.Join(dir, name)
		if err := os.WriteFile(p, []byte(name+"\n"), 0o600); err != nil {
			t.Fatal(err)
		}
		return p
	}
	now := time.Now()
	stamp := func(d time.Duration) string { return now.Add(-d).Format(fileTimeFormat) }

	current := touch("app.log")
	// the only two backups of app.log, both made within the last hour
	b1 := touch("app-" + stamp(40*time.Minute) + ".log")
	b2 := touch("app-" + stamp(20*time.Minute) + ".log")
	// the sibling logger: its current file and one backup
	touch("app-err.log")
	touch("app-err-" + stamp(30*time.Minute) + ".log")

	// keep 2 backups, keep 7 days: app.log has exactly 2 backups, less than an hour old - nothing is outdated
	rule := NewSizeLimitRotateRule(current, "-", 7, 1, 2, false)
	outdated := rule.OutdatedFiles()
	sort.Strings(outdated)
	if len(outdated) != 0 {
		t.Errorf("maxBackups=2, keepDays=7; app.log has only the backups %q and %q (both < 1 h old), "+
			"yet the clean-up of app.log wants to delete %q", filepath.Base(b1), filepath.Base(b2), outdated)
	}
}
