// place in: lib/mr
package mr

import (
	"fmt"
	"math"
	"testing"
	"time"
)

// A very large (but perfectly legal, positive) worker setting - e.g. "math.MaxInt means
// unbounded" - must only bound the parallelism. ForEach copes with it (its pool holds
// zero-size elements), but MapReduce sizes its collector channel with the worker count:
// make(chan any, workers) panics ("makechan: size out of range") AFTER the
// `defer func() { for range output {...} }()` was registered, so the deferred loop waits
// for ever on an output channel nobody will ever close: the call never returns, and the
// generator goroutine started by buildSource stays blocked on its first send.
func TestGenuineDemo(t *testing.T) {
	// control: ForEach accepts the same setting
	feDone := make(chan struct{})
	go func() {
		defer close(feDone)
		ForEach(func(source chan<- any) {
			source <- 1
		}, func(item any) {}, WithWorkers(math.MaxInt))
	}()
	select {
	case <-feDone:
	case <-time.After(2 * time.Second):
		t.Fatal("ForEach with WithWorkers(math.MaxInt) did not return")
	}

	type outcome struct {
		val      any
		err      error
		panicked any
	}
	generatorReturned := make(chan struct{})
	res := make(chan outcome, 1)
	go func() {
		var o outcome
		defer func() {
			o.panicked = recover()
			res <- o
		}()
		o.val, o.err = MapReduce(func(source chan<- any) {
			defer close(generatorReturned)
			source <- 1
			source <- 2
		}, func(item any, writer Writer, cancel func(error)) {
			writer.Write(item)
		}, func(pipe <-chan any, writer Writer, cancel func(error)) {
			sum := 0
			for v := range pipe {
				sum += v.(int)
			}
			writer.Write(sum)
		}, WithWorkers(math.MaxInt))
	}()

	select {
	case o := <-res:
		if o.panicked != nil {
			t.Fatalf("MapReduce with WithWorkers(math.MaxInt) panicked: %v", o.panicked)
		}
		if o.err != nil || o.val != 3 {
			t.Fatalf("MapReduce with WithWorkers(math.MaxInt) = (%v, %v), want (3, nil)", o.val, o.err)
		}
	case <-time.After(3 * time.Second):
		gen := "the generator goroutine is blocked for ever too"
		select {
		case <-generatorReturned:
			gen = "the generator returned"
		default:
		}
		t.Fatal(fmt.Sprintf("MapReduce(..., WithWorkers(math.MaxInt)) never returned "+
			"(ForEach with the same option does); %s", gen))
	}
}
