// place in: lib/mr
package mr

import (
	"errors"
	"testing"
	"time"
)

// The reducer stops early and writes its value; a slower mapper then calls cancel(err).
// MapReduce has not returned yet at that moment (its deferred `for range output` waits
// until every mapper is done), the cancel is the first and only one - and still the
// call returns (value, nil): the error handed to cancel is lost.
func TestGenuineDemo(t *testing.T) {
	errCancel := errors.New("cancelled by the slow mapper")
	reducerWrote := make(chan struct{})
	var cancelCalledAt, returnedAt time.Time

	type outcome struct {
		val any
		err error
	}
	res := make(chan outcome, 1)
	go func() {
		val, err := MapReduce(func(source chan<- any) {
			source <- 0 // fast
			source <- 1 // slow, cancels
		}, func(item any, writer Writer, cancel func(error)) {
			if item.(int) == 0 {
				writer.Write("fast")
				return
			}
			<-reducerWrote
			// give the caller time to take the reducer's value
			time.Sleep(100 * time.Millisecond)
			cancelCalledAt = time.Now()
			cancel(errCancel)
		}, func(pipe <-chan any, writer Writer, cancel func(error)) {
			<-pipe // stop after the first value
			writer.Write("early result")
			close(reducerWrote)
		}, WithWorkers(2))
		returnedAt = time.Now()
		res <- outcome{val, err}
	}()

	select {
	case o := <-res:
		if !returnedAt.After(cancelCalledAt) || cancelCalledAt.IsZero() {
			t.Skip("schedule not reached: the call returned before cancel was invoked")
		}
		if o.err != errCancel {
			t.Fatalf("cancel(%q) was called %v BEFORE MapReduce returned (first and only cancel), "+
				"but MapReduce returned (%v, %v)", errCancel, returnedAt.Sub(cancelCalledAt), o.val, o.err)
		}
	case <-time.After(5 * time.Second):
		t.Fatal("MapReduce did not return")
	}
}
