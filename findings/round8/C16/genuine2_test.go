// place in: lib/executors
package executors

import (
	"math"
	"sync"
	"testing"
	"time"
)

// "a chunk batch exceeds the byte limit by less than its last task" - for every
// threshold configuration.  chunkContainer keeps the running byte total in an int
// and adds each task's size without an overflow check.  With a limit near
// math.MaxInt ("no byte limit, flush by time only") the total wraps to a negative
// number exactly when the limit is crossed; `bc.size >= bc.maxChunkSize` is then
// false for ever, the size trigger never fires again, and the batch keeps growing
// past the limit by far more than its last task.
func TestGenuineDemo(t *testing.T) {
	const limit = math.MaxInt

	var lock sync.Mutex
	var batches [][]any
	ce := NewChunkExecutor(func(tasks []any) {
		lock.Lock()
		batches = append(batches, tasks)
		lock.Unlock()
	}, WithChunkBytes(limit), WithFlushInterval(time.Hour))

	// sizes in the order added; the true total crosses the limit at "b"
	type item struct {
		name string
		size int
	}
	items := []item{{"a", limit - 1}, {"b", 2}, {"c", 5}, {"d", 5}, {"e", 5}}
	for _, it := range items {
		_ = ce.Add(it.name, it.size)
	}
	ce.Wait()

	lock.Lock()
	defer lock.Unlock()
	sizeOf := map[string]int{}
	for _, it := range items {
		sizeOf[it.name] = it.size
	}
	for _, batch := range batches {
		// excess = sum(sizes) - limit, computed without overflowing by starting
		// from -limit.
		excess := -limit
		for _, v := range batch {
			excess += sizeOf[v.(string)] // a: -1, b: +1, then +5 each
		}
		last := sizeOf[batch[len(batch)-1].(string)]
		if excess >= last {
			t.Errorf("batch %v: total bytes exceed the limit by %d, but its last task has only %d bytes "+
				"(the batch should have been cut after \"b\"); running total wrapped around in chunkContainer.size",
				batch, excess, last)
		}
	}
	if len(batches) == 0 {
		t.Errorf("nothing executed")
	}
}
