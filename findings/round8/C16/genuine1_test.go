// place in: lib/executors
package executors

import (
	"sync"
	"testing"
	"time"
)

// "a bulk batch never exceeds the configured task count" - for EVERY threshold
// configuration.  WithBulkTasks accepts 0 and negative counts unchecked, and
// bulkContainer.AddTask appends first and compares afterwards, so with a
// configured count of 0 (or -1) every batch holds one task: more than configured.
// (0 is not exotic: it is the zero value of an int option a caller forwards from
// an unset config field, and reads like "no size limit, flush by time only".)
func TestGenuineDemo(t *testing.T) {
	for _, configured := range []int{0, -1} {
		var lock sync.Mutex
		var sizes []int
		be := NewBulkExecutor(func(tasks []any) {
			lock.Lock()
			sizes = append(sizes, len(tasks))
			lock.Unlock()
		}, WithBulkTasks(configured), WithBulkInterval(time.Hour))

		for i := 0; i < 3; i++ {
			_ = be.Add(i)
		}
		be.Wait()

		lock.Lock()
		for _, n := range sizes {
			if n > configured {
				t.Errorf("WithBulkTasks(%d): execute received a batch of %d task(s), which exceeds the configured task count %d (all batch sizes: %v)",
					configured, n, configured, sizes)
				break
			}
		}
		lock.Unlock()
	}
}
