// place in: lib/discov
//
// Genuine violation 1: when the watch of a prefix has to be opened again (the channel
// returned by clientv3 Watch was cancelled / closed), cluster.watch asks for the revision
// of the FIRST load of the prefix again - `rev` is never advanced.  Once etcd has compacted
// that revision (every production etcd compacts), the new watch is answered with
// "required revision has been compacted" and cancelled at once; cluster.watch spins on that
// answer for ever, and no later put or delete ever reaches the subscriber.
//
// The test drives the REAL clientv3 client, registry and Subscriber against a minimal
// in-process etcd that speaks the real gRPC protocol (Range, Watch with start revisions and
// compaction, Status).
package discov

import (
	"context"
	"fmt"
	"net"
	"sort"
	"sync"
	"testing"
	"time"

	"github.com/gotid/god/lib/logx"
	pb "go.etcd.io/etcd/api/v3/etcdserverpb"
	"go.etcd.io/etcd/api/v3/mvccpb"
	"google.golang.org/grpc"
)

type g1Change struct {
	rev      int64
	del      bool
	key, val string
}

type g1Watcher struct {
	id       int64
	stream   pb.Watch_WatchServer
	key, end string
	live     bool
}

type g1Server struct {
	pb.UnimplementedKVServer
	pb.UnimplementedWatchServer
	pb.UnimplementedMaintenanceServer

	mu         sync.Mutex // also serialises Send on the watch streams
	rev        int64
	compactRev int64
	kvs        map[string]string
	history    []g1Change
	watchers   []*g1Watcher
	nextID     int64
	compacted  int   // watch requests refused because of compaction
	lastAsked  int64 // start revision of the last refused request
}

func (s *g1Server) header() *pb.ResponseHeader {
	return &pb.ResponseHeader{ClusterId: 1, MemberId: 1, Revision: s.rev, RaftTerm: 1}
}

func (s *g1Server) Status(context.Context, *pb.StatusRequest) (*pb.StatusResponse, error) {
	s.mu.Lock()
	defer s.mu.Unlock()
	return &pb.StatusResponse{Header: s.header(), Version: "3.5.5"}, nil
}

func g1InRange(k, key, end string) bool {
	return k >= key && (end == "" || k < end)
}

func (s *g1Server) Range(_ context.Context, r *pb.RangeRequest) (*pb.RangeResponse, error) {
	s.mu.Lock()
	defer s.mu.Unlock()
	var keys []string
	for k := range s.kvs {
		if g1InRange(k, string(r.Key), string(r.RangeEnd)) {
			keys = append(keys, k)
		}
	}
	sort.Strings(keys)
	resp := &pb.RangeResponse{Header: s.header()}
	for _, k := range keys {
		resp.Kvs = append(resp.Kvs, &mvccpb.KeyValue{Key: []byte(k), Value: []byte(s.kvs[k])})
	}
	resp.Count = int64(len(resp.Kvs))
	return resp, nil
}

func g1Event(ch g1Change) *mvccpb.Event {
	if ch.del {
		return &mvccpb.Event{Type: mvccpb.DELETE, Kv: &mvccpb.KeyValue{Key: []byte(ch.key), ModRevision: ch.rev}}
	}
	return &mvccpb.Event{Type: mvccpb.PUT, Kv: &mvccpb.KeyValue{
		Key: []byte(ch.key), Value: []byte(ch.val), ModRevision: ch.rev, CreateRevision: ch.rev, Version: 1,
	}}
}

// caller holds s.mu
func (s *g1Server) send(w *g1Watcher, ch g1Change) {
	_ = w.stream.Send(&pb.WatchResponse{
		Header:  &pb.ResponseHeader{ClusterId: 1, MemberId: 1, Revision: ch.rev, RaftTerm: 1},
		WatchId: w.id,
		Events:  []*mvccpb.Event{g1Event(ch)},
	})
}

func (s *g1Server) Watch(stream pb.Watch_WatchServer) error {
	for {
		req, err := stream.Recv()
		if err != nil {
			return nil
		}
		cr := req.GetCreateRequest()
		if cr == nil {
			continue
		}
		s.mu.Lock()
		w := &g1Watcher{id: s.nextID, stream: stream, key: string(cr.Key), end: string(cr.RangeEnd)}
		s.nextID++
		_ = stream.Send(&pb.WatchResponse{Header: s.header(), WatchId: w.id, Created: true})
		if cr.StartRevision > 0 && cr.StartRevision < s.compactRev {
			// what etcd does for a start revision that has been compacted away
			s.compacted++
			s.lastAsked = cr.StartRevision
			_ = stream.Send(&pb.WatchResponse{
				Header: s.header(), WatchId: w.id, Canceled: true, CompactRevision: s.compactRev,
			})
			s.mu.Unlock()
			continue
		}
		if cr.StartRevision > 0 {
			for _, ch := range s.history {
				if ch.rev >= cr.StartRevision && g1InRange(ch.key, w.key, w.end) {
					s.send(w, ch)
				}
			}
		}
		w.live = true
		s.watchers = append(s.watchers, w)
		s.mu.Unlock()
	}
}

func (s *g1Server) apply(ch g1Change) {
	s.mu.Lock()
	defer s.mu.Unlock()
	s.rev++
	ch.rev = s.rev
	if ch.del {
		delete(s.kvs, ch.key)
	} else {
		s.kvs[ch.key] = ch.val
	}
	s.history = append(s.history, ch)
	for _, w := range s.watchers {
		if w.live && g1InRange(ch.key, w.key, w.end) {
			s.send(w, ch)
		}
	}
}

func (s *g1Server) put(key, val string) { s.apply(g1Change{key: key, val: val}) }
func (s *g1Server) del(key string)      { s.apply(g1Change{key: key, del: true}) }

// compact discards all revisions below rev (etcdctl compaction rev / auto compaction).
func (s *g1Server) compact(rev int64) {
	s.mu.Lock()
	defer s.mu.Unlock()
	s.compactRev = rev
	var kept []g1Change
	for _, ch := range s.history {
		if ch.rev >= rev {
			kept = append(kept, ch)
		}
	}
	s.history = kept
}

// cancelWatches makes the server cancel every watch, as etcd does when the member serving a
// WithRequireLeader watch loses its leader.
func (s *g1Server) cancelWatches() {
	s.mu.Lock()
	defer s.mu.Unlock()
	for _, w := range s.watchers {
		if w.live {
			w.live = false
			_ = w.stream.Send(&pb.WatchResponse{
				Header: s.header(), WatchId: w.id, Canceled: true, CancelReason: "etcdserver: no leader",
			})
		}
	}
}

func (s *g1Server) liveValues(prefix string) []string {
	s.mu.Lock()
	defer s.mu.Unlock()
	set := make(map[string]bool)
	for k, v := range s.kvs {
		if len(k) >= len(prefix) && k[:len(prefix)] == prefix {
			set[v] = true
		}
	}
	vals := make([]string, 0, len(set))
	for v := range set {
		vals = append(vals, v)
	}
	sort.Strings(vals)
	return vals
}

func g1Wait(d time.Duration, cond func() bool) bool {
	deadline := time.Now().Add(d)
	for time.Now().Before(deadline) {
		if cond() {
			return true
		}
		time.Sleep(5 * time.Millisecond)
	}
	return cond()
}

func TestGenuineDemo(t *testing.T) {
	logx.Disable()

	lis, err := net.Listen("tcp", "127.0.0.1:0")
	if err != nil {
		t.Skipf("cannot listen on loopback: %v", err)
	}
	srv := &g1Server{rev: 1, kvs: make(map[string]string)}
	srv.put("svc/1", "a") // registered before the subscriber starts
	gs := grpc.NewServer()
	pb.RegisterKVServer(gs, srv)
	pb.RegisterWatchServer(gs, srv)
	pb.RegisterMaintenanceServer(gs, srv)
	go gs.Serve(lis)
	defer gs.Stop()

	sub, err := NewSubscriber([]string{lis.Addr().String()}, "svc")
	if err != nil {
		t.Fatal(err)
	}
	view := func() []string {
		v := append([]string(nil), sub.Values()...)
		sort.Strings(v)
		return v
	}
	same := func() bool { return fmt.Sprint(view()) == fmt.Sprint(srv.liveValues("svc/")) }

	// sanity: snapshot and live events arrive.
	srv.put("svc/2", "b")
	if !g1Wait(5*time.Second, same) {
		t.Fatalf("precondition: live watch does not work: view %v, registry %v", view(), srv.liveValues("svc/"))
	}

	// the registry lives on (other services come and go) and etcd compacts its history.
	for i := 0; i < 50; i++ {
		srv.put(fmt.Sprintf("other/%d", i), "x")
	}
	srv.mu.Lock()
	now := srv.rev
	srv.mu.Unlock()
	srv.compact(now - 5)

	// the watch is cancelled by the server once; the connection itself stays up, so no reload
	// is triggered.  Afterwards the registry changes.
	srv.cancelWatches()
	srv.put("svc/3", "c")
	srv.del("svc/1")

	if !g1Wait(3*time.Second, same) {
		srv.mu.Lock()
		n, asked, comp := srv.compacted, srv.lastAsked, srv.compactRev
		srv.mu.Unlock()
		t.Fatalf("the subscriber never converges after its watch had to be re-opened: Values() = %v, live registry "+
			"values = %v; the library re-opened the watch %d times, each time from revision %d, although etcd "+
			"answers that everything below revision %d has been compacted",
			view(), srv.liveValues("svc/"), n, asked, comp)
	}
}
