// place in: lib/discov
//
// Genuine violation 2: container.addKv does not detach a key from the value it carried
// before.  The registry starts ONE WATCH GOROUTINE PER SUBSCRIBER of a prefix
// (cluster.monitor), and every one of them feeds every subscriber, so a subscriber sees
// every event once per watcher, the copies arbitrarily interleaved.  When a key is deleted
// and registered again with another value (a publisher with a fixed id that restarts on
// another address), a late copy of the first put can arrive between the delete and the
// second put; addKv then leaves the key in the key list of the OLD value, nothing ever
// removes it again, and the dead value stays in Values() for ever (deletes, reloads and
// new events do not repair it).
package discov

import (
	"context"
	"fmt"
	"net"
	"sort"
	"sync"
	"sync/atomic"
	"testing"
	"time"

	"github.com/gotid/god/lib/logx"
	pb "go.etcd.io/etcd/api/v3/etcdserverpb"
	"go.etcd.io/etcd/api/v3/mvccpb"
	"google.golang.org/grpc"
)

// ---- a minimal etcd speaking the real gRPC protocol; the test decides which watcher gets
// ---- which event when --------------------------------------------------------------------

type g2Watcher struct {
	id     int64
	stream pb.Watch_WatchServer
}

type g2Server struct {
	pb.UnimplementedKVServer
	pb.UnimplementedWatchServer
	pb.UnimplementedMaintenanceServer

	mu       sync.Mutex
	rev      int64
	kvs      map[string]string
	watchers []*g2Watcher
	sendLock sync.Mutex
}

func (s *g2Server) header() *pb.ResponseHeader {
	return &pb.ResponseHeader{ClusterId: 1, MemberId: 1, Revision: s.rev, RaftTerm: 1}
}

func (s *g2Server) Status(context.Context, *pb.StatusRequest) (*pb.StatusResponse, error) {
	s.mu.Lock()
	defer s.mu.Unlock()
	return &pb.StatusResponse{Header: s.header(), Version: "3.5.5"}, nil
}

func (s *g2Server) Range(_ context.Context, r *pb.RangeRequest) (*pb.RangeResponse, error) {
	s.mu.Lock()
	defer s.mu.Unlock()
	var keys []string
	for k := range s.kvs {
		if k >= string(r.Key) && (len(r.RangeEnd) == 0 || k < string(r.RangeEnd)) {
			keys = append(keys, k)
		}
	}
	sort.Strings(keys)
	resp := &pb.RangeResponse{Header: s.header()}
	for _, k := range keys {
		resp.Kvs = append(resp.Kvs, &mvccpb.KeyValue{Key: []byte(k), Value: []byte(s.kvs[k])})
	}
	resp.Count = int64(len(resp.Kvs))
	return resp, nil
}

func (s *g2Server) Watch(stream pb.Watch_WatchServer) error {
	for {
		req, err := stream.Recv()
		if err != nil {
			return nil
		}
		if req.GetCreateRequest() == nil {
			continue
		}
		s.mu.Lock()
		w := &g2Watcher{id: int64(len(s.watchers)), stream: stream}
		hdr := s.header()
		s.mu.Unlock()
		s.sendLock.Lock()
		err = stream.Send(&pb.WatchResponse{Header: hdr, WatchId: w.id, Created: true})
		s.sendLock.Unlock()
		if err != nil {
			return err
		}
		s.mu.Lock()
		s.watchers = append(s.watchers, w)
		s.mu.Unlock()
	}
}

func (s *g2Server) watcherCount() int {
	s.mu.Lock()
	defer s.mu.Unlock()
	return len(s.watchers)
}

// g2Change is one change of the registry (it already happened in the store).
type g2Change struct {
	rev      int64
	del      bool
	key, val string
}

func (s *g2Server) put(key, val string) g2Change {
	s.mu.Lock()
	defer s.mu.Unlock()
	s.rev++
	s.kvs[key] = val
	return g2Change{rev: s.rev, key: key, val: val}
}

func (s *g2Server) del(key string) g2Change {
	s.mu.Lock()
	defer s.mu.Unlock()
	s.rev++
	delete(s.kvs, key)
	return g2Change{rev: s.rev, key: key, del: true}
}

// deliver hands the event of one change to ONE watcher.
func (s *g2Server) deliver(watcher int, ch g2Change) error {
	s.mu.Lock()
	w := s.watchers[watcher]
	s.mu.Unlock()
	ev := &mvccpb.Event{Type: mvccpb.PUT, Kv: &mvccpb.KeyValue{
		Key: []byte(ch.key), Value: []byte(ch.val), ModRevision: ch.rev, CreateRevision: ch.rev, Version: 1,
	}}
	if ch.del {
		ev = &mvccpb.Event{Type: mvccpb.DELETE, Kv: &mvccpb.KeyValue{Key: []byte(ch.key), ModRevision: ch.rev}}
	}
	s.sendLock.Lock()
	defer s.sendLock.Unlock()
	return w.stream.Send(&pb.WatchResponse{
		Header:  &pb.ResponseHeader{ClusterId: 1, MemberId: 1, Revision: ch.rev, RaftTerm: 1},
		WatchId: w.id,
		Events:  []*mvccpb.Event{ev},
	})
}

func (s *g2Server) liveValues() []string {
	s.mu.Lock()
	defer s.mu.Unlock()
	set := make(map[string]bool)
	for _, v := range s.kvs {
		set[v] = true
	}
	vals := make([]string, 0, len(set))
	for v := range set {
		vals = append(vals, v)
	}
	sort.Strings(vals)
	return vals
}

func g2Wait(d time.Duration, cond func() bool) bool {
	deadline := time.Now().Add(d)
	for time.Now().Before(deadline) {
		if cond() {
			return true
		}
		time.Sleep(2 * time.Millisecond)
	}
	return cond()
}

func g2Sorted(vals []string) []string {
	out := append([]string(nil), vals...)
	sort.Strings(out)
	return out
}

func TestGenuineDemo(t *testing.T) {
	logx.Disable()

	lis, err := net.Listen("tcp", "127.0.0.1:0")
	if err != nil {
		t.Skipf("cannot listen on loopback: %v", err)
	}
	srv := &g2Server{rev: 1, kvs: make(map[string]string)}
	gs := grpc.NewServer()
	pb.RegisterKVServer(gs, srv)
	pb.RegisterWatchServer(gs, srv)
	pb.RegisterMaintenanceServer(gs, srv)
	go gs.Serve(lis)
	defer gs.Stop()

	endpoints := []string{lis.Addr().String()}
	const key = "svc"
	const etcdKey = "svc/7" // a publisher created WithId(7)

	// two subscribers of the same service in one process (e.g. two rpc clients).
	sub1, err := NewSubscriber(endpoints, key)
	if err != nil {
		t.Fatal(err)
	}
	sub2, err := NewSubscriber(endpoints, key)
	if err != nil {
		t.Fatal(err)
	}
	if !g2Wait(5*time.Second, func() bool { return srv.watcherCount() == 2 }) {
		t.Fatalf("precondition: expected the library to open 2 watches on the prefix (one per subscriber), got %d",
			srv.watcherCount())
	}

	var notified int32
	sub1.AddListener(func() { atomic.AddInt32(&notified, 1) })
	sub2.AddListener(func() { atomic.AddInt32(&notified, 1) })

	// the history of the registry: the publisher with id 7 registers on address 1, goes
	// away (lease expires), and comes back on address 2.
	p1 := srv.put(etcdKey, "10.0.0.1:8080")
	d := srv.del(etcdKey)
	p2 := srv.put(etcdKey, "10.0.0.2:8080")

	// every watcher gets the complete history in order; watcher 1 is merely slower than
	// watcher 0.  After each delivery wait until both subscribers have been notified, so
	// that the interleaving is exactly the one written here.
	steps := []struct {
		watcher int
		change  g2Change
	}{
		{0, p1}, {0, d}, {1, p1}, {0, p2}, {1, d}, {1, p2},
	}
	for i, st := range steps {
		before := atomic.LoadInt32(&notified)
		if err := srv.deliver(st.watcher, st.change); err != nil {
			t.Fatal(err)
		}
		if !g2Wait(5*time.Second, func() bool { return atomic.LoadInt32(&notified) >= before+2 }) {
			t.Fatalf("precondition: step %d was not announced to both subscribers", i)
		}
	}

	want := srv.liveValues()
	for i, sub := range []*Subscriber{sub1, sub2} {
		if got := g2Sorted(sub.Values()); fmt.Sprint(got) != fmt.Sprint(want) {
			t.Errorf("all delivered events are processed, but subscriber %d lists %v while the only key under "+
				"the prefix (%s) carries %v: the value of the key's previous life is stuck in the view",
				i+1, got, etcdKey, want)
		}
	}

	// and it is stuck for good: the key finally goes away, both watchers say so.
	d2 := srv.del(etcdKey)
	for _, w := range []int{0, 1} {
		before := atomic.LoadInt32(&notified)
		if err := srv.deliver(w, d2); err != nil {
			t.Fatal(err)
		}
		g2Wait(5*time.Second, func() bool { return atomic.LoadInt32(&notified) >= before+2 })
	}
	if got := sub1.Values(); len(got) != 0 {
		t.Errorf("the prefix is empty now, but the subscriber still lists %v", got)
	}
}
