// place in: lib/discov
//
// Genuine violation 3: Subscriber.Values() hands out the subscriber's internal cached
// list (container.snapshot) itself, not a copy, and keeps answering from that cache until
// the next registry event.  Whatever a caller does to the returned slice (sort / filter /
// shuffle in place, reuse as scratch space) is what every later Values() call returns,
// although nothing changed in the registry.  The library's own resolver does exactly that:
// rpc/resolver/internal.subset shuffles the slice it got from sub.Values() in place.
package discov

import (
	"fmt"
	"sort"
	"testing"

	"github.com/gotid/god/lib/discov/internal"
)

func TestGenuineDemo(t *testing.T) {
	sub := &Subscriber{items: newContainer(false)}
	// three publishers, all events delivered and processed
	sub.items.OnAdd(internal.KV{Key: "svc/1", Val: "10.0.0.1:8080"})
	sub.items.OnAdd(internal.KV{Key: "svc/2", Val: "10.0.0.2:8080"})
	sub.items.OnAdd(internal.KV{Key: "svc/3", Val: "10.0.0.3:8080"})
	want := []string{"10.0.0.1:8080", "10.0.0.2:8080", "10.0.0.3:8080"}

	first := sub.Values()
	sort.Strings(first)
	if fmt.Sprint(first) != fmt.Sprint(want) {
		t.Fatalf("precondition: got %v", first)
	}

	// the caller keeps only the instances it likes, filtering its own result in place
	// (the usual `kept := vals[:0]` idiom), and blanks the tail.
	kept := first[:0]
	for _, v := range first {
		if v != "10.0.0.1:8080" {
			kept = append(kept, v)
		}
	}
	for i := len(kept); i < len(first); i++ {
		first[i] = ""
	}

	// nothing happened in the registry; the subscriber must still list the three values.
	second := append([]string(nil), sub.Values()...)
	sort.Strings(second)
	if fmt.Sprint(second) != fmt.Sprint(want) {
		t.Fatalf("no registry event happened, but Values() now returns %q instead of %q: "+
			"the list returned by the previous Values() call is the subscriber's own cache",
			second, want)
	}
}
