// place in: lib/limit
package limit

import (
	"testing"
	"time"

	"github.com/alicebob/miniredis/v2"
	"github.com/gotid/god/lib/store/redis"
)

// TestGenuineDemo: while Redis is unreachable the token limiter must keep limiting with an
// in-process bucket "of the same rate and burst".  NewTokenLimiter builds that bucket with
//
//	xrate.Every(time.Second / time.Duration(rate))
//
// i.e. it first turns the rate into a whole number of nanoseconds per token (integer division,
// rounded DOWN) and then back into a rate, so the in-process bucket refills FASTER than `rate`
// for every rate that does not divide 1e9, and by a lot for large rates (rate > 1e9 even gives
// interval 0 -> rate.Inf, no limiting at all).
//
// Every sub-test: Redis is down; the bucket is emptied at second s (n = burst, legitimately
// granted); at second s+t exactly rate*t tokens (capped at burst) may have come back, so a
// request for one token more than that must be refused.
func TestGenuineDemo(t *testing.T) {
	cases := []struct {
		name        string
		rate, burst int
		after       time.Duration // caller's clock advances by this much (whole seconds)
	}{
		// 1e9/300000 = 3333 ns per token -> 300030 tokens/s instead of 300000
		{"rate=300000 after 1s", 300000, 600000, time.Second},
		// 1e9/7000 = 142857 ns per token -> 7000.007 tokens/s: one token too many every 143 s
		{"rate=7000 after 10min", 7000, 7000 * 3600, 10 * time.Minute},
		// 1e9/600000000 = 1 ns per token -> 1e9 tokens/s instead of 6e8
		{"rate=6e8 after 1s", 600000000, 2000000000, time.Second},
	}

	for _, c := range cases {
		c := c
		t.Run(c.name, func(t *testing.T) {
			s, err := miniredis.Run()
			if err != nil {
				t.Fatal(err)
			}
			l := NewTokenLimiter(c.rate, c.burst, redis.New(s.Addr()), "genuine-rate")
			s.Close() // Redis is unreachable from the start
			defer func() {
				// let the monitor goroutine finish
				_ = s.Restart()
				time.Sleep(2 * pingInterval)
				s.Close()
			}()

			base := time.Unix(1700000000, 0)
			if !l.AllowN(base, c.burst) {
				t.Fatalf("the full bucket (%d tokens) was refused", c.burst)
			}
			if l.AllowN(base, 1) {
				t.Fatalf("rate=%d burst=%d, Redis down: all %d tokens were just taken at second s, yet one more "+
					"token was GRANTED in the same second (in-process bucket runs at %v tokens/s instead of %d)",
					c.rate, c.burst, c.burst, float64(l.rescueLimiter.Limit()), c.rate)
			}

			secs := int(c.after / time.Second)
			refilled := c.rate * secs
			if refilled > c.burst {
				refilled = c.burst
			}
			later := base.Add(c.after)
			if l.AllowN(later, refilled+1) {
				t.Errorf("rate=%d burst=%d, Redis down: bucket emptied at second s; at second s+%d only "+
					"rate*%d = %d tokens can be available, yet a request for %d tokens was GRANTED "+
					"(in-process bucket runs at %v tokens/s instead of %d)",
					c.rate, c.burst, secs, secs, refilled, refilled+1,
					float64(l.rescueLimiter.Limit()), c.rate)
			}
		})
	}
}
