// place in: lib/limit
package limit

import (
	"testing"
	"time"

	"github.com/alicebob/miniredis/v2"
	"github.com/gotid/god/lib/store/redis"
)

// TestGenuineDemo: the property counts time in WHOLE SECONDS of the caller's clock (that is what
// the Redis script does: it is given now.Unix()).  The in-process bucket used while Redis is
// unreachable is handed the caller's time.Time unrounded, so it refills by the nanosecond.
// Consequence: between second s and second s+t it admits up to burst + rate*(t+0.999...) events,
// not burst + rate*t, and within ONE second it grants tokens that a bucket counted in whole
// seconds does not have.  The same sequence of takes is answered differently by Redis and by the
// in-process bucket.
func TestGenuineDemo(t *testing.T) {
	const (
		rate  = 100
		burst = 100
	)
	base := time.Unix(1700000000, 0)
	stamps := []struct {
		at time.Time
		n  int
	}{
		{base, burst},                             // second s, .000: the whole burst
		{base.Add(999 * time.Millisecond), 99},    // still second s: nothing can have come back
		{base.Add(1999 * time.Millisecond), rate}, // second s+1: `rate` tokens came back
		{base.Add(1999 * time.Millisecond), 1},    // second s+1: and not one more
	}
	want := []bool{true, false, true, false}

	run := func(name string, redisUp bool) (granted int) {
		s, err := miniredis.Run()
		if err != nil {
			t.Fatal(err)
		}
		l := NewTokenLimiter(rate, burst, redis.New(s.Addr()), "genuine-subsecond")
		if !redisUp {
			s.Close()
			defer func() {
				_ = s.Restart()
				time.Sleep(2 * pingInterval)
				s.Close()
			}()
		} else {
			defer s.Close()
		}

		for i, st := range stamps {
			got := l.AllowN(st.at, st.n)
			if got {
				granted += st.n
			}
			if got != want[i] {
				t.Errorf("%s: take %d (n=%d at second s+%d, +%dms) granted=%v, want %v",
					name, i, st.n, st.at.Unix()-base.Unix(), st.at.Nanosecond()/1e6, got, want[i])
			}
		}
		return granted
	}

	viaRedis := run("redis up", true)
	viaRescue := run("redis down", false)
	limit := burst + rate*1
	if viaRedis > limit || viaRescue > limit {
		t.Errorf("events admitted between second s and second s+1: %d via Redis, %d via the in-process "+
			"bucket; the limit is burst + rate*1 = %d", viaRedis, viaRescue, limit)
	}
}
