// place in: lib/limit
package limit

import (
	"testing"
	"time"

	"github.com/alicebob/miniredis/v2"
	"github.com/gotid/god/lib/store/redis"
)

// TestGenuineDemo: rate = 0 ("a bucket of `burst` tokens that is never refilled", 2*burst >= rate
// holds) cannot even be constructed: NewTokenLimiter evaluates
// time.Second/time.Duration(rate) and panics with an integer division by zero.
func TestGenuineDemo(t *testing.T) {
	s, err := miniredis.Run()
	if err != nil {
		t.Fatal(err)
	}
	defer s.Close()

	var l *TokenLimiter
	func() {
		defer func() {
			if r := recover(); r != nil {
				t.Fatalf("NewTokenLimiter(rate=0, burst=5, ...) panicked: %v", r)
			}
		}()
		l = NewTokenLimiter(0, 5, redis.New(s.Addr()), "genuine-rate0")
	}()

	// not reached on the unpatched tree; what the property asks of this configuration:
	now := time.Unix(1700000000, 0)
	granted := 0
	for i := 0; i < 20; i++ {
		if l.AllowN(now.Add(time.Duration(i)*time.Second), 1) {
			granted++
		}
	}
	if granted != 5 {
		t.Errorf("rate=0 burst=5: %d events admitted over 20 seconds, want exactly 5", granted)
	}
}
