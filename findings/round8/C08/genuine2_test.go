// place in: lib/limit
package limit

import (
	"testing"
	"time"

	"github.com/alicebob/miniredis/v2"
	"github.com/gotid/god/lib/store/redis"
)

// TestGenuineDemo: the IN-PROCESS (rescue) bucket is rewound by a take that carries an older
// timestamp than the previous one (a concurrent caller that read its clock a little earlier and
// got the lock a little later - an ordinary interleaving).  reserveN hands the caller's `now`
// straight to rate.Limiter.AllowN, whose advance() does `if t.Before(last) { last = t }` and
// then stores `lim.last = t`: the bucket's "last refreshed" moves BACK, and the next take with
// the current time is credited the same seconds a second time.
//
// (The same mechanism in the Lua script was reported before; this is the rescue path, which a
// repair of the script does not touch.)
func TestGenuineDemo(t *testing.T) {
	const (
		rate  = 1
		burst = 10
	)
	s, err := miniredis.Run()
	if err != nil {
		t.Fatal(err)
	}
	l := NewTokenLimiter(rate, burst, redis.New(s.Addr()), "genuine-rewind")
	s.Close() // Redis unreachable: every take is decided by the in-process bucket
	defer func() {
		_ = s.Restart()
		time.Sleep(2 * pingInterval)
		s.Close()
	}()

	t0 := time.Unix(1700000000, 0)
	granted := 0
	take := func(at time.Time, n int) bool {
		ok := l.AllowN(at, n)
		if ok {
			granted += n
		}
		return ok
	}

	if !take(t0, 10) { // second s: the whole burst
		t.Fatal("full bucket refused")
	}
	if !take(t0.Add(10*time.Second), 9) { // second s+10: 10 came back, 9 taken, 1 left
		t.Fatal("refilled bucket refused")
	}
	// a late caller whose clock reading is 5 seconds old; one token is left, so granting is right
	if !take(t0.Add(5*time.Second), 1) {
		t.Fatal("the last token was refused")
	}
	// the bucket is empty now and the newest time it has seen is s+10
	if take(t0.Add(10*time.Second), 1) {
		limit := burst + rate*10
		t.Errorf("rescue bucket empty at second s+10, yet one more token was GRANTED at second s+10 "+
			"after a take stamped s+5 rewound the bucket: %d events admitted between second s and "+
			"second s+10, limit is burst + rate*10 = %d", granted, limit)
		for take(t0.Add(10*time.Second), 1) {
		}
		t.Errorf("in total %d events admitted between second s and second s+10 (limit %d)", granted, limit)
	}
}
