// place in: lib/codec
package codec

import (
	"bytes"
	"os"
	"strings"
	"testing"
)

// RsaEncryptor.Encrypt - the client half of the X-Content-Security "secret" - fails
// for EVERY input longer than one RSA block (k-11 bytes), although it is written to
// split the input into blocks and RsaDecryptor.Decrypt happily joins several blocks:
// the per-block callback encrypts the whole input instead of the block it is given.
// Uses priKey / pubKey of rsa_test.go (1024 bit: one block = 117 bytes).
func TestGenuineDemo(t *testing.T) {
	file, err := os.CreateTemp("", "rsa-*.pem")
	if err != nil {
		t.Fatal(err)
	}
	defer os.Remove(file.Name())
	file.WriteString(priKey)
	file.Close()

	dec, err := NewRsaDecryptor(file.Name())
	if err != nil {
		t.Fatal(err)
	}
	enc, err := NewRsaEncryptor([]byte(pubKey))
	if err != nil {
		t.Fatal(err)
	}

	for _, n := range []int{1, 117, 118, 200, 300} {
		plain := []byte(strings.Repeat("x", n))
		cipherText, err := enc.Encrypt(plain)
		if err != nil {
			t.Errorf("Encrypt of %d bytes: %v (inputs of more than one block can never be encrypted)", n, err)
			continue
		}
		out, err := dec.Decrypt(cipherText)
		if err != nil || !bytes.Equal(out, plain) {
			t.Errorf("round trip of %d bytes: err=%v equal=%v", n, err, bytes.Equal(out, plain))
		}
	}
}
