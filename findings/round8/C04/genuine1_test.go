// place in: api/handler
package handler

import (
	"crypto/hmac"
	"crypto/sha256"
	"encoding/base64"
	"net/http"
	"net/http/httptest"
	"testing"
)

// A correctly signed token whose nbf (or iat) lies absurdly far in the FUTURE is
// admitted, and one whose exp lies equally far in the future is refused: the
// numeric date is converted float64 -> int64 -> time.Time without a range
// check, so values >= ~9.2233720e18 wrap around to a date in the distant past.
func TestGenuineDemo(t *testing.T) {
	const secret = "B63F477D-BBA3-4E52-96D3-C0034C27694A"

	sign := func(payload string) string {
		enc := base64.RawURLEncoding
		si := enc.EncodeToString([]byte(`{"alg":"HS256","typ":"JWT"}`)) + "." + enc.EncodeToString([]byte(payload))
		m := hmac.New(sha256.New, []byte(secret))
		m.Write([]byte(si))
		return si + "." + enc.EncodeToString(m.Sum(nil))
	}
	call := func(payload string) (int, bool) {
		ran := false
		req := httptest.NewRequest(http.MethodGet, "http://localhost/secure", http.NoBody)
		req.Header.Set("Authorization", "Bearer "+sign(payload))
		resp := httptest.NewRecorder()
		Authorize(secret)(http.HandlerFunc(func(w http.ResponseWriter, r *http.Request) {
			ran = true
		})).ServeHTTP(resp, req)
		return resp.Code, ran
	}

	// sanity: an ordinary "not yet valid" token is refused, an ordinary token is admitted
	if code, ran := call(`{"uid":1,"nbf":32503680000}`); code != http.StatusUnauthorized || ran { // year 3000
		t.Fatalf("nbf=year 3000: code=%d ran=%v, want 401/false", code, ran)
	}
	if code, ran := call(`{"uid":1,"exp":32503680000}`); code != http.StatusOK || !ran {
		t.Fatalf("exp=year 3000: code=%d ran=%v, want 200/true", code, ran)
	}

	notYetValid := []string{
		`{"uid":1,"nbf":1e19}`,                // > MaxInt64: int64(float64) conversion overflows
		`{"uid":1,"nbf":10000000000000000000}`, // same, written as an integer
		`{"uid":1,"nbf":9223372036800000000}`,  // < MaxInt64, but time.Unix(sec,0) overflows internally
		`{"uid":1,"nbf":1e400}`,               // strconv range error ignored, +Inf
		`{"uid":1,"iat":1e19}`,                // "issued" in the far future
	}
	for _, p := range notYetValid {
		if code, ran := call(p); code != http.StatusUnauthorized || ran {
			t.Errorf("token %s is not valid yet (time claim far in the future) but was admitted: code=%d handlerRan=%v, want 401/false",
				p, code, ran)
		}
	}

	// the mirror image: an expiry far in the future is a valid time claim, yet the token is refused
	if code, ran := call(`{"uid":1,"exp":1e19}`); code != http.StatusOK || !ran {
		t.Errorf(`token {"exp":1e19} has a valid (far future) expiry but was refused: code=%d handlerRan=%v, want 200/true`, code, ran)
	}
}
