// place in: api/handler
package handler

import (
	"crypto/sha256"
	"fmt"
	"net/http"
	"net/http/httptest"
	"os"
	"strconv"
	"strings"
	"testing"
	"time"

	"github.com/gotid/god/lib/codec"
)

// A correctly signed request of the "encrypted" type (type=1) whose body consists
// only of line breaks makes the signature gate PANIC (index out of range [-1] in
// codec.pkcs5UnPadding) instead of running the handler or answering 400.
// Uses the helpers of contentsecurityhandler_test.go (buildRequest, key, priKey ...).
func TestGenuineDemo(t *testing.T) {
	keyFile, err := createTempFile(priKey)
	if err != nil {
		t.Fatal(err)
	}
	defer os.Remove(keyFile)
	decryptor, err := codec.NewRsaDecryptor(keyFile)
	if err != nil {
		t.Fatal(err)
	}

	ran := false
	gate := ContentSecurityHandler(map[string]codec.RsaDecryptor{fingerprint: decryptor}, time.Hour, true)(
		http.HandlerFunc(func(w http.ResponseWriter, r *http.Request) { ran = true }))

	const (
		target = "http://localhost/a/b?c=d"
		body   = "\n" // base64.StdEncoding ignores \r and \n: decodes to zero bytes without error
	)
	now := time.Now().Unix()
	probe := httptest.NewRequest(http.MethodPost, target, strings.NewReader(body))
	sha := sha256.New()
	sha.Write([]byte(body))
	signature := codec.HmacBase64(key, strings.Join([]string{
		strconv.FormatInt(now, 10), http.MethodPost, probe.URL.Path, probe.URL.RawQuery,
		fmt.Sprintf("%x", sha.Sum(nil)),
	}, "\n"))

	// buildRequest produces the X-Content-Security header (type=1) with our signature
	hdrReq, err := buildRequest(requestSettings{
		method: http.MethodPost, url: target, crypt: true, strict: true,
		timestamp: now, fingerprint: fingerprint, signature: signature,
	})
	if err != nil {
		t.Fatal(err)
	}
	req := httptest.NewRequest(http.MethodPost, target, strings.NewReader(body))
	req.Header = hdrReq.Header

	resp := httptest.NewRecorder()
	func() {
		defer func() {
			if p := recover(); p != nil {
				t.Fatalf("correctly signed request with body %q made the gate panic: %v", body, p)
			}
		}()
		gate.ServeHTTP(resp, req)
	}()
	if resp.Code == http.StatusForbidden {
		t.Fatalf("test set-up problem: the request was not accepted as correctly signed")
	}
	t.Logf("no panic: code=%d handlerRan=%v", resp.Code, ran)
}
