// place in: api/handler
package handler

import (
	"net/http"
	"net/http/httptest"
	"testing"
	"time"

	"github.com/golang-jwt/jwt/v4"
)

// The JWT gate admits a request whose Authorization header is NOT a bearer
// credential at all: the bare token without the "Bearer " scheme is accepted.
func TestGenuineDemo(t *testing.T) {
	const secret = "B63F477D-BBA3-4E52-96D3-C0034C27694A"

	tok := jwt.New(jwt.SigningMethodHS256)
	tok.Claims = jwt.MapClaims{"exp": time.Now().Unix() + 3600, "uid": 1}
	signed, err := tok.SignedString([]byte(secret))
	if err != nil {
		t.Fatal(err)
	}

	call := func(authorization string) (int, bool) {
		ran := false
		req := httptest.NewRequest(http.MethodGet, "http://localhost/secure", http.NoBody)
		req.Header.Set("Authorization", authorization)
		resp := httptest.NewRecorder()
		Authorize(secret)(http.HandlerFunc(func(w http.ResponseWriter, r *http.Request) {
			ran = true
		})).ServeHTTP(resp, req)
		return resp.Code, ran
	}

	if code, ran := call("Bearer " + signed); code != http.StatusOK || !ran {
		t.Fatalf("bearer token: code=%d ran=%v, want 200/true", code, ran)
	}
	// other schemes are refused ...
	if code, ran := call("Basic " + signed); code != http.StatusUnauthorized || ran {
		t.Fatalf("Basic scheme: code=%d ran=%v, want 401/false", code, ran)
	}
	// ... but no scheme at all is admitted
	if code, ran := call(signed); code != http.StatusUnauthorized || ran {
		t.Fatalf("Authorization header without the Bearer scheme carries no bearer token, yet the request was admitted: code=%d handlerRan=%v, want 401/false",
			code, ran)
	}
}
