// place in: lib/hash
package hash

import (
	"testing"
	"time"
)

// TestGenuineDemo: Get panics for a key that is a typed nil pointer whose type
// implements fmt.Stringer (here a nil *time.Time).  lang.Repr calls String()
// on it without the nil guard that fmt applies (fmt.Sprint prints "<nil>").
// An untyped nil key and a nil pointer to a non-Stringer type both work.
func TestGenuineDemo(t *testing.T) {
	ch := NewConsistentHash()
	ch.Add("node-a")
	ch.Add("node-b")

	// these two nil keys are fine
	if _, ok := ch.Get(nil); !ok {
		t.Fatalf("Get(nil) reported absence")
	}
	var ip *int
	if _, ok := ch.Get(ip); !ok {
		t.Fatalf("Get((*int)(nil)) reported absence")
	}

	var ts *time.Time // e.g. an optional timestamp used as sharding key
	defer func() {
		if r := recover(); r != nil {
			t.Errorf("Get((*time.Time)(nil)) panicked instead of returning one of the added nodes: %v", r)
		}
	}()
	v, ok := ch.Get(ts)
	if !ok || (v != "node-a" && v != "node-b") {
		t.Errorf("Get((*time.Time)(nil)) = (%v, %v), want one of the added nodes", v, ok)
	}
}
