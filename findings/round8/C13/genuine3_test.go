// place in: lib/hash
package hash

import (
	"strconv"
	"testing"
)

type backend struct {
	Addr  string
	Conns int // bookkeeping field, changes while the node is in the ring
}

// TestGenuineDemo: a struct node (passed by pointer, no String method) is
// identified by lang.Repr of its CURRENT field values.  If any field changed
// since Add, Remove computes another identity, finds no such member and
// silently does nothing: the removed node keeps receiving keys.
func TestGenuineDemo(t *testing.T) {
	a := &backend{Addr: "10.0.0.1:6379"}
	b := &backend{Addr: "10.0.0.2:6379"}

	ch := NewConsistentHash()
	ch.Add(a)
	ch.Add(b)

	a.Conns++ // ordinary bookkeeping on the node object

	ch.Remove(a)

	var stale int
	const total = 2000
	for i := 0; i < total; i++ {
		v, ok := ch.Get("key-" + strconv.Itoa(i))
		if !ok {
			t.Fatalf("no node for key %d", i)
		}
		if v.(*backend) == a {
			stale++
		}
	}
	if stale > 0 {
		t.Errorf("after Remove(a), %d of %d keys are still assigned to the removed node %+v", stale, total, *a)
	}

	// re-adding with another weight does not replace the old virtual nodes either
	ch.AddWithWeight(a, 10)
	var owned int
	for _, nodes := range ch.ring {
		for _, n := range nodes {
			if n.(*backend) == a {
				owned++
			}
		}
	}
	if owned != 10 {
		t.Errorf("after AddWithWeight(a, 10) node a owns %d virtual nodes, want 10", owned)
	}
}
