// place in: lib/hash
package hash

import (
	"fmt"
	"strconv"
	"testing"
)

// TestGenuineDemo: Remove walks all h.replicas candidate positions of the node
// being removed, including positions the node never occupied (it was added with
// a smaller weight).  Such a "phantom" position nodeRepr+strconv.Itoa(i) can be
// the real position of ANOTHER node whose name is nodeRepr plus a digit
// ("node1"+"10" == "node11"+"0").  Remove then deletes that other node's entry
// from the sorted key list although the two nodes never shared a ring position.
func TestGenuineDemo(t *testing.T) {
	// ---- part 1: removing a node moves keys that were NOT assigned to it ----
	ch := NewConsistentHash()
	ch.Add("node2")
	ch.Add("node3")
	ch.Add("node11")              // positions "node110" .. "node1199"
	ch.AddWithWeight("node1", 5) // positions "node10" .. "node14" only

	// sanity: no ring position is shared by two nodes, so the collision
	// exclusion of the property does not apply.
	for hash, nodes := range ch.ring {
		if len(nodes) != 1 {
			t.Fatalf("unexpected ring collision at %d: %v", hash, nodes)
		}
	}

	const total = 20000
	before := make([]string, total)
	for i := 0; i < total; i++ {
		v, ok := ch.Get("key-" + strconv.Itoa(i))
		if !ok {
			t.Fatalf("no node for key %d", i)
		}
		before[i] = v.(string)
	}

	ch.Remove("node1")

	var moved []string
	for i := 0; i < total; i++ {
		v, ok := ch.Get("key-" + strconv.Itoa(i))
		if !ok {
			t.Fatalf("no node for key %d after Remove", i)
		}
		if before[i] != "node1" && v.(string) != before[i] {
			moved = append(moved, fmt.Sprintf("key-%d: %s -> %s", i, before[i], v))
		}
	}
	if len(moved) > 0 {
		t.Errorf("Remove(\"node1\") re-assigned %d keys that were not assigned to node1, e.g. %v",
			len(moved), moved[:min(3, len(moved))])
	}
	if len(ch.keys) != len(ch.ring) {
		t.Errorf("after Remove(\"node1\"): %d sorted keys but %d ring slots (node11 lost %d virtual nodes)",
			len(ch.keys), len(ch.ring), len(ch.ring)-len(ch.keys))
	}

	// ---- part 2: Get panics although a node of positive weight is present ----
	ch2 := NewConsistentHash()
	ch2.AddWithWeight("node11", 10) // positions "node110" .. "node119"
	ch2.AddWithWeight("node1", 5)   // positions "node10" .. "node14"
	ch2.Remove("node1")
	func() {
		defer func() {
			if r := recover(); r != nil {
				t.Errorf("Get panicked with node11 (weight 10) still present: %v", r)
			}
		}()
		v, ok := ch2.Get("some-key")
		if !ok || v != "node11" {
			t.Errorf("Get = (%v, %v), want (node11, true)", v, ok)
		}
	}()
}
