// place in: lib/store/sqlc
package sqlc

import (
	"fmt"
	"testing"
	"time"

	"github.com/alicebob/miniredis/v2"
	"github.com/gotid/god/lib/store/cache"
	"github.com/gotid/god/lib/store/redis"
	"github.com/gotid/god/lib/store/sqlx"
)

// TestGenuineDemo: boundary value of the configured expiry. With Expire /
// NotFoundExpire = 1ns (the smallest positive duration; also what
// cache.WithExpire(1) means when somebody forgets the unit) the stored TTL must be
// "the configured expiry +/-5%, rounded up to whole seconds" = 1s. Instead roughly
// every second entry - rows and not-found placeholders alike - is stored with NO
// expiry at all and stays in Redis forever.
func TestGenuineDemo(t *testing.T) {
	mr := miniredis.RunT(t)
	c := NewNodeConn(dummySqlConn{}, redis.New(mr.Addr()),
		cache.WithExpire(time.Nanosecond), cache.WithNotFoundExpire(time.Nanosecond))

	var rowsForever, placeholdersForever []string
	const n = 40
	for i := 0; i < n; i++ {
		rowKey := fmt.Sprintf("cache:user:id:%d", i)
		var row string
		if err := c.QueryRow(&row, rowKey, func(conn sqlx.Conn, v any) error {
			*v.(*string) = "row"
			return nil
		}); err != nil {
			t.Fatal(err)
		}
		if !mr.Exists(rowKey) {
			t.Fatalf("%s was not cached", rowKey)
		}
		if ttl := mr.TTL(rowKey); ttl != time.Second { // miniredis: 0 means "no expiry"
			rowsForever = append(rowsForever, fmt.Sprintf("%s ttl=%v", rowKey, ttl))
		}

		missKey := fmt.Sprintf("cache:user:id:missing%d", i)
		if err := c.QueryRow(&row, missKey, func(conn sqlx.Conn, v any) error {
			return ErrNotFound
		}); err != ErrNotFound {
			t.Fatal(err)
		}
		if !mr.Exists(missKey) {
			t.Fatalf("placeholder %s was not cached", missKey)
		}
		if ttl := mr.TTL(missKey); ttl != time.Second {
			placeholdersForever = append(placeholdersForever, fmt.Sprintf("%s ttl=%v", missKey, ttl))
		}
	}

	if len(rowsForever) > 0 || len(placeholdersForever) > 0 {
		t.Fatalf("configured expiry 1ns must be stored as a 1s TTL; stored WITHOUT any expiry (ttl=0 = persistent): "+
			"%d of %d rows, %d of %d not-found placeholders, e.g. %v %v",
			len(rowsForever), n, len(placeholdersForever), n, first(rowsForever), first(placeholdersForever))
	}
}

func first(s []string) string {
	if len(s) == 0 {
		return "-"
	}
	return s[0]
}
