// place in: lib/store/sqlc
package sqlc

import (
	"math"
	"testing"
	"time"

	"github.com/alicebob/miniredis/v2"
	"github.com/gotid/god/lib/store/cache"
	"github.com/gotid/god/lib/store/redis"
	"github.com/gotid/god/lib/store/sqlx"
)

// TestGenuineDemo: the row exists, the database query succeeds and fills the
// destination, Redis is healthy - and QueryRow still returns an error, on every read,
// and asks the database again every time. Reason: after a successful load node.doTake
// marshals the row once more only to be able to share it with waiting readers, and
// returns that marshal error to the reader that loaded the row itself.
func TestGenuineDemo(t *testing.T) {
	type reading struct {
		ID    int64   `db:"id"`
		Value float64 `db:"value"` // DOUBLE PRECISION column; Postgres stores 'Infinity' / 'NaN'
	}
	mr := miniredis.RunT(t)
	c := NewNodeConn(dummySqlConn{}, redis.New(mr.Addr()), cache.WithExpire(time.Hour))

	queries := 0
	for i := 1; i <= 3; i++ {
		var row reading
		err := c.QueryRow(&row, "cache:reading:id:1", func(conn sqlx.Conn, v any) error {
			queries++
			*v.(*reading) = reading{ID: 1, Value: math.Inf(1)}
			return nil
		})
		if err != nil {
			t.Errorf("read %d: the database returned the row %+v, QueryRow returned the error %q "+
				"(database queries so far: %d)", i, row, err, queries)
		}
	}
}
