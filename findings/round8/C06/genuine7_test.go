// place in: lib/store/sqlc
package sqlc

import (
	"fmt"
	"math"
	"testing"
	"time"

	"github.com/alicebob/miniredis/v2"
	"github.com/gotid/god/lib/store/cache"
	"github.com/gotid/god/lib/store/redis"
	"github.com/gotid/god/lib/store/sqlx"
)

// TestGenuineDemo: the TTL of the ROW entry that QueryRowIndex stores under the primary
// cache key is jitter(expire) + 5s (cacheSafeGapBetweenIndexAndPrimary). For every
// configured expiry below 100s that is outside "+/-5% of the configured expiry, rounded
// up to whole seconds": with WithExpire(10s) the row is stored for 15-16s (+50..60%).
func TestGenuineDemo(t *testing.T) {
	const expire = 10 * time.Second
	mr := miniredis.RunT(t)
	c := NewNodeConn(dummySqlConn{}, redis.New(mr.Addr()), cache.WithExpire(expire))

	lo := time.Duration(math.Ceil((expire.Seconds())*0.95)) * time.Second
	hi := time.Duration(math.Ceil((expire.Seconds())*1.05)) * time.Second

	for i := 0; i < 10; i++ {
		idxKey := fmt.Sprintf("cache:user:name:n%d", i)
		pkKey := fmt.Sprintf("cache:user:id:%d", i)
		var row string
		err := c.QueryRowIndex(&row, idxKey, func(p any) string { return fmt.Sprintf("cache:user:id:%v", p) },
			func(conn sqlx.Conn, v any) (any, error) {
				*v.(*string) = "row"
				return i, nil
			},
			func(conn sqlx.Conn, v, p any) error {
				*v.(*string) = "row"
				return nil
			})
		if err != nil {
			t.Fatal(err)
		}
		if ttl := mr.TTL(idxKey); ttl < lo || ttl > hi {
			t.Errorf("index entry %s: stored TTL %v, allowed [%v, %v]", idxKey, ttl, lo, hi)
		}
		if ttl := mr.TTL(pkKey); ttl < lo || ttl > hi {
			t.Errorf("row entry %s: stored TTL %v, configured expiry %v allows [%v, %v]", pkKey, ttl, expire, lo, hi)
		}
	}
}
