// place in: lib/store/sqlc
package sqlc

import (
	"reflect"
	"testing"
	"time"

	"github.com/alicebob/miniredis/v2"
	"github.com/gotid/god/lib/store/cache"
	"github.com/gotid/god/lib/store/redis"
	"github.com/gotid/god/lib/store/sqlx"
)

// TestGenuineDemo: a caller reads two different rows, one after the other, into the
// same destination variable (a loop that reuses its buffer). No write happens at all.
// Served by the database each read returns exactly the row; served by the cache the
// second row is MERGED into what the destination still holds from the first row,
// because node.processCache / node.doTake decode the cached JSON straight into the
// caller's value without resetting it.
func TestGenuineDemo(t *testing.T) {
	t.Run("map rows", func(t *testing.T) {
		mr := miniredis.RunT(t)
		c := NewNodeConn(dummySqlConn{}, redis.New(mr.Addr()), cache.WithExpire(time.Hour))

		db := map[string]map[string]any{
			"cache:cfg:1": {"theme": "dark"},
			"cache:cfg:2": {"lang": "en"},
		}
		read := func(dst *map[string]any, key string) {
			err := c.QueryRow(dst, key, func(conn sqlx.Conn, v any) error {
				*v.(*map[string]any) = db[key] // the database returns exactly the row
				return nil
			})
			if err != nil {
				t.Fatal(err)
			}
		}

		for round := 1; round <= 2; round++ { // round 1: from the database, round 2: from the cache
			var dst map[string]any // reused for both reads of the round
			for _, key := range []string{"cache:cfg:1", "cache:cfg:2"} {
				read(&dst, key)
				if !reflect.DeepEqual(dst, db[key]) {
					t.Errorf("round %d: read of %s returned %v, the database row is %v", round, key, dst, db[key])
				}
			}
		}
	})

	t.Run("struct rows with an omitempty column", func(t *testing.T) {
		type user struct {
			ID   int64  `db:"id" json:"id"`
			Nick string `db:"nick" json:"nick,omitempty"`
		}
		mr := miniredis.RunT(t)
		c := NewNodeConn(dummySqlConn{}, redis.New(mr.Addr()), cache.WithExpire(time.Hour))

		db := map[string]user{
			"cache:user:1": {ID: 1, Nick: "neo"},
			"cache:user:2": {ID: 2}, // no nick
		}
		read := func(dst *user, key string) {
			err := c.QueryRow(dst, key, func(conn sqlx.Conn, v any) error {
				*v.(*user) = db[key]
				return nil
			})
			if err != nil {
				t.Fatal(err)
			}
		}

		for round := 1; round <= 2; round++ {
			var dst user
			for _, key := range []string{"cache:user:1", "cache:user:2"} {
				read(&dst, key)
				if dst != db[key] {
					t.Errorf("round %d: read of %s returned %+v, the database row is %+v", round, key, dst, db[key])
				}
			}
		}
	})
}
