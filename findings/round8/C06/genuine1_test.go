// place in: lib/store/sqlc
package sqlc

import (
	"database/sql"
	"fmt"
	"testing"
	"time"

	"github.com/alicebob/miniredis/v2"
	"github.com/gotid/god/lib/store/cache"
	"github.com/gotid/god/lib/store/redis"
	"github.com/gotid/god/lib/store/sqlx"
)

// TestGenuineDemo: a purely sequential history
//
//	read(idx) read(idx) write(row; names the index key and the primary key) read(idx) read(idx)
//
// over one row. The last read returns the value from BEFORE the completed write.
//
// Reason: QueryRowIndexCtx calls keyer(primaryKey) with the value the index query
// returned (DB path) but with the JSON-decoded copy of it (json.Number / string /
// map) when the primary key comes out of the index cache. Whenever the two render
// differently, the row is cached under TWO different primary cache keys; a write can
// only name the first one, the second one keeps the old row for its whole TTL.
func TestGenuineDemo(t *testing.T) {
	type compositePK struct{ Tenant, ID int64 }

	vKeyer := func(p any) string { return fmt.Sprintf("cache:user:id:%v", p) }
	dKeyer := func(p any) string { return fmt.Sprintf("cache:user:id:%d", p) }

	tests := []struct {
		name  string
		pk    any
		keyer func(any) string
	}{
		{"int64 id, keyer formats with %d", int64(7), dKeyer},
		{"binary(16)-style []byte id, keyer formats with %v", []byte{0xde, 0xad, 0xbe, 0xef}, vKeyer},
		{"float64 id 1000000 (driver returned a float), keyer formats with %v", float64(1000000), vKeyer},
		{"composite struct id, keyer formats with %v", compositePK{Tenant: 1, ID: 7}, vKeyer},
	}

	for _, test := range tests {
		t.Run(test.name, func(t *testing.T) {
			mr := miniredis.RunT(t)
			c := NewNodeConn(dummySqlConn{}, redis.New(mr.Addr()), cache.WithExpire(time.Hour))

			const idxKey = "cache:user:name:alice"
			dbRow := "v1" // the model database: one row, found by index and by primary key

			read := func() string {
				var row string
				err := c.QueryRowIndex(&row, idxKey, test.keyer,
					func(conn sqlx.Conn, v any) (any, error) {
						*v.(*string) = dbRow
						return test.pk, nil
					},
					func(conn sqlx.Conn, v, primary any) error {
						*v.(*string) = dbRow
						return nil
					})
				if err != nil {
					t.Fatalf("read: %v", err)
				}
				return row
			}
			write := func(val string) {
				// exactly what a generated Update does: change the row, then name the
				// primary cache key and the index cache key of the row.
				_, err := c.Exec(func(conn sqlx.Conn) (sql.Result, error) {
					dbRow = val
					return nil, nil
				}, test.keyer(test.pk), idxKey)
				if err != nil {
					t.Fatalf("write: %v", err)
				}
			}

			if got := read(); got != "v1" {
				t.Fatalf("read 1 = %q", got)
			}
			if got := read(); got != "v1" {
				t.Fatalf("read 2 = %q", got)
			}
			write("v2")
			if got := read(); got != "v2" {
				t.Fatalf("read 3 = %q", got)
			}
			if got := read(); got != dbRow {
				t.Errorf("STALE READ: read 4 returned %q, the database row is %q since the completed write; "+
					"cache keys now: %v", got, dbRow, mr.Keys())
			}
		})
	}
}
