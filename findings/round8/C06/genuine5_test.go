// place in: lib/store/sqlc
package sqlc

import (
	"testing"
	"time"

	"github.com/alicebob/miniredis/v2"
	"github.com/gotid/god/lib/store/cache"
	"github.com/gotid/god/lib/store/redis"
	"github.com/gotid/god/lib/store/sqlx"
)

// TestGenuineDemo: two cached connections in one process - two databases (two tenants /
// two shards), each with its OWN Redis - that use the same cache key text, e.g.
// "cache:user:id:1". A read through connection B that overlaps a read of the same key
// text through connection A returns A's row: B's database is never asked, B's cache is
// never looked at. The barrier (package variable sqlc.singleFlights) is shared by every
// CachedConn of the process and is keyed by the bare key string only.
func TestGenuineDemo(t *testing.T) {
	mrA := miniredis.RunT(t)
	mrB := miniredis.RunT(t)
	connA := NewNodeConn(dummySqlConn{}, redis.New(mrA.Addr()), cache.WithExpire(time.Hour))
	connB := NewNodeConn(dummySqlConn{}, redis.New(mrB.Addr()), cache.WithExpire(time.Hour))
	const key = "cache:user:id:1"

	entered := make(chan struct{})
	release := make(chan struct{})
	go func() {
		var row string
		_ = connA.QueryRow(&row, key, func(conn sqlx.Conn, v any) error {
			close(entered)
			<-release // tenant A's database is slow
			*v.(*string) = "row of tenant A"
			return nil
		})
	}()
	<-entered

	type outcome struct {
		row     string
		err     error
		queried bool
	}
	done := make(chan outcome, 1)
	go func() {
		var o outcome
		o.err = connB.QueryRow(&o.row, key, func(conn sqlx.Conn, v any) error {
			o.queried = true
			*v.(*string) = "row of tenant B"
			return nil
		})
		done <- o
	}()

	time.Sleep(200 * time.Millisecond)
	close(release)

	select {
	case o := <-done:
		if o.err != nil {
			t.Fatal(o.err)
		}
		if o.row != "row of tenant B" {
			t.Fatalf("read through connection B returned %q (B's database queried: %v, B's redis holds the key: %v); "+
				"B's database row is %q", o.row, o.queried, mrB.Exists(key), "row of tenant B")
		}
	case <-time.After(5 * time.Second):
		t.Fatal("reader B never returned")
	}
}
