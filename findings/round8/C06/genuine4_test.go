// place in: lib/store/sqlc
package sqlc

import (
	"fmt"
	"testing"
	"time"

	"github.com/alicebob/miniredis/v2"
	"github.com/gotid/god/lib/store/cache"
	"github.com/gotid/god/lib/store/redis"
	"github.com/gotid/god/lib/store/sqlx"
)

// TestGenuineDemo: two concurrent readers of one uncached key. The query callback of
// the FIRST reader panics (a bug in that request's own code; its caller recovers, as
// every HTTP/RPC server does). The SECOND reader has a perfectly fine callback and
// the row exists - yet its QueryRow does not return the row or an error: it blows up
// inside the library with "interface conversion: interface {} is nil, not []uint8"
// (node.doTake asserts the shared result to []byte; the flight that panicked left
// val == nil and err == nil behind).
func TestGenuineDemo(t *testing.T) {
	mr := miniredis.RunT(t)
	c := NewNodeConn(dummySqlConn{}, redis.New(mr.Addr()), cache.WithExpire(time.Hour))
	const key = "cache:user:id:1"

	entered := make(chan struct{})
	release := make(chan struct{})
	go func() {
		defer func() { _ = recover() }() // reader A's own middleware recovers A's own panic
		var row string
		_ = c.QueryRow(&row, key, func(conn sqlx.Conn, v any) error {
			close(entered)
			<-release
			panic("bug in reader A's query callback")
		})
	}()
	<-entered

	type outcome struct {
		row       string
		err       error
		recovered any
	}
	done := make(chan outcome, 1)
	go func() {
		var o outcome
		defer func() {
			o.recovered = recover()
			done <- o
		}()
		o.err = c.QueryRow(&o.row, key, func(conn sqlx.Conn, v any) error {
			*v.(*string) = "row"
			return nil
		})
	}()

	time.Sleep(200 * time.Millisecond) // let reader B join reader A's flight
	close(release)

	select {
	case o := <-done:
		if o.recovered != nil {
			t.Fatalf("reader B (healthy callback, row exists) panicked inside the library: %v", o.recovered)
		}
		if o.err == nil && o.row != "row" {
			t.Fatalf("reader B got no error but not the row either: %q", o.row)
		}
		// acceptable: the row, or an error telling B that the shared load failed
		fmt.Println("reader B:", o.row, o.err)
	case <-time.After(5 * time.Second):
		t.Fatal("reader B never returned")
	}
}
