// place in: tools/god/util/stringx
package stringx

import (
	"testing"
	"unicode/utf8"
)

// UnTitle ("lower-case the first letter"; the camel -> lowerCamel step used all over
// the generators) looks at the first BYTE of the string as if it were a rune.
// For every string whose first character is not ASCII, that byte (0xC2..0xF4) is read
// as a Latin-1 letter (e.g. 0xE6 -> 'æ'), re-encoded as two bytes and glued in front of
// the remaining continuation bytes: the identifier is corrupted into invalid UTF-8.
func TestGenuineDemo(t *testing.T) {
	cases := []struct{ in, want string }{
		{"测试Data", "测试Data"}, // first rune has no case: must come back unchanged (see doc comment of UnTitle)
		{"Éclair", "éclair"},   // first rune is an upper-case letter: only that letter is lower-cased
		{"éclair", "éclair"},   // already lower-case
		{"Ünit_id", "ünit_id"},
	}
	for _, c := range cases {
		got := From(c.in).UnTitle()
		if !utf8.ValidString(got) {
			t.Errorf("From(%q).UnTitle() = %q: valid UTF-8 input was turned into invalid UTF-8 (want %q)", c.in, got, c.want)
			continue
		}
		if got != c.want {
			t.Errorf("From(%q).UnTitle() = %q; want %q", c.in, got, c.want)
		}
	}

	// the camel conversion itself copes with the same identifiers
	if got := From("测试_test_Data").ToCamel(); got != "测试TestData" {
		t.Errorf("control: ToCamel = %q", got)
	}
}
