// place in: tools/god/util/format
package format

import "testing"

// Identifiers are arbitrary strings. A byte that is not valid UTF-8 is neither an
// underscore nor an upper-case letter, so it belongs to a word and the word has to be
// rendered (lower-cased here, it contains no cased letter besides ASCII lower-case
// ones). split() pushes every such byte through ReadRune/WriteRune, which replaces it by
// U+FFFD (3 bytes): the file name no longer consists of the identifier's words, and
// different identifiers are rendered to the same file name.
func TestGenuineDemo(t *testing.T) {
	a, errA := FileNamingFormat("go_designer", "tab\xffle_x")
	b, errB := FileNamingFormat("go_designer", "tab\xfele_x")
	if errA != nil || errB != nil {
		t.Fatalf("unexpected errors: %v, %v", errA, errB)
	}
	if a != "tab\xffle_x" {
		t.Errorf("FileNamingFormat(go_designer, %q) = %q; want the identifier's words unchanged: %q", "tab\xffle_x", a, "tab\xffle_x")
	}
	if a == b {
		t.Errorf("two different identifiers %q and %q are rendered to the same file name %q", "tab\xffle_x", "tab\xfele_x", a)
	}

	// the words function alone already loses the byte
	words, _ := split("tab\xffle")
	if len(words) != 1 || words[0] != "tab\xffle" {
		t.Errorf("split(%q) = %q; want [%q]", "tab\xffle", words, "tab\xffle")
	}
}
