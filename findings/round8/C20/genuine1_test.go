// place in: tools/god/util/format
package format

import "testing"

// The template "designer_go_designer" contains the word 'go' and, after it,
// the word 'designer' (both in a single casing), so by the property it is a
// valid template: prefix "designer_", separator "_", empty suffix.
// FileNamingFormat compares the FIRST "designer" of the whole template with
// the first "go" and rejects the template as "wrong order".
func TestGenuineDemo(t *testing.T) {
	cases := []struct{ tpl, id, want string }{
		{"designer_go_designer", "user_name", "designer_user_name"},
		{"designer_go_designer", "", "designer_"},
		{"Designer.Go-Designer.x", "userName", "Designer.User-Name.x"},
		{"DESIGNERS/go_designer", "user_name", "DESIGNERS/user_name"},
	}
	for _, c := range cases {
		got, err := FileNamingFormat(c.tpl, c.id)
		if err != nil {
			t.Errorf("FileNamingFormat(%q, %q) rejected a template that contains 'go' then 'designer': err = %v; want %q",
				c.tpl, c.id, err, c.want)
			continue
		}
		if got != c.want {
			t.Errorf("FileNamingFormat(%q, %q) = %q; want %q", c.tpl, c.id, got, c.want)
		}
	}

	// control: the mirrored situation (a second "go" in the suffix) is accepted today,
	// which shows the asymmetry.
	if got, err := FileNamingFormat("go_designer_go", "user_name"); err != nil || got != "user_name_go" {
		t.Errorf("control: FileNamingFormat(go_designer_go, user_name) = %q, %v", got, err)
	}
}
