// place in: rpc/internal/balancer/p2c
package p2c

// Genuine violation of C14, clause "each connection's success score stays within [0, 1000]
// (and moves towards 1000 on acceptable completions)".
//
// The completion callback computes
//     nSuccess = float64(oSuccess)*w + float64(initSuccess)*(1-w)      w = exp(-td/10s)
//     nSuccess = math.Ceil(nSuccess)                                    (on acceptable completions)
// For oSuccess == 1000 the exact value is 1000, but in float64 the two rounded products can add up
// to the next double above 1000 (1000.0000000000001). This happens as soon as w < 0.5, i.e. when the
// previous completion on that connection is more than ~6.93 s old (6-11 % of all such spacings).
// math.Ceil then turns the 1-ulp overshoot into a full point and 1001 is stored. Once at 1001 the
// score never comes back under acceptable completions (ceil(1000 + w) == 1001 for every w > 0).
//
// The test only uses Pick / Done. The spacing in time between completions (the property allows
// "arbitrary spacing in time") is simulated by moving the connection's `last` completion stamp into
// the past instead of sleeping 8..40 s between calls; nothing else of the state is touched.

import (
	"context"
	"sync/atomic"
	"testing"
	"time"

	"github.com/gotid/god/lib/timex"
	"google.golang.org/grpc/balancer"
	"google.golang.org/grpc/balancer/base"
	"google.golang.org/grpc/resolver"
)

func TestGenuineDemo(t *testing.T) {
	ready := map[balancer.SubConn]base.SubConnInfo{
		mockClientConn{id: "only"}: {Address: resolver.Address{Addr: "only"}},
	}
	picker := new(p2cPickerBuilder).Build(base.PickerBuildInfo{ReadySCs: ready}).(*p2cPicker)
	c := picker.conns[0]

	call := func() {
		res, err := picker.Pick(balancer.PickInfo{FullMethodName: "/", Ctx: context.Background()})
		if err != nil {
			t.Fatalf("pick: %v", err)
		}
		res.Done(balancer.DoneInfo{}) // acceptable completion (no error)
	}

	call() // first completion seeds the estimates
	if s := atomic.LoadUint64(&c.success); s != initSuccess {
		t.Fatalf("unexpected score after the first acceptable completion: %d", s)
	}

	// one acceptable call every 8 s .. ~40 s, all of them succeed
	for i := 0; i < 4000; i++ {
		gap := 8*time.Second + time.Duration(i)*7919*time.Microsecond
		// pretend the previous completion happened `gap` ago
		atomic.StoreInt64(&c.last, int64(timex.Now()-gap))
		call()
		if s := atomic.LoadUint64(&c.success); s > initSuccess {
			// show that it also sticks
			for j := 0; j < 1000; j++ {
				call()
			}
			t.Fatalf("success score left [0,%d]: it became %d after acceptable completion #%d "+
				"(previous completion ~%v earlier); after 1000 further acceptable completions it is %d",
				initSuccess, s, i+2, gap, atomic.LoadUint64(&c.success))
		}
	}
}
