// place in: lib/store/redis
package redis

import (
	"context"
	"errors"
	"fmt"
	"net"
	"syscall"
	"testing"
	"time"

	"github.com/gotid/god/lib/breaker"
)

// hangingAddr returns the address of a TCP socket that is listening with a
// zero backlog and whose accept queue is already full, so every further
// connect() to it hangs (the SYN is dropped) until the dialer gives up.
func hangingAddr(t *testing.T) (addr string, stop func()) {
	fd, err := syscall.Socket(syscall.AF_INET, syscall.SOCK_STREAM, 0)
	if err != nil {
		t.Skipf("socket: %v", err)
	}
	sa := &syscall.SockaddrInet4{Port: 0, Addr: [4]byte{127, 0, 0, 1}}
	if err := syscall.Bind(fd, sa); err != nil {
		t.Skipf("bind: %v", err)
	}
	if err := syscall.Listen(fd, 0); err != nil {
		t.Skipf("listen: %v", err)
	}
	name, err := syscall.Getsockname(fd)
	if err != nil {
		t.Skipf("getsockname: %v", err)
	}
	addr = fmt.Sprintf("127.0.0.1:%d", name.(*syscall.SockaddrInet4).Port)

	// fill the accept queue
	var fillers []net.Conn
	for i := 0; i < 8; i++ {
		c, err := net.DialTimeout("tcp", addr, 200*time.Millisecond)
		if err != nil {
			break
		}
		fillers = append(fillers, c)
	}
	// make sure a further dial really hangs
	if c, err := net.DialTimeout("tcp", addr, 300*time.Millisecond); err == nil {
		c.Close()
		t.Skip("could not build a hanging address on this platform")
	}

	return addr, func() {
		for _, c := range fillers {
			c.Close()
		}
		syscall.Close(fd)
	}
}

// TestGenuineDemo: cancelling the caller's context while PipelinedCtx is still
// dialling makes go-redis return `dial tcp ...: operation was canceled`
// (a *net.OpError that errors.Is(context.Canceled) but is not == to it).
// acceptable() compares with ==, so every such cancellation is recorded as a
// breaker failure; a burst of cancelled requests opens the breaker.
func TestGenuineDemo(t *testing.T) {
	addr, stop := hangingAddr(t)
	defer stop()

	r := New(addr)

	const n = 60
	for i := 0; i < n; i++ {
		ctx, cancel := context.WithCancel(context.Background())
		time.AfterFunc(15*time.Millisecond, cancel)
		err := r.PipelinedCtx(ctx, func(p Pipeliner) error {
			p.Get(ctx, "k")
			return nil
		})
		cancel()
		if err == breaker.ErrServiceUnavailable {
			t.Fatalf("call %d: breaker already open after only context cancellations", i)
		}
		if err == nil || !errors.Is(err, context.Canceled) {
			t.Skipf("call %d: expected a cancellation error, got %v (environment does not reproduce a hanging dial)", i, err)
		}
		if i == 0 && !acceptable(err) {
			t.Logf("call %d: cancellation error %q (%T) is not acceptable() => counted as breaker failure", i, err, err)
		}
	}

	rejected := 0
	for i := 0; i < 20; i++ {
		p, err := r.brk.Allow()
		if err != nil {
			rejected++
			continue
		}
		p.Accept()
	}
	if rejected > 0 {
		t.Fatalf("after %d calls that failed ONLY because the caller cancelled its context, "+
			"the breaker rejects requests (%d of 20 probes rejected)", n, rejected)
	}
}
