// place in: lib/store/kv
package kv

import (
	"math"
	"testing"

	"github.com/alicebob/miniredis/v2"
	"github.com/gotid/god/lib/store/cache"
	"github.com/gotid/god/lib/store/redis"
)

// TestGenuineDemo: a shard weight is documented as a percentage that is capped
// at 100 ("AddWithReplicas ... 最大副本数将被限制在 h.replicas 以内"), so any weight
// >= 100 should behave like 100. kv.New accepts the configuration (total
// weight > 0) but ConsistentHash.AddWithWeight computes h.replicas*weight
// before dividing, which overflows for large weights: the shard silently gets
// zero virtual nodes and every command of the store fails with ErrNoRedisNode.
func TestGenuineDemo(t *testing.T) {
	mr, err := miniredis.Run()
	if err != nil {
		t.Fatal(err)
	}
	defer mr.Close()

	for _, w := range []int{100, 1000, math.MaxInt32 * 1000, math.MaxInt64 / 100, math.MaxInt64/100 + 1, math.MaxInt64 / 64, math.MaxInt64 / 2} {
		store := New([]cache.NodeConfig{{
			Config: redis.Config{Host: mr.Addr(), Type: redis.NodeType},
			Weight: w,
		}})
		if err := store.Set("k", "v"); err != nil {
			t.Errorf("single shard with weight %d: Set failed: %v", w, err)
			continue
		}
		if v, err := store.Get("k"); err != nil || v != "v" {
			t.Errorf("single shard with weight %d: Get = (%q, %v)", w, v, err)
		}
	}
}
