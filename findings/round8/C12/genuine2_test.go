// place in: lib/store/redis
package redis

import (
	"bufio"
	"crypto/ecdsa"
	"crypto/elliptic"
	"crypto/rand"
	"crypto/tls"
	"crypto/x509"
	"crypto/x509/pkix"
	"math/big"
	"net"
	"strings"
	"testing"
	"time"
)

// fakeTLSRedis is a minimal TLS-only RESP server: every command read from a
// (successfully TLS-handshaken) connection is answered, BLPOP with a
// two-element array [key, "v"], everything else with +OK.
func fakeTLSRedis(t *testing.T) (addr string, stop func()) {
	key, err := ecdsa.GenerateKey(elliptic.P256(), rand.Reader)
	if err != nil {
		t.Fatal(err)
	}
	tmpl := &x509.Certificate{
		SerialNumber: big.NewInt(1),
		Subject:      pkix.Name{CommonName: "localhost"},
		NotBefore:    time.Now().Add(-time.Hour),
		NotAfter:     time.Now().Add(time.Hour),
		IPAddresses:  []net.IP{net.ParseIP("127.0.0.1")},
	}
	der, err := x509.CreateCertificate(rand.Reader, tmpl, tmpl, &key.PublicKey, key)
	if err != nil {
		t.Fatal(err)
	}
	cert := tls.Certificate{Certificate: [][]byte{der}, PrivateKey: key}
	ln, err := tls.Listen("tcp", "127.0.0.1:0", &tls.Config{Certificates: []tls.Certificate{cert}})
	if err != nil {
		t.Fatal(err)
	}

	go func() {
		for {
			conn, err := ln.Accept()
			if err != nil {
				return
			}
			go func(c net.Conn) {
				defer c.Close()
				rd := bufio.NewReader(c)
				for {
					// read one RESP array of bulk strings
					line, err := rd.ReadString('\n')
					if err != nil {
						return
					}
					if !strings.HasPrefix(line, "*") {
						return
					}
					n := 0
					for _, ch := range strings.TrimSpace(line[1:]) {
						n = n*10 + int(ch-'0')
					}
					args := make([]string, 0, n)
					for i := 0; i < n; i++ {
						if _, err := rd.ReadString('\n'); err != nil { // $len
							return
						}
						v, err := rd.ReadString('\n')
						if err != nil {
							return
						}
						args = append(args, strings.TrimSpace(v))
					}
					if len(args) > 0 && strings.EqualFold(args[0], "blpop") {
						c.Write([]byte("*2\r\n$1\r\nk\r\n$1\r\nv\r\n"))
					} else {
						c.Write([]byte("+OK\r\n"))
					}
				}
			}(conn)
		}
	}()

	return ln.Addr().String(), func() { ln.Close() }
}

// TestGenuineDemo: a Redis configured with WithTLS() talks TLS for every
// breaker-protected command, but the node CreateBlockingNode builds for the
// BLPop* commands ignores the TLS setting and connects in plaintext, so the
// blocking list commands of the same wrapper instance cannot reach the server.
func TestGenuineDemo(t *testing.T) {
	addr, stop := fakeTLSRedis(t)
	defer stop()

	r := New(addr, WithTLS())

	// sanity: the ordinary (non-blocking) path of the same instance works over TLS.
	if err := r.Set("k", "v"); err != nil {
		t.Fatalf("Set over TLS failed (test setup problem): %v", err)
	}

	node, err := CreateBlockingNode(r)
	if err != nil {
		t.Fatal(err)
	}
	defer node.Close()

	if cb, ok := node.(*clientBridge); ok && cb.Options().TLSConfig == nil {
		t.Errorf("CreateBlockingNode(New(addr, WithTLS())) built a client without TLSConfig: " +
			"the TLS setting of the Redis instance is dropped")
	}

	done := make(chan struct{})
	var val string
	go func() {
		defer close(done)
		val, err = r.BLPopWithTimeout(node, time.Second, "k")
	}()
	select {
	case <-done:
	case <-time.After(15 * time.Second):
		t.Fatal("BLPop did not return")
	}
	if err != nil || val != "v" {
		t.Fatalf("BLPop through the blocking node of a TLS Redis = (%q, %v); want (\"v\", nil) "+
			"as go-redis BLPop with the same TLS options returns", val, err)
	}
}
