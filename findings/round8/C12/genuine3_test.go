// place in: lib/store/redis
package redis

import (
	"context"
	"testing"
	"time"

	"github.com/alicebob/miniredis/v2"
	red "github.com/go-redis/redis/v8"
)

// TestGenuineDemo: SetEx(key, value, seconds) ("set the value and its time to
// live in seconds; the key is deleted when it expires") is implemented with
// go-redis Set(..., time.Duration(seconds)*time.Second). go-redis Set treats
// every non-positive duration as "no expiration", so SetEx with seconds <= 0
// is ACCEPTED and stores the key for ever, whereas the Redis/go-redis command
// it is named after (SETEX / SetEX) rejects it with "invalid expire time", and
// the sibling SetNXEx rejects a negative value as well.
func TestGenuineDemo(t *testing.T) {
	mr, err := miniredis.Run()
	if err != nil {
		t.Fatal(err)
	}
	defer mr.Close()

	ctx := context.Background()
	raw := red.NewClient(&red.Options{Addr: mr.Addr()})
	defer raw.Close()
	r := New(mr.Addr())

	for _, seconds := range []int{0, -1, -5} {
		key := "k"
		mr.FlushAll()

		wantErr := raw.SetEX(ctx, key, "v", time.Duration(seconds)*time.Second).Err()
		if wantErr == nil {
			t.Fatalf("setup: go-redis SetEX(%ds) unexpectedly succeeded", seconds)
		}
		mr.FlushAll()

		gotErr := r.SetEx(key, "v", seconds)
		ttl, _ := r.TTL(key)
		exists, _ := r.Exists(key)
		if gotErr == nil {
			t.Errorf("SetEx(%q, \"v\", %d) = nil error, key exists=%v with TTL=%d (-1 = never expires); "+
				"go-redis SetEX with the same arguments fails with %q and stores nothing",
				key, seconds, exists, ttl, wantErr)
		}
	}

	// the sibling with the same signature does reject a negative life time
	if _, err := r.SetNXEx("nx", "v", -5); err == nil {
		t.Errorf("SetNXEx with -5 seconds unexpectedly succeeded")
	}
}
