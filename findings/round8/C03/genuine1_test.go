// place in: api
package api

import (
	"net/http"
	"net/http/httptest"
	"testing"

	"github.com/gotid/god/api/chain"
	"github.com/gotid/god/api/router"
)

// A caller builds its route groups in one reusable buffer (a very common Go
// idiom: `buf = buf[:0]; buf = append(buf, ...)`).  Server.AddRoutes keeps the
// caller's slice itself instead of a copy, so filling the buffer for the second
// group silently rewrites the first, already registered, group: GET /a is lost
// and GET /b is registered twice (which makes binding fail altogether).
func TestGenuineDemo(t *testing.T) {
	passThrough := func(next http.Handler) http.Handler { return next }
	server := MustNewServer(Config{}, WithChain(chain.New(passThrough)))

	var hit string
	mk := func(name string) http.HandlerFunc {
		return func(w http.ResponseWriter, r *http.Request) { hit = name }
	}

	buf := make([]Route, 0, 4)
	buf = append(buf, Route{Method: http.MethodGet, Path: "/a", Handler: mk("a")})
	server.AddRoutes(buf) // group 1 registered: GET /a

	buf = buf[:0]
	buf = append(buf, Route{Method: http.MethodGet, Path: "/b", Handler: mk("b")})
	server.AddRoutes(buf, WithPriority()) // group 2 registered: GET /b

	var got []string
	for _, r := range server.Routes() {
		got = append(got, r.Method+" "+r.Path)
	}
	if len(got) != 2 || got[0] != "GET /a" || got[1] != "GET /b" {
		t.Errorf("registered routes are GET /a and GET /b, but the server holds %v", got)
	}

	rt := router.NewRouter()
	if err := server.ng.bindRoutes(rt); err != nil {
		t.Errorf("binding two distinct routes failed: %v", err)
	}

	for _, p := range []string{"/a", "/b"} {
		hit = ""
		w := httptest.NewRecorder()
		rt.ServeHTTP(w, httptest.NewRequest(http.MethodGet, p, http.NoBody))
		if hit != p[1:] {
			t.Errorf("GET %s: want handler %q invoked, got handler %q, status %d", p, p[1:], hit, w.Code)
		}
	}
}
