// place in: api
package api

import (
	"net/http"
	"net/http/httptest"
	"testing"

	"github.com/gotid/god/api/chain"
	"github.com/gotid/god/api/router"
)

// A route whose path does not start with '/' must be rejected at registration.
// That holds for a plain group, but the same un-rooted route is silently
// accepted (and served) as soon as the group carries WithPrefix, because
// path.Join glues the pieces together before the router ever sees the path.
// With "../" inside the un-rooted path the route even escapes its own prefix.
func TestGenuineDemo(t *testing.T) {
	passThrough := func(next http.Handler) http.Handler { return next }
	nop := func(w http.ResponseWriter, r *http.Request) {}

	// reference: without a prefix the un-rooted path is rejected
	plain := MustNewServer(Config{}, WithChain(chain.New(passThrough)))
	plain.AddRoutes([]Route{{Method: http.MethodGet, Path: "users", Handler: nop}})
	if err := plain.ng.bindRoutes(router.NewRouter()); err == nil {
		t.Fatalf("reference broken: un-rooted path \"users\" accepted without prefix")
	}

	for _, p := range []struct{ path, served string }{
		{"users", "/api/users"},
		{"../admin", "/admin"},
		{"", "/api"},
	} {
		var hit bool
		srv := MustNewServer(Config{}, WithChain(chain.New(passThrough)))
		srv.AddRoutes([]Route{{Method: http.MethodGet, Path: p.path,
			Handler: func(w http.ResponseWriter, r *http.Request) { hit = true }}}, WithPrefix("/api"))
		rt := router.NewRouter()
		err := srv.ng.bindRoutes(rt)
		rt.ServeHTTP(httptest.NewRecorder(), httptest.NewRequest(http.MethodGet, p.served, http.NoBody))
		if err == nil || hit {
			t.Errorf("route path %q (not starting with '/') in a WithPrefix(\"/api\") group: "+
				"want registration rejected, got err=%v and GET %s served=%v", p.path, err, p.served, hit)
		}
	}
}
