// place in: lib/load
package load

import (
	"sync/atomic"
	"testing"
	"time"

	"github.com/gotid/god/lib/logx"
	"github.com/gotid/god/lib/stat"
)

// The capacity of the adaptive shedder is
//   max passes per bucket x buckets per second x min average latency.
// minRt() rounds every bucket's average latency to a WHOLE millisecond
// (math.Round) before taking the minimum, so an average of 1.33 ms is used as
// 1 ms and the capacity is under-estimated by 25 %.  A request that arrives
// while both the current and the smoothed in-flight numbers are BELOW the
// capacity estimated from the window is rejected.
func TestGenuineDemo(t *testing.T) {
	logx.Disable()
	stat.SetReporter(nil)
	DisableLog()

	// TestNopShedder (same package) calls Disable(); make sure a real shedder is built
	wasEnabled := enabled.True()
	enabled.Set(true)
	defer enabled.Set(wasEnabled)

	old := systemOverloadChecker
	defer func() { systemOverloadChecker = old }()
	systemOverloadChecker = func(int64) bool { return true } // CPU is over the threshold

	// 5 buckets of 200 ms -> exactly 5 buckets per second
	const (
		window  = time.Second
		nbucket = 5
	)
	as := NewAdaptiveShedder(WithWindow(window), WithBuckets(nbucket)).(*adaptiveShedder)
	if as.windows != 5 {
		t.Fatalf("unexpected buckets per second: %v", as.windows)
	}

	// One bucket: 3000 requests passed; their latencies (already in whole
	// milliseconds, exactly what promise.Pass records after math.Ceil) are
	// 1 ms, 1 ms, 2 ms, 1 ms, 1 ms, 2 ms ...  -> average 4/3 ms.
	for i := 0; i < 3000; i++ {
		as.passCounter.Add(1)
		if i%3 == 2 {
			as.rtCounter.Add(2)
		} else {
			as.rtCounter.Add(1)
		}
	}
	// let that bucket become a completed one (the current bucket is ignored)
	time.Sleep(window/nbucket + window/nbucket/2)

	// capacity by the property: 3000 * 5 * (4/3 ms) / 1000 = 20 requests in flight
	const exactCapacity = 20
	const inflight = 18 // below the capacity

	atomic.StoreInt64(&as.flying, inflight)
	as.avgFlying = inflight

	if got := as.maxPass(); got != 3000 {
		t.Fatalf("maxPass = %d, want 3000 (timing problem in the test?)", got)
	}

	_, err := as.Allow()
	if err != nil {
		t.Fatalf("request rejected although in-flight (%d) and smoothed in-flight (%d) are both below the "+
			"capacity %d = maxPass(3000) x bucketsPerSecond(5) x minAvgLatency(1.333ms): "+
			"minRt() = %v ms (should be 1.333), maxFlight() = %d (should be %d): %v",
			inflight, inflight, exactCapacity, as.minRt(), as.maxFlight(), exactCapacity, err)
	}
}
