// place in: lib/timex
package timex

import (
	"strings"
	"testing"
	"time"
)

// timex.Now() is the time base of the rolling window (bucket boundaries) and of
// the shedder's one-second cool-off.  It is computed as time.Since(initTime),
// but initTime = time.Now().AddDate(-1,-1,-1) has LOST its monotonic clock
// reading (AddDate rebuilds the value with time.Date), so time.Since falls back
// to the WALL clock: every NTP step / manual clock change moves timex.Now() by
// the same amount, forwards or backwards.
func TestGenuineDemo(t *testing.T) {
	// Time.String() prints " m=±<seconds>" exactly when the value carries a monotonic reading.
	if !strings.Contains(initTime.String(), " m=") {
		// show the consequence with the same arithmetic time.Since uses
		wallBased := time.Now().Round(0).Sub(initTime) // Round(0) strips the monotonic reading
		t.Fatalf("timex.initTime (%s) carries no monotonic clock reading, so timex.Now() = wall clock - initTime "+
			"(%v now); a wall-clock step of +/-d shifts timex.Now() by +/-d: a forward step >= window expires every "+
			"bucket of every RollingWindow although the values were just added, a backward step makes "+
			"now-lastTime negative (spanAt -> size: whole window dropped) and keeps the shedder 'still hot' "+
			"for the length of the step", initTime, wallBased)
	}
}
