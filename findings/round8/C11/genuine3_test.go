// place in: lib/store/sqlx
package sqlx

import (
	"context"
	"database/sql"
	"testing"

	"github.com/DATA-DOG/go-sqlmock"
	"github.com/gotid/god/lib/logx"
)

// Destination with pointer fields, result set with a MISSING column (allowed in
// the non-strict "Partial" queries). Only the columns of the result may be copied
// into the destination; here the pointer field whose column is absent is
// nevertheless overwritten: it comes back as a non-nil pointer to a zero value,
// indistinguishable from a row that really holds ""/0 in that column, and a
// value the caller had put there through a nil pointer ("unknown") is lost.
// Cause: unwrapFields allocates EVERY nil pointer field of the destination as a
// side effect of merely counting the fields.
func TestGenuineDemo(t *testing.T) {
	logx.Disable()

	type user struct {
		ID    string  `db:"id"`
		Nick  *string `db:"nick"`
		Score *int64  `db:"score"`
	}

	db, mock, err := sqlmock.New()
	if err != nil {
		t.Fatal(err)
	}
	defer db.Close()

	mock.ExpectQuery("select").WillReturnRows(sqlmock.NewRows([]string{"id"}).AddRow("u-1"))
	var one user
	err = query(context.Background(), db, func(rows *sql.Rows) error {
		return unmarshalRow(&one, rows, false)
	}, "select id from users")
	if err != nil {
		t.Fatalf("unexpected error: %v", err)
	}
	if one.ID != "u-1" {
		t.Fatalf("id not mapped: %+v", one)
	}
	if one.Nick != nil || one.Score != nil {
		t.Errorf("single row: result has only column id, yet the pointer fields of the absent columns were filled in: Nick=%v Score=%v (want nil, nil)",
			deref(one.Nick), deref(one.Score))
	}

	mock.ExpectQuery("select").WillReturnRows(sqlmock.NewRows([]string{"id"}).AddRow("u-1").AddRow("u-2"))
	var many []user
	err = query(context.Background(), db, func(rows *sql.Rows) error {
		return unmarshalRows(&many, rows, false)
	}, "select id from users")
	if err != nil {
		t.Fatalf("unexpected error: %v", err)
	}
	for i, u := range many {
		if u.Nick != nil || u.Score != nil {
			t.Errorf("many rows: row %d: pointer fields of absent columns are non-nil: Nick=%v Score=%v", i, deref(u.Nick), deref(u.Score))
		}
	}
}

func deref[T any](p *T) any {
	if p == nil {
		return nil
	}
	return *p
}
