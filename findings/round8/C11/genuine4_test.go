// place in: lib/store/sqlx
package sqlx

import (
	"context"
	"database/sql"
	"runtime"
	"testing"
)

type genuine4Tx struct {
	mockTx
	commits, rollbacks int
}

func (m *genuine4Tx) Commit() error   { m.commits++; return nil }
func (m *genuine4Tx) Rollback() error { m.rollbacks++; return nil }

// The body neither returns nil, nor returns an error, nor panics: it terminates
// its goroutine with runtime.Goexit (this is what testing.T.FailNow / require.*
// do, and what some frameworks do to abort a request). The deferred function of
// transactOnConn then sees recover()==nil and err==nil and COMMITS a transaction
// whose body never completed. "Transact commits iff the supplied function
// returns nil" - it did not return at all.
func TestGenuineDemo(t *testing.T) {
	tx := &genuine4Tx{}
	done := make(chan struct{})
	go func() {
		defer close(done)
		_ = transactOnConn(context.Background(), nil,
			func(*sql.DB) (trans, error) { return tx, nil },
			func(_ context.Context, s Session) error {
				_, _ = s.Exec("update accounts set balance = balance - 10 where id = 1")
				runtime.Goexit() // aborts before the matching credit is written
				_, _ = s.Exec("update accounts set balance = balance + 10 where id = 2")
				return nil
			})
	}()
	<-done

	if tx.commits != 0 || tx.rollbacks != 1 {
		t.Fatalf("body did not return nil (goroutine exited half-way), yet commits=%d rollbacks=%d (want 0 commits, 1 rollback)", tx.commits, tx.rollbacks)
	}
}
