// place in: lib/store/sqlx
package sqlx

import (
	"context"
	"database/sql"
	"testing"

	"github.com/DATA-DOG/go-sqlmock"
	"github.com/gotid/god/lib/logx"
)

// A destination whose columns carry `db` tags, plus ONE field without a tag
// (a computed / non-persistent field, or simply a forgotten tag). The result
// set has exactly the tagged columns, in an order different from the field
// order. The property: "copied into the destination by column name through
// `db` tags ..., independent of column order". Actual: the single untagged
// field makes getTaggedFieldValueMap return (nil, nil), every tag is silently
// ignored and the row is scanned BY POSITION: id and name are swapped, nil error.
func TestGenuineDemo(t *testing.T) {
	logx.Disable()

	type user struct {
		ID    string `db:"id"`
		Name  string `db:"name"`
		dirty bool   // not a column
	}
	_ = user{}.dirty

	db, mock, err := sqlmock.New()
	if err != nil {
		t.Fatal(err)
	}
	defer db.Close()

	// single row, non-strict ("partial") query, columns permuted
	mock.ExpectQuery("select").WillReturnRows(
		sqlmock.NewRows([]string{"name", "id"}).AddRow("alice", "u-1"))
	var one user
	err = query(context.Background(), db, func(rows *sql.Rows) error {
		return unmarshalRow(&one, rows, false)
	}, "select name, id from users")
	if err != nil {
		t.Logf("single row: error %v (an error would be acceptable, silent mis-assignment is not)", err)
	} else if one.ID != "u-1" || one.Name != "alice" {
		t.Errorf("single row: columns (name,id)=(alice,u-1) mapped to the wrong tagged fields with a nil error: ID=%q (want u-1) Name=%q (want alice)", one.ID, one.Name)
	}

	// strict single-row query: one exported field lost its tag, all columns present
	type account struct {
		ID    string `db:"id"`
		Owner string `db:"owner"`
		Note  string // tag forgotten
	}
	mock.ExpectQuery("select").WillReturnRows(
		sqlmock.NewRows([]string{"owner", "id", "note"}).AddRow("alice", "a-1", "n"))
	var acc account
	err = query(context.Background(), db, func(rows *sql.Rows) error {
		return unmarshalRow(&acc, rows, true)
	}, "select owner, id, note from accounts")
	if err != nil {
		t.Logf("strict: error %v", err)
	} else if acc.ID != "a-1" || acc.Owner != "alice" {
		t.Errorf("strict: tagged fields filled by position with a nil error: ID=%q (want a-1) Owner=%q (want alice)", acc.ID, acc.Owner)
	}

	// many rows, same thing
	mock.ExpectQuery("select").WillReturnRows(
		sqlmock.NewRows([]string{"name", "id"}).AddRow("alice", "u-1").AddRow("bob", "u-2"))
	var many []user
	err = query(context.Background(), db, func(rows *sql.Rows) error {
		return unmarshalRows(&many, rows, false)
	}, "select name, id from users")
	if err != nil {
		t.Logf("many rows: error %v", err)
	} else {
		for i, u := range many {
			want := []user{{ID: "u-1", Name: "alice"}, {ID: "u-2", Name: "bob"}}[i]
			if u.ID != want.ID || u.Name != want.Name {
				t.Errorf("many rows: row %d mapped by position instead of by tag: got ID=%q Name=%q, want ID=%q Name=%q", i, u.ID, u.Name, want.ID, want.Name)
			}
		}
	}
}
