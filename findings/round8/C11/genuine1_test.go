// place in: lib/store/sqlx
package sqlx

import (
	"context"
	"database/sql"
	"errors"
	"testing"
)

// genuine1Tx is a transaction whose Rollback reports a driver fault.
type genuine1Tx struct {
	mockTx
	commits, rollbacks int
	rollbackErr        error
}

func (m *genuine1Tx) Commit() error   { m.commits++; return nil }
func (m *genuine1Tx) Rollback() error { m.rollbacks++; return m.rollbackErr }

// The body fails with a well-known error (here ErrNotFound, the error every
// caller of this package compares against); the driver then also fails the
// Rollback. The property says Transact "rolls back and returns the function's
// error" for every driver fault at Rollback. What comes back is a brand-new
// error that only wraps the ROLLBACK error; the function's error survives as
// text only, so `err == ErrNotFound` and `errors.Is(err, ErrNotFound)` are false.
func TestGenuineDemo(t *testing.T) {
	bodyErr := ErrNotFound
	rbErr := errors.New("driver: connection reset during ROLLBACK")
	tx := &genuine1Tx{rollbackErr: rbErr}

	err := transactOnConn(context.Background(), nil,
		func(*sql.DB) (trans, error) { return tx, nil },
		func(context.Context, Session) error { return bodyErr })

	if tx.commits != 0 || tx.rollbacks != 1 {
		t.Fatalf("expected exactly one rollback and no commit, got commits=%d rollbacks=%d", tx.commits, tx.rollbacks)
	}
	if err == nil {
		t.Fatal("expected an error")
	}
	if !errors.Is(err, bodyErr) {
		t.Fatalf("Transact must return the function's error (%v), but the returned error %q does not match it: errors.Is(err, bodyErr)=%v, errors.Is(err, rollbackErr)=%v",
			bodyErr, err, errors.Is(err, bodyErr), errors.Is(err, rbErr))
	}
}
