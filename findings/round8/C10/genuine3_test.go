// place in: lib/collection
package collection

import (
	"runtime"
	"sync"
	"testing"
	"time"

	"github.com/gotid/god/lib/timex"
)

// All tasks that are due at the same tick are executed one after the other on
// ONE goroutine. A panic of one task is contained (RunSafe per task), but when
// the execute callback of one task ends its goroutine - runtime.Goexit, which
// is what t.Fatal / t.FailNow / t.Skip do when they are called from a callback -
// every other task of that tick is silently lost: it never fires, although it
// was neither removed nor drained. (The same sharing lets one callback that
// blocks hold back all other tasks of the tick for as long as it blocks.)
func TestGenuineDemo(t *testing.T) {
	const step = time.Minute
	var (
		lock  sync.Mutex
		fired = map[any]int{}
	)
	ticker := timex.NewFakeTicker()
	tw, err := newTimingWheelWithClock(step, 5, func(k, v any) {
		lock.Lock()
		fired[k]++
		lock.Unlock()
		if k == "a" {
			runtime.Goexit()
		}
	}, ticker)
	if err != nil {
		t.Fatal(err)
	}
	defer tw.Stop()

	for _, k := range []string{"a", "b", "c"} {
		if err := tw.SetTimer(k, 1, 2*step); err != nil {
			t.Fatal(err)
		}
	}
	for i := 0; i < 12; i++ {
		ticker.Tick()
		_ = tw.MoveTimer("barrier", step)
	}
	_ = tw.MoveTimer("barrier", step)
	time.Sleep(100 * time.Millisecond)

	lock.Lock()
	defer lock.Unlock()
	if fired["a"] != 1 || fired["b"] != 1 || fired["c"] != 1 {
		t.Fatalf("a, b, c were all set for tick 2 and never removed; after 12 ticks the fire counts are %v "+
			"(want each exactly 1): the callback of \"a\" ended its goroutine and took \"b\" and \"c\" with it", fired)
	}
}
