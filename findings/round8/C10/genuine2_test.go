// place in: lib/collection
package collection

import (
	"math"
	"sync"
	"testing"
	"time"

	"github.com/gotid/god/lib/timex"
)

// A key that is not equal to itself (a float NaN, or any struct / array that
// contains one) is accepted by SetTimer, but the wheel's index can never find
// it again: RemoveTimer reports success and the task fires anyway, and a
// re-set does not replace the pending task but adds a second one.
func TestGenuineDemo(t *testing.T) {
	const step = time.Minute
	var (
		lock  sync.Mutex
		fired []any
	)
	ticker := timex.NewFakeTicker()
	tw, err := newTimingWheelWithClock(step, 5, func(k, v any) {
		lock.Lock()
		fired = append(fired, v)
		lock.Unlock()
	}, ticker)
	if err != nil {
		t.Fatal(err)
	}
	defer tw.Stop()

	key := math.NaN()
	if err := tw.SetTimer(key, "v1", 2*step); err != nil {
		// rejecting such a key (ErrArgument) would be a fine repair
		return
	}
	if err := tw.RemoveTimer(key); err != nil {
		t.Fatalf("RemoveTimer: %v", err)
	}
	for i := 0; i < 12; i++ {
		ticker.Tick()
		// an accepted no-op call is a barrier: it is only received after the tick was handled
		_ = tw.MoveTimer("barrier", step)
	}
	_ = tw.MoveTimer("barrier", step)
	time.Sleep(50 * time.Millisecond)

	lock.Lock()
	defer lock.Unlock()
	if len(fired) != 0 {
		t.Fatalf("SetTimer(NaN, v1, 2 ticks) then RemoveTimer(NaN) = nil, yet the removed task fired: %v", fired)
	}
}
