// place in: lib/collection
package collection

import (
	"fmt"
	"math"
	"strconv"
	"sync/atomic"
	"testing"
	"time"

	"github.com/gotid/god/lib/timex"
)

// A legal (interval, delay) pair whose quotient delay/interval does not fit
// the wheel's int arithmetic: the slot index becomes negative and the wheel's
// own goroutine panics (index out of range) - in production that kills the
// whole process, because run() has no recover.
//
//	64-bit int: interval 1ns, delay math.MaxInt64 ns   (steps = MaxInt64, tickedPos+steps overflows)
//	32-bit int: interval 1ms, delay 30 days            (steps = 2 592 000 000 > MaxInt32, int() truncates)
func TestGenuineDemo(t *testing.T) {
	interval, delay := time.Nanosecond, time.Duration(math.MaxInt64)
	if strconv.IntSize == 32 {
		interval, delay = time.Millisecond, 30*24*time.Hour
	}

	var fired int32
	ticker := timex.NewFakeTicker()
	tw, err := newTimingWheelWithClock(interval, 3, func(k, v any) {
		atomic.AddInt32(&fired, 1)
	}, ticker)
	if err != nil {
		t.Fatal(err)
	}
	// park the wheel goroutine for good, then drive the (unexported) handlers
	// synchronously so that the panic can be caught instead of killing the test binary.
	tw.Stop()
	time.Sleep(10 * time.Millisecond)

	var panicked any
	func() {
		defer func() { panicked = recover() }()
		tw.setTask(&timingEntry{
			baseEntry: baseEntry{delay: delay, key: "far"},
			value:     1,
		})
	}()
	if panicked != nil {
		t.Fatalf("SetTimer(key, v, %v) on a wheel with interval %v (delay > 0, key != nil, i.e. valid arguments) "+
			"panics inside the wheel goroutine: %v", delay, interval, panicked)
	}

	// no panic: then the task must at least not fire (far) too early and must still be pending.
	for i := 0; i < 30; i++ {
		tw.onTick()
	}
	time.Sleep(20 * time.Millisecond)
	if n := atomic.LoadInt32(&fired); n != 0 {
		t.Fatalf("task with delay %v (= %s ticks) fired within 30 ticks", delay, fmt.Sprint(int64(delay/interval)))
	}
	if _, ok := tw.timers.Get("far"); !ok {
		t.Fatalf("task with delay %v is no longer pending after 30 ticks", delay)
	}
}
