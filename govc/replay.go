package main

// Replay of solver counterexamples on the compiled real code: the observed values of the model are
// substituted into a Go test template, which is injected into the function's own package with
// `go test -overlay` (nothing is written into /repo) and must FAIL to count as a reproduced violation.

import (
	"bytes"
	"context"
	"encoding/json"
	"fmt"
	"os"
	"os/exec"
	"path/filepath"
	"strings"
	"text/template"
	"time"
)

func tryReplay(verif, repo, prop string, r OblResult, replayPath string) bool {
	c := r.Contract
	if c == nil || r.Status != "failed" {
		return false
	}
	tmplName := c.Replay
	for label, t := range c.ReplayFor {
		if strings.Contains(r.Name, "["+label+"]") {
			tmplName = t
		}
	}
	if tmplName == "" {
		return false
	}
	f := strings.Fields(tmplName)
	tmplPath := filepath.Join(verif, "replay", f[0]+".go.tmpl")
	tb, err := os.ReadFile(tmplPath)
	if err != nil {
		appendFile(replayPath, "replay: template missing: "+err.Error()+"\n")
		return false
	}
	data := map[string]interface{}{}
	for k, v := range r.Observed {
		data[k] = v
	}
	data["Panicking"] = r.Panicking
	data["Obligation"] = r.Name
	tm, err := template.New("replay").Option("missingkey=error").Parse(string(tb))
	if err != nil {
		appendFile(replayPath, "replay: bad template: "+err.Error()+"\n")
		return false
	}
	var buf bytes.Buffer
	if err := tm.Execute(&buf, data); err != nil {
		appendFile(replayPath, fmt.Sprintf("replay: model does not give every input of the template (%v); observed=%v\n", err, r.Observed))
		return false
	}
	testFile := strings.TrimSuffix(replayPath, ".replay") + "_replay_test.go"
	os.WriteFile(testFile, buf.Bytes(), 0o644)
	rel := strings.TrimPrefix(strings.TrimPrefix(c.Pkg, modulePrefix), "/")
	var ok bool
	var out string
	if modText, isScratch := scratchMods[c.Pkg]; isScratch {
		ok, out = runScratchModuleTest(verif, repo, prop, rel, testFile, "TestVerifReplay", modText)
	} else {
		ok, out = runOverlayTest(repo, rel, testFile, "TestVerifReplay")
	}
	appendFile(replayPath, fmt.Sprintf("---- replay ----\ninputs from the model: %v\ntest: %s\npackage: ./%s\nreproduced on the real code: %v\n%s\n", r.Observed, testFile, rel, ok, out))
	return ok
}

func appendFile(path, s string) {
	f, err := os.OpenFile(path, os.O_APPEND|os.O_WRONLY|os.O_CREATE, 0o644)
	if err != nil {
		return
	}
	defer f.Close()
	f.WriteString(s)
}

// runOverlayTest injects testFile into package dir `rel` of repo and runs the named test.
// Returns true when the test FAILED (i.e. the violation shows on the real code).
func runOverlayTest(repo, rel, testFile, testName string) (bool, string) {
	mf, cleanup, err := scratchModfile(repo)
	if err != nil {
		return false, err.Error()
	}
	defer cleanup()
	dir := filepath.Dir(mf)
	target := filepath.Join(repo, rel, "zz_verif_replay_test.go")
	ov := map[string]map[string]string{"Replace": {target: testFile}}
	ob, _ := json.Marshal(ov)
	ovPath := filepath.Join(dir, "overlay.json")
	os.WriteFile(ovPath, ob, 0o644)
	ctx, cancel := context.WithTimeout(context.Background(), 180*time.Second)
	defer cancel()
	cmd := exec.CommandContext(ctx, "go", "test", "-v", "-overlay", ovPath, "-vet=off", "-count=1", "-timeout", "170s", "-modfile="+mf, "-run", "^"+testName+"$", "./"+rel)
	cmd.Dir = repo
	cmd.Env = append(os.Environ(), "GOFLAGS=-mod=mod", "GOPROXY=off", "GOSUMDB=off", "GOTOOLCHAIN=local", "GOWORK=off")
	out, err := cmd.CombinedOutput()
	s := string(out)
	if len(s) > 8000 {
		s = s[:2000] + "\n...[truncated]...\n" + s[len(s)-6000:]
	}
	failed := err != nil && strings.Contains(s, "--- FAIL: "+testName)
	return failed, s
}

func cmdReplay(args []string) int {
	if len(args) < 1 {
		fmt.Fprintln(os.Stderr, "usage: govc replay <file.replay>")
		return 2
	}
	path := args[0]
	b, err := os.ReadFile(path)
	if err != nil {
		fmt.Fprintln(os.Stderr, err)
		return 2
	}
	fmt.Print(string(b))
	testFile := strings.TrimSuffix(path, ".replay") + "_replay_test.go"
	if _, err := os.Stat(testFile); err != nil {
		fmt.Println("no replay test was generated for this obligation (no-failing-input-found)")
		return 0
	}
	// package from the replay record
	rel := ""
	for _, l := range strings.Split(string(b), "\n") {
		if strings.HasPrefix(l, "package: ./") {
			rel = strings.TrimPrefix(l, "package: ./")
		}
	}
	repo := "/repo"
	if len(args) > 1 {
		repo = args[1]
	}
	ok, out := runOverlayTest(repo, rel, testFile, "TestVerifReplay")
	fmt.Printf("---- re-run now ----\n%s\nreproduced: %v\n", out, ok)
	if ok {
		return 1
	}
	return 0
}

// runScratchModuleTest: for packages that cannot be loaded in place offline (tools/god/util/*): the package's
// non-test sources are copied byte-for-byte into a scratch module with the given go.mod text, together with the
// test, and run there. Returns (failed, output).
func runScratchModuleTest(verif, repo, prop, rel, testFile, testName, modText string) (bool, string) {
	dir, err := os.MkdirTemp("", "govc-scratch-")
	if err != nil {
		return false, err.Error()
	}
	defer os.RemoveAll(dir)
	src := filepath.Join(repo, rel)
	ents, err := os.ReadDir(src)
	if err != nil {
		return false, err.Error()
	}
	for _, e := range ents {
		n := e.Name()
		if e.IsDir() || !strings.HasSuffix(n, ".go") || strings.HasSuffix(n, "_test.go") || n == "zz_contracts_verif.go" {
			continue
		}
		b, _ := os.ReadFile(filepath.Join(src, n))
		os.WriteFile(filepath.Join(dir, n), b, 0o644)
	}
	tb, _ := os.ReadFile(testFile)
	os.WriteFile(filepath.Join(dir, "zz_verif_bounded_test.go"), tb, 0o644)
	os.WriteFile(filepath.Join(dir, "go.mod"), []byte(modText), 0o644)
	ctx, cancel := context.WithTimeout(context.Background(), 600*time.Second)
	defer cancel()
	cmd := exec.CommandContext(ctx, "go", "test", "-v", "-vet=off", "-count=1", "-timeout", "540s", "-run", "^"+testName+"$", ".")
	cmd.Dir = dir
	cmd.Env = append(os.Environ(), "GOFLAGS=-mod=mod", "GOPROXY=off", "GOSUMDB=off", "GOTOOLCHAIN=local", "GOWORK=off")
	out, err := cmd.CombinedOutput()
	s := string(out)
	if len(s) > 8000 {
		s = s[:2000] + "\n...[truncated]...\n" + s[len(s)-6000:]
	}
	return err != nil && strings.Contains(s, "--- FAIL: "+testName), s
}
