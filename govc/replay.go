package main

// tryReplay turns the solver model of a failed obligation into a test against the real code.
// Returns true when the failure was reproduced on the compiled code.
func tryReplay(verif, repo, prop string, r OblResult, replayPath string) bool {
	return false
}
