package main

// Evaluation of contract expressions (Go expression syntax + spec builtins) over symbolic states.

import (
	"fmt"
	"go/ast"
	"go/constant"
	"go/token"
	"go/types"
	"hash/fnv"
	"math/big"
	"os"
	"strconv"
	"strings"

	"golang.org/x/tools/go/ssa"
)

// PoisonV: a ghost query that has no answer on this path (e.g. ret(f) when f was not called). It propagates
// through operators and becomes an unconstrained boolean, so a clause can only be proved where its guard
// excludes the path.
type PoisonV struct{}

func (PoisonV) GoType() types.Type { return nil }

type NilV struct{}

func (NilV) GoType() types.Type { return types.Typ[types.UntypedNil] }

// TypeV: a type used as an argument of a spec builtin.
type TypeV struct{ T types.Type }

func (TypeV) GoType() types.Type { return nil }

type specCtx struct {
	x          *Exec
	st         *State
	vars       map[string]Value
	lets       map[string]Value
	pkg        *ssa.Package
	fn         *ssa.Function
	heap       map[string]Term
	old        *preSnap
	frame      *Frame
	atExit     bool
	panicking  bool
	bound      map[string]Value
	evFrom     int
	letExprs   map[string]ast.Expr
	letBusy    map[string]bool
	addrVars   map[string]PtrV
	preferEnv  bool
	noGhost    bool // evaluating a callee's contract at a call site: its ghost event queries are not visible here
	head       *headSnap
	envOver    map[string]envEntry // when set, replaces the frame's variable environment
	needEvents int                 // ret/arg of the k-th occurrence: events after it need not be definite
}

func (x *Exec) specCtxFor(st *State, fr *Frame, pre *preSnap) *specCtx {
	sc := &specCtx{x: x, st: st, vars: map[string]Value{}, lets: st.lets, pkg: fnPkg(fr.fn), fn: fr.fn, heap: st.heap, old: pre, frame: fr}
	if pre != nil {
		for k, v := range pre.params {
			sc.vars[k] = v
		}
		sc.addrVars = pre.addrParams
		sc.evFrom = pre.nEvent
	}
	if x.rootC != nil && fr.fn == x.root {
		sc.letExprs = letMap(x.rootC)
	}
	return sc
}

func (sc *specCtx) heapRead(key string, sort Sort) Term {
	if t, ok := sc.heap[key]; ok {
		return t
	}
	t := sc.x.sym.declareConst("H0_"+sanitize(key), sort)
	return t
}

func (sc *specCtx) load(p PtrV) Value {
	x := sc.x
	if p.Elem {
		ls, t := subLeaves(p.Root, p.Path)
		ts := make([]Term, len(ls))
		for i, l := range ls {
			h := sc.heapRead(heapKeyElem(p.Root, l.path), arrSort(SInt, arrSort(SInt, l.sort)))
			ts[i] = sel(sel(h, p.Base), p.Idx)
		}
		v, _ := x.unflatten(t, ts)
		return v
	}
	ls, t := subLeaves(p.Root, p.Path)
	ts := make([]Term, len(ls))
	for i, l := range ls {
		arr := sc.heapRead(heapKeyField(p.Root, l.path), arrSort(SInt, l.sort))
		ts[i] = sel(arr, p.Base)
	}
	v, _ := x.unflatten(t, ts)
	if g := x.sentinelFact(p, v); g.S != "true" {
		sc.st.assume(g)
	}
	return v
}

func (x *Exec) evalBool(sc *specCtx, e ast.Expr) Term {
	v := x.evalSpec(sc, e)
	if _, ok := v.(PoisonV); ok {
		return x.sym.fresh("undefined", SBool)
	}
	s, ok := v.(Scalar)
	if !ok || s.T.Sort != SBool {
		panic(engineErr("spec expression %s is not boolean", exprString(e)))
	}
	return s.T
}

func exprString(e ast.Expr) string {
	return types.ExprString(e)
}

var untypedInt = types.Typ[types.UntypedInt]
var untypedFloat = types.Typ[types.UntypedFloat]
var boolT = types.Typ[types.Bool]

func (x *Exec) evalSpec(sc *specCtx, e ast.Expr) Value {
	switch e := e.(type) {
	case *ast.ParenExpr:
		return x.evalSpec(sc, e.X)
	case *ast.BasicLit:
		switch e.Kind {
		case token.INT:
			b, ok := new(big.Int).SetString(strings.ReplaceAll(e.Value, "_", ""), 0)
			if !ok {
				panic(engineErr("bad int literal %s", e.Value))
			}
			return Scalar{bigLit(b), untypedInt}
		case token.FLOAT:
			r, ok := new(big.Rat).SetString(e.Value)
			if !ok {
				panic(engineErr("bad float literal %s", e.Value))
			}
			return Scalar{realLitRat(roundToFloat64(r)), untypedFloat}
		case token.STRING:
			s, err := strconv.Unquote(e.Value)
			if err != nil {
				panic(engineErr("bad string literal %s", e.Value))
			}
			return Scalar{x.sym.strConst(s), types.Typ[types.String]}
		}
	case *ast.Ident:
		return x.evalIdent(sc, e.Name)
	case *ast.SelectorExpr:
		// package-qualified name?
		if id, ok := e.X.(*ast.Ident); ok {
			if _, isVar := sc.lookupVar(id.Name); !isVar {
				if p := sc.importedPkg(id.Name); p != nil {
					return x.pkgMember(sc, p, e.Sel.Name)
				}
			}
		}
		base := x.evalSpec(sc, e.X)
		if _, ok := base.(PoisonV); ok {
			return base
		}
		return x.selectField(sc, base, e.Sel.Name)
	case *ast.StarExpr:
		if _, ok := x.evalSpec(sc, e.X).(PoisonV); ok {
			return PoisonV{}
		}
		p, ok := x.evalSpec(sc, e.X).(PtrV)
		if !ok {
			panic(engineErr("deref of non-pointer in spec: %s", exprString(e)))
		}
		return sc.load(p)
	case *ast.UnaryExpr:
		if e.Op == token.AND {
			// &x.f: the address of a field / variable (for "the receiver of that call is this very field")
			p, ok := x.evalAddr(sc, e.X)
			if !ok {
				return PoisonV{} // not addressable on this path (e.g. the variable does not exist yet)
			}
			return p
		}
		v := x.evalSpec(sc, e.X)
		if _, ok := v.(PoisonV); ok {
			return v
		}
		switch e.Op {
		case token.NOT:
			return Scalar{not(v.(Scalar).T), boolT}
		case token.SUB:
			s := v.(Scalar)
			return Scalar{mk(s.T.Sort, "-", s.T), s.Typ}
		case token.ADD:
			return v
		}
	case *ast.BinaryExpr:
		return x.evalBinary(sc, e)
	case *ast.IndexExpr:
		base := x.evalSpec(sc, e.X)
		idx := x.evalSpec(sc, e.Index)
		if isPoison(base) || isPoison(idx) {
			return PoisonV{}
		}
		return x.specIndex(sc, base, idx)
	case *ast.CallExpr:
		return x.evalSpecCall(sc, e)
	case *ast.ArrayType, *ast.MapType, *ast.InterfaceType:
		if t, ok := x.tryType(sc, e); ok {
			return TypeV{t}
		}
	}
	panic(engineErr("unsupported spec expression %s (%T)", exprString(e), e))
}

func (sc *specCtx) lookupVar(name string) (Value, bool) {
	if v, ok := sc.bound[name]; ok {
		return v, true
	}
	// a `let` shadows a variable of the function everywhere (also in loop clauses, where a plain name otherwise
	// means the variable's current value): a clause must never silently follow the code it judges
	if v, ok := sc.lets[name]; ok {
		return v, true
	}
	if e, ok := sc.letExprs[name]; ok && !sc.letBusy[name] {
		if sc.letBusy == nil {
			sc.letBusy = map[string]bool{}
		}
		sc.letBusy[name] = true
		v := sc.x.evalSpec(sc, e)
		delete(sc.letBusy, name)
		return v, true
	}
	if sc.preferEnv && sc.envOver != nil {
		if ent, ok := sc.envOver[name]; ok {
			if ent.isAddr {
				if p, ok := ent.v.(PtrV); ok {
					return sc.load(p), true
				}
			}
			return ent.v, true
		}
	}
	if sc.preferEnv && sc.frame != nil && sc.envOver == nil {
		// inside the function body (loop invariants, iteration and fold clauses) a name denotes the
		// variable's current value, also for parameters that were reassigned
		if ent, ok := sc.frame.env[name]; ok {
			if ent.isAddr {
				if p, ok := ent.v.(PtrV); ok {
					return sc.load(p), true
				}
			}
			return ent.v, true
		}
	}
	if v, ok := sc.vars[name]; ok {
		return v, true
	}
	if p, ok := sc.addrVars[name]; ok {
		return sc.load(p), true
	}
	if v, ok := sc.lets[name]; ok {
		return v, true
	}
	if e, ok := sc.letExprs[name]; ok && !sc.letBusy[name] {
		if sc.letBusy == nil {
			sc.letBusy = map[string]bool{}
		}
		sc.letBusy[name] = true
		v := sc.x.evalSpec(sc, e)
		delete(sc.letBusy, name)
		return v, true
	}
	if sc.envOver != nil {
		if ent, ok := sc.envOver[name]; ok {
			if ent.isAddr {
				if p, ok := ent.v.(PtrV); ok {
					return sc.load(p), true
				}
			}
			return ent.v, true
		}
	} else if sc.frame != nil {
		if ent, ok := sc.frame.env[name]; ok {
			if ent.isAddr {
				if p, ok := ent.v.(PtrV); ok {
					return sc.load(p), true
				}
			}
			return ent.v, true
		}
	}
	return nil, false
}

func (sc *specCtx) importedPkg(name string) *types.Package {
	if sc.pkg == nil {
		return nil
	}
	// import aliases of the package's files (e.g. red "github.com/go-redis/redis/v8")
	if pp := sc.x.pkgs[sc.pkg.Pkg.Path()]; pp != nil {
		for _, f := range pp.Syntax {
			for _, is := range f.Imports {
				if is.Name != nil && is.Name.Name == name {
					path, _ := strconv.Unquote(is.Path.Value)
					for _, imp := range sc.pkg.Pkg.Imports() {
						if imp.Path() == path {
							return imp
						}
					}
				}
			}
		}
	}
	for _, imp := range sc.pkg.Pkg.Imports() {
		if imp.Name() == name {
			return imp
		}
	}
	// also allow any loaded package by its name (contracts may mention packages the file does not import)
	for _, p := range sc.x.prog.AllPackages() {
		if p.Pkg.Name() == name {
			return p.Pkg
		}
	}
	return nil
}

func (x *Exec) evalIdent(sc *specCtx, name string) Value {
	switch name {
	case "true":
		return Scalar{tTrue, boolT}
	case "false":
		return Scalar{tFalse, boolT}
	case "nil":
		return NilV{}
	}
	if v, ok := sc.lookupVar(name); ok {
		return v
	}
	if (name == "rangerune" || name == "rangepos") && sc.frame != nil {
		// the rune (byte position) produced by the innermost `range` over a string in the current iteration
		best := -1
		var out Value
		for k, rv := range sc.frame.regs {
			nx, ok := k.(*ssa.Next)
			if !ok || !nx.IsString {
				continue
			}
			tv, ok := rv.(TupleV)
			it, ok2 := sc.frame.regs[nx.Iter].(IterV)
			if !ok || !ok2 || len(tv.Elems) != 3 || it.Seq <= best {
				continue
			}
			best = it.Seq
			if name == "rangerune" {
				out = tv.Elems[2]
			} else {
				out = tv.Elems[1]
			}
		}
		if out != nil {
			return out
		}
		return PoisonV{}
	}
	if sc.pkg != nil && sc.pkg.Pkg.Scope().Lookup(name) != nil {
		return x.pkgMember(sc, sc.pkg.Pkg, name)
	}
	if tn, ok := types.Universe.Lookup(name).(*types.TypeName); ok {
		return TypeV{tn.Type()}
	}
	if sc.pkg != nil {
		return x.pkgMember(sc, sc.pkg.Pkg, name)
	}
	panic(engineErr("unknown identifier %s in spec", name))
}

func (x *Exec) pkgMember(sc *specCtx, p *types.Package, name string) Value {
	obj := p.Scope().Lookup(name)
	if obj == nil {
		panic(engineErr("unknown identifier %s.%s in spec", p.Name(), name))
	}
	switch o := obj.(type) {
	case *types.Const:
		return x.constToValue(o.Val(), o.Type())
	case *types.Var:
		sp := x.prog.Package(p)
		if sp == nil {
			panic(engineErr("package %s not built", p.Path()))
		}
		g, ok := sp.Members[name].(*ssa.Global)
		if !ok {
			panic(engineErr("%s.%s is not a global", p.Name(), name))
		}
		return sc.load(x.globalPtr(g))
	case *types.TypeName:
		return TypeV{o.Type()}
	case *types.Func:
		sp := x.prog.Package(p)
		if sp != nil {
			if f := sp.Func(name); f != nil {
				return x.funcValue(f, nil)
			}
		}
	}
	panic(engineErr("unsupported package member %s.%s in spec", p.Name(), name))
}

func (x *Exec) constToValue(v constant.Value, t types.Type) Value {
	switch v.Kind() {
	case constant.Bool:
		return Scalar{boolLit(constant.BoolVal(v)), t}
	case constant.Int:
		b, _ := new(big.Int).SetString(v.ExactString(), 10)
		return Scalar{bigLit(b), t}
	case constant.Float:
		r, _ := new(big.Rat).SetString(v.ExactString())
		if bt, ok := t.Underlying().(*types.Basic); ok && bt.Info()&types.IsInteger != 0 {
			return Scalar{bigLit(r.Num()), t}
		}
		return Scalar{realLitRat(roundToFloat64(r)), t}
	case constant.String:
		return Scalar{x.sym.strConst(constant.StringVal(v)), t}
	}
	panic(engineErr("unsupported constant kind"))
}

// fieldPath finds field `name` in struct type t (searching embedded structs).
func fieldPath(t types.Type, name string) ([]int, types.Type, bool) {
	st, ok := t.Underlying().(*types.Struct)
	if !ok {
		return nil, nil, false
	}
	for i := 0; i < st.NumFields(); i++ {
		if st.Field(i).Name() == name {
			return []int{i}, st.Field(i).Type(), true
		}
	}
	for i := 0; i < st.NumFields(); i++ {
		f := st.Field(i)
		if f.Embedded() {
			ft := f.Type()
			if _, isPtr := ft.Underlying().(*types.Pointer); isPtr {
				continue
			}
			if p, ty, ok := fieldPath(ft, name); ok {
				return append([]int{i}, p...), ty, true
			}
		}
	}
	return nil, nil, false
}

func (x *Exec) selectField(sc *specCtx, base Value, name string) Value {
	switch b := base.(type) {
	case PtrV:
		_, t := subLeaves(b.Root, b.Path)
		if pt, ok := t.Underlying().(*types.Pointer); ok {
			// pointer to pointer: load first
			_ = pt
			return x.selectField(sc, sc.load(b), name)
		}
		path, _, ok := fieldPath(t, name)
		if !ok {
			panic(engineErr("no field %s in %s", name, t))
		}
		np := PtrV{Base: b.Base, Root: b.Root, Path: append(append([]int(nil), b.Path...), path...), Elem: b.Elem, Idx: b.Idx}
		return sc.load(np)
	case StructV:
		path, _, ok := fieldPath(b.Typ, name)
		if !ok {
			panic(engineErr("no field %s in %s", name, b.Typ))
		}
		var v Value = b
		for _, i := range path {
			v = v.(StructV).Fields[i]
		}
		return v
	case SliceV:
		switch name {
		case "len":
			return Scalar{b.Len, types.Typ[types.Int]}
		case "cap":
			return Scalar{b.Cap, types.Typ[types.Int]}
		case "arr":
			return Scalar{b.Arr, types.Typ[types.Int]}
		case "off":
			return Scalar{b.Off, types.Typ[types.Int]}
		}
	case IfaceV:
		switch name {
		case "tag":
			return Scalar{b.Tag, types.Typ[types.Int]}
		case "val":
			return Scalar{b.Val, types.Typ[types.Int]}
		}
	}
	panic(engineErr("cannot select %s from %T", name, base))
}

func (x *Exec) specIndex(sc *specCtx, base, idx Value) Value {
	switch b := base.(type) {
	case SliceV:
		elem := b.Typ.Underlying().(*types.Slice).Elem()
		i := idx.(Scalar).T
		return sc.load(PtrV{Base: b.Arr, Root: elem, Elem: true, Idx: addT(b.Off, i)})
	case Scalar:
		if mt, ok := b.Typ.Underlying().(*types.Map); ok {
			ks := x.mapKeySort(mt)
			k := x.keyTerm(sc.st, idx)
			d := sel(sc.heapRead(heapKeyMapDom(mt), arrSort(SInt, arrSort(ks, SBool))), b.T)
			ok := sel(d, k)
			ls := leavesOf(mt.Elem())
			ts := make([]Term, len(ls))
			for i, l := range ls {
				h := sc.heapRead(heapKeyMapVal(mt, l.path), arrSort(SInt, arrSort(ks, l.sort)))
				ts[i] = ite(ok, sel(sel(h, b.T), k), zeroOfSort(l.sort))
			}
			v, _ := x.unflatten(mt.Elem(), ts)
			return v
		}
		if strings.HasPrefix(string(b.T.Sort), "(Array") {
			if b.Typ != nil {
				if at, ok := b.Typ.Underlying().(*types.Array); ok {
					v, _ := x.unflatten(at.Elem(), []Term{sel(b.T, idx.(Scalar).T)})
					return v
				}
			}
			return Scalar{sel(b.T, idx.(Scalar).T), nil}
		}
		if b.T.Sort == SStr {
			// s[i]: the i-th byte of a string
			x.sym.declareFun("strat", []Sort{SStr, SInt}, SInt)
			return Scalar{mk(SInt, "strat", b.T, idx.(Scalar).T), types.Typ[types.Uint8]}
		}
	}
	panic(engineErr("cannot index %T in spec", base))
}

func (x *Exec) evalBinary(sc *specCtx, e *ast.BinaryExpr) Value {
	if e.Op == token.LAND || e.Op == token.LOR {
		a := x.evalBool(sc, e.X)
		b := x.evalBool(sc, e.Y)
		if e.Op == token.LAND {
			return Scalar{and(a, b), boolT}
		}
		return Scalar{or(a, b), boolT}
	}
	a := x.evalSpec(sc, e.X)
	b := x.evalSpec(sc, e.Y)
	if isPoison(a) || isPoison(b) {
		return PoisonV{}
	}
	if e.Op == token.EQL || e.Op == token.NEQ {
		t := x.specEqual(a, b)
		if e.Op == token.NEQ {
			t = not(t)
		}
		return Scalar{t, boolT}
	}
	as, aok := a.(Scalar)
	bs, bok := b.(Scalar)
	if !aok || !bok {
		panic(engineErr("binary %s on %T,%T in spec %s", e.Op, a, b, exprString(e)))
	}
	at, bt := coerce(as.T, bs.T)
	typ := as.Typ
	if typ == untypedInt || typ == nil {
		typ = bs.Typ
	}
	isReal := at.Sort == SReal
	switch e.Op {
	case token.LSS, token.LEQ, token.GTR, token.GEQ:
		if at.Sort == SStr {
			switch e.Op {
			case token.LSS:
				return Scalar{mk(SBool, "strlt", at, bt), boolT}
			case token.GTR:
				return Scalar{mk(SBool, "strlt", bt, at), boolT}
			case token.LEQ:
				return Scalar{not(mk(SBool, "strlt", bt, at)), boolT}
			default:
				return Scalar{not(mk(SBool, "strlt", at, bt)), boolT}
			}
		}
		m := map[token.Token]string{token.LSS: "<", token.LEQ: "<=", token.GTR: ">", token.GEQ: ">="}
		return Scalar{mk(SBool, m[e.Op], at, bt), boolT}
	case token.ADD:
		if at.Sort == SStr {
			return Scalar{mk(SStr, "strcat", at, bt), typ}
		}
		return Scalar{mk(at.Sort, "+", at, bt), typ}
	case token.SUB:
		return Scalar{mk(at.Sort, "-", at, bt), typ}
	case token.MUL:
		return Scalar{mk(at.Sort, "*", at, bt), typ}
	case token.QUO:
		if isReal {
			return Scalar{mk(SReal, "/", at, bt), typ}
		}
		if sc.st != nil && x.entails(sc.st, and(mk(SBool, ">=", at, intLit(0)), mk(SBool, ">", bt, intLit(0)))) {
			return Scalar{mk(SInt, "div", at, bt), typ}
		}
		return Scalar{mk(SInt, "godiv", at, bt), typ}
	case token.REM:
		if sc.st != nil && len(sc.bound) == 0 {
			return Scalar{x.modTerm(sc.st, at, bt), typ}
		}
		return Scalar{mk(SInt, "gomod", at, bt), typ}
	case token.SHR, token.SHL:
		// shifts by a literal amount: a >> k is the floor of a / 2^k (Go's arithmetic shift), a << k is a * 2^k
		// (mathematical: no wrap-around in specifications)
		if isLiteral(bt.S) {
			var k int
			fmt.Sscan(bt.S, &k)
			if k >= 0 && k < 63 {
				p := intLit(int64(1) << uint(k))
				if e.Op == token.SHR {
					return Scalar{mk(SInt, "div", at, p), typ}
				}
				return Scalar{mk(SInt, "*", at, p), typ}
			}
		}
	}
	panic(engineErr("unsupported operator %s in spec", e.Op))
}

func (x *Exec) specEqual(a, b Value) Term {
	if _, ok := a.(NilV); ok {
		a, b = b, a
	}
	if _, ok := b.(NilV); ok {
		switch v := a.(type) {
		case NilV:
			return tTrue
		case IfaceV:
			return eq(v.Tag, intLit(0))
		case PtrV:
			if v.Elem {
				return tFalse // address of a slice element is never nil
			}
			return eq(v.Base, intLit(0)) // a field address is nil only if its base is
		case SliceV:
			return eq(v.Arr, intLit(0))
		case FuncV:
			return eq(v.ID, intLit(0))
		case Scalar:
			return eq(v.T, intLit(0))
		}
		panic(engineErr("nil comparison on %T", a))
	}
	// comparing an interface value with a concrete one: box the concrete value (as Go's == does)
	if _, ok := a.(IfaceV); ok {
		if _, ok2 := b.(IfaceV); !ok2 && b.GoType() != nil {
			b = x.makeIface(x.scratch(), b, b.GoType(), a.GoType())
		}
	} else if _, ok := b.(IfaceV); ok && a.GoType() != nil {
		a = x.makeIface(x.scratch(), a, a.GoType(), b.GoType())
	}
	fa, fb := x.flatten(a), x.flatten(b)
	if len(fa) != len(fb) {
		panic(engineErr("spec equality on differently shaped values %T vs %T", a, b))
	}
	cs := make([]Term, len(fa))
	for i := range fa {
		cs[i] = eq(fa[i], fb[i])
	}
	return and(cs...)
}

// ---------- spec calls ----------

type poisonSignal struct{}
type indefinite struct{}

func isPoison(v Value) bool { _, ok := v.(PoisonV); return ok }

func (x *Exec) evalSpecCall(sc *specCtx, e *ast.CallExpr) (res Value) {
	defer func() {
		if r := recover(); r != nil {
			if _, ok := r.(poisonSignal); ok {
				res = PoisonV{}
				return
			}
			panic(r)
		}
	}()
	return x.evalSpecCall2(sc, e)
}

func (x *Exec) evalSpecCall2(sc *specCtx, e *ast.CallExpr) Value {
	name := ""
	switch f := e.Fun.(type) {
	case *ast.Ident:
		name = f.Name
	case *ast.SelectorExpr:
		// method-like spec calls are not supported; fall through to error
		name = exprString(f)
	}
	arg := func(i int) Value {
		v := x.evalSpec(sc, e.Args[i])
		if isPoison(v) {
			panic(poisonSignal{})
		}
		return v
	}
	argT := func(i int) Term {
		a := arg(i)
		if pv, isPtr := a.(PtrV); isPtr && !pv.Elem && len(pv.Path) == 0 {
			return x.ptrScalar(pv) // a reference is a scalar (the object's identity)
		}
		if _, isNil := a.(NilV); isNil {
			return intLit(0)
		}
		s, ok := a.(Scalar)
		if !ok {
			panic(engineErr("argument %d of %s must be scalar", i, name))
		}
		return s.T
	}
	need := func(n int) {
		if len(e.Args) != n {
			panic(engineErr("%s expects %d arguments", name, n))
		}
	}
	switch name {
	case "old":
		need(1)
		if sc.old == nil {
			return arg(0)
		}
		o := *sc
		o.heap = sc.old.heap
		o.frame = nil
		o.preferEnv = false
		o.vars = map[string]Value{}
		for k, v := range sc.old.params {
			o.vars[k] = v
		}
		for k, v := range sc.bound {
			o.vars[k] = v
		}
		return x.evalSpec(&o, e.Args[0])
	case "tail":
		// tail(e): e over the events since the last arrival at a loop head of the function under verification,
		// i.e. the final (partial) iteration and what follows the loop; without a loop: the whole trace
		need(1)
		o := *sc
		for i := len(sc.st.events) - 1; i >= sc.evFrom; i-- {
			if ev := sc.st.events[i]; ev.Kind == "loop-summary" && ev.Root {
				o.evFrom = i + 1
				break
			}
		}
		return x.evalSpec(&o, e.Args[0])
	case "at_head":
		need(1)
		head := sc.head
		if head == nil && sc.frame != nil && len(sc.frame.loopSnap) == 1 {
			// in an exit clause of a function with a single loop: the state at the last arrival at its head, i.e.
			// (for a loop that is left from its head, like every range loop) the state in which the loop was left
			for _, hs := range sc.frame.loopSnap {
				head = hs
			}
		}
		if head == nil {
			panic(engineErr("at_head outside an iteration clause (and the function has not exactly one loop on this path)"))
		}
		o := *sc
		o.heap = head.heap
		o.envOver = head.env
		return x.evalSpec(&o, e.Args[0])
	case "at":
		// at(event, e): e in the heap as it was right after the (only) such lock acquisition / channel receive,
		// i.e. once the writes of other goroutines published by it had become visible
		if len(e.Args) != 2 && len(e.Args) != 3 {
			panic(engineErr("at(event, e [, occurrence]) expected"))
		}
		if sc.noGhost {
			return PoisonV{}
		}
		evs := x.definiteEvents(sc, e.Args[0])
		occ := 1
		if len(e.Args) == 3 {
			lit, ok := e.Args[2].(*ast.BasicLit)
			if !ok {
				panic(engineErr("at: occurrence must be a literal"))
			}
			occ, _ = strconv.Atoi(lit.Value)
		} else if len(evs) != 1 {
			return PoisonV{}
		}
		if occ < 1 || occ > len(evs) || evs[occ-1].Heap == nil {
			return PoisonV{}
		}
		o := *sc
		o.heap = evs[occ-1].Heap
		return x.evalSpec(&o, e.Args[1])
	case "after":
		// after(call, e): e in the heap as it was right after the (only) such opaque call returned - what the callee
		// left in its out-parameters, before the caller touched it
		if len(e.Args) != 2 {
			panic(engineErr("after(call, e) expected"))
		}
		if sc.noGhost {
			return PoisonV{}
		}
		evs := x.definiteEvents(sc, e.Args[0])
		if len(evs) != 1 || evs[0].HeapPost == nil {
			return PoisonV{}
		}
		o := *sc
		o.heap = evs[0].HeapPost
		return x.evalSpec(&o, e.Args[1])
	case "local":
		// local(x): the function's local variable x, even when a result/parameter of the same name shadows it
		need(1)
		id, ok := e.Args[0].(*ast.Ident)
		if !ok {
			panic(engineErr("local(name) expects an identifier"))
		}
		if sc.frame == nil {
			return PoisonV{}
		}
		ent, ok := sc.frame.env[id.Name]
		if !ok {
			return PoisonV{}
		}
		if ent.isAddr {
			if p, ok := ent.v.(PtrV); ok {
				return sc.load(p)
			}
		}
		return ent.v
	case "implies":
		need(2)
		return Scalar{implies(x.evalBool(sc, e.Args[0]), x.evalBool(sc, e.Args[1])), boolT}
	case "iff":
		need(2)
		return Scalar{eq(x.evalBool(sc, e.Args[0]), x.evalBool(sc, e.Args[1])), boolT}
	case "ite":
		need(3)
		c := x.evalBool(sc, e.Args[0])
		a, b := arg(1), arg(2)
		fa, fb := x.flatten(a), x.flatten(b)
		if len(fa) == 1 && len(fb) == 1 {
			return Scalar{ite(c, fa[0], fb[0]), a.GoType()}
		}
		if len(fa) == len(fb) && a.GoType() != nil {
			ts := make([]Term, len(fa))
			for i := range fa {
				ts[i] = ite(c, fa[i], fb[i])
			}
			v, _ := x.unflatten(a.GoType(), ts)
			return v
		}
		panic(engineErr("ite on composite values"))
	case "forall", "exists":
		// forall(i, lo, hi, body): i ranges over [lo, hi)
		if len(e.Args) != 4 {
			panic(engineErr("%s(i, lo, hi, body) expected", name))
		}
		id, ok := e.Args[0].(*ast.Ident)
		if !ok {
			panic(engineErr("%s: first argument must be an identifier", name))
		}
		lo, hi := argT(1), argT(2)
		x.sym.counter++
		q := fmt.Sprintf("%s!q%d", id.Name, x.sym.counter)
		nsc := *sc
		nsc.bound = map[string]Value{}
		for k, v := range sc.bound {
			nsc.bound[k] = v
		}
		nsc.bound[id.Name] = Scalar{Term{q, SInt}, types.Typ[types.Int]}
		body := x.evalBool(&nsc, e.Args[3])
		rng := and(mk(SBool, "<=", lo, Term{q, SInt}), mk(SBool, "<", Term{q, SInt}, hi))
		if name == "forall" {
			// s[i] is elem[arr][off+i]: quantify over the absolute index k = off+i instead, so that the solver's
			// trigger is elem[arr][k] and matches every index term (a trigger `off+i` is not matched by `off+(b+1)`).
			if off, ok := sliceOffsetOf(body.S, q); ok {
				sub := fmt.Sprintf("(- %s %s)", q, off)
				return Scalar{Term{fmt.Sprintf("(forall ((%s Int)) (=> %s %s))", q, replaceToken(rng.S, q, sub), replaceToken(body.S, q, sub)), SBool}, boolT}
			}
			return Scalar{Term{fmt.Sprintf("(forall ((%s Int)) (=> %s %s))", q, rng.S, body.S), SBool}, boolT}
		}
		return Scalar{Term{fmt.Sprintf("(exists ((%s Int)) (and %s %s))", q, rng.S, body.S), SBool}, boolT}
	case "forallk", "existsk":
		// forallk(k, sort, body)
		if len(e.Args) != 3 {
			panic(engineErr("%s(k, sort, body) expected", name))
		}
		id := e.Args[0].(*ast.Ident)
		so, err := sortOfName(exprString(e.Args[1]))
		if err != nil {
			panic(engineErr("%v", err))
		}
		x.sym.counter++
		q := fmt.Sprintf("%s!q%d", id.Name, x.sym.counter)
		nsc := *sc
		nsc.bound = map[string]Value{}
		for k, v := range sc.bound {
			nsc.bound[k] = v
		}
		var gt types.Type = types.Typ[types.Int]
		if so == SStr {
			gt = types.Typ[types.String]
		}
		nsc.bound[id.Name] = Scalar{Term{q, so}, gt}
		body := x.evalBool(&nsc, e.Args[2])
		if name == "forallk" {
			return Scalar{Term{fmt.Sprintf("(forall ((%s %s)) %s)", q, so, body.S), SBool}, boolT}
		}
		return Scalar{Term{fmt.Sprintf("(exists ((%s %s)) %s)", q, so, body.S), SBool}, boolT}
	case "len":
		need(1)
		switch v := arg(0).(type) {
		case SliceV:
			return Scalar{v.Len, types.Typ[types.Int]}
		case Scalar:
			if v.T.Sort == SStr {
				return Scalar{mk(SInt, "strlen", v.T), types.Typ[types.Int]}
			}
			if mt, ok := v.Typ.Underlying().(*types.Map); ok {
				ks := x.mapKeySort(mt)
				n := "maplen_" + sanitize(string(ks))
				x.sym.declareFun(n, []Sort{arrSort(ks, SBool)}, SInt)
				d := sel(sc.heapRead(heapKeyMapDom(mt), arrSort(SInt, arrSort(ks, SBool))), v.T)
				r := mk(SInt, n, d)
				if sc.st != nil && !strings.Contains(r.S, "!q") {
					// defining facts of the cardinality: non-negative, zero iff the domain is empty
					sc.st.assume(mk(SBool, ">=", r, intLit(0)))
					sc.st.assume(eq(eq(r, intLit(0)), eq(d, zeroOfSort(arrSort(ks, SBool)))))
				}
				return Scalar{r, types.Typ[types.Int]}
			}
		}
		panic(engineErr("len of unsupported value in spec"))
	case "cap":
		need(1)
		if cv, ok := arg(0).(Scalar); ok && cv.Typ != nil {
			if _, isChan := cv.Typ.Underlying().(*types.Chan); isChan {
				// cap(ch): the capacity the channel was made with
				return Scalar{sel(sc.heapRead("CHANCAP", arrSort(SInt, SInt)), cv.T), types.Typ[types.Int]}
			}
		}
		return Scalar{arg(0).(SliceV).Cap, types.Typ[types.Int]}
	case "has":
		need(2)
		m := arg(0).(Scalar)
		mt := m.Typ.Underlying().(*types.Map)
		ks := x.mapKeySort(mt)
		d := sel(sc.heapRead(heapKeyMapDom(mt), arrSort(SInt, arrSort(ks, SBool))), m.T)
		return Scalar{sel(d, x.keyTerm(sc.st, arg(1))), boolT}
	case "real", "float64":
		need(1)
		return Scalar{toReal(argT(0)), types.Typ[types.Float64]}
	case "int", "int64", "trunc":
		need(1)
		t := argT(0)
		if t.Sort == SReal {
			return Scalar{mk(SInt, "rtrunc", t), types.Typ[types.Int64]}
		}
		return Scalar{t, types.Typ[types.Int64]}
	case "floor":
		need(1)
		return Scalar{mk(SReal, "rfloor", toReal(argT(0))), types.Typ[types.Float64]}
	case "ceil":
		need(1)
		return Scalar{mk(SReal, "rceil", toReal(argT(0))), types.Typ[types.Float64]}
	case "wrap":
		need(2)
		return Scalar{mk(SInt, "wrapmod", argT(0), argT(1)), types.Typ[types.Int]}
	case "emod":
		need(2)
		return Scalar{mk(SInt, "mod", argT(0), argT(1)), types.Typ[types.Int]}
	case "ediv":
		need(2)
		return Scalar{mk(SInt, "div", argT(0), argT(1)), types.Typ[types.Int]}
	case "min", "max":
		need(2)
		a, b := coerce(argT(0), argT(1))
		op := "<="
		if name == "max" {
			op = ">="
		}
		return Scalar{ite(mk(SBool, op, a, b), a, b), arg(0).GoType()}
	case "abs":
		need(1)
		a := argT(0)
		z := zeroOfSort(a.Sort)
		return Scalar{ite(mk(SBool, ">=", a, z), a, mk(a.Sort, "-", a)), arg(0).GoType()}
	case "calls":
		if sc.noGhost {
			return PoisonV{}
		}
		return Scalar{x.ghostCalls(sc, e.Args), types.Typ[types.Int]}
	case "ret", "arg", "panicked", "panicnil", "happened":
		if sc.noGhost {
			return PoisonV{}
		}
		return x.ghostEventQuery(sc, name, e.Args)
	case "before":
		need(2)
		if sc.noGhost {
			return PoisonV{}
		}
		return Scalar{x.ghostBefore(sc, e.Args[0], e.Args[1]), boolT}
	case "nevents":
		if sc.noGhost {
			return PoisonV{}
		}
		return Scalar{intLit(int64(len(sc.st.events) - sc.evFrom)), types.Typ[types.Int]}
	case "panicking":
		return Scalar{boolLit(sc.panicking), boolT}
	case "isnil":
		need(1)
		return Scalar{x.specEqual(arg(0), NilV{}), boolT}
	case "typeis":
		// typeis(x, T): dynamic type of interface x is T
		need(2)
		iv := arg(0).(IfaceV)
		tv, ok := arg(1).(TypeV)
		if !ok {
			panic(engineErr("typeis: second argument must be a type"))
		}
		return Scalar{eq(iv.Tag, intLit(int64(x.typeID(tv.T)))), boolT}
	case "ptr":
		// ptr(T): pointer type for typeis
		need(1)
		tv, ok := arg(0).(TypeV)
		if !ok {
			panic(engineErr("ptr(T) expects a type"))
		}
		return TypeV{types.NewPointer(tv.T)}
	case "unbox":
		// unbox(x, T): payload of interface x as T
		need(2)
		iv, isIface := arg(0).(IfaceV)
		if !isIface {
			return arg(0) // already a concrete value
		}
		tv := arg(1).(TypeV)
		return x.unbox(sc.st, iv, tv.T)
	case "structkey":
		// structkey(T, f1, f2, ...): the value of struct type T with those fields (to name a key of a map keyed by a struct)
		tv, ok := arg(0).(TypeV)
		if !ok {
			panic(engineErr("structkey: first argument must be a type"))
		}
		stt, ok := tv.T.Underlying().(*types.Struct)
		if !ok || stt.NumFields() != len(e.Args)-1 {
			panic(engineErr("structkey: %s is not a struct type with %d fields", tv.T, len(e.Args)-1))
		}
		sv := StructV{Typ: tv.T}
		for i := 1; i < len(e.Args); i++ {
			sv.Fields = append(sv.Fields, arg(i))
		}
		return sv
	case "bytes2str":
		need(1)
		sv, ok := arg(0).(SliceV)
		if !ok {
			panic(engineErr("bytes2str expects a byte slice"))
		}
		x.sym.declareFun("bytes2str", []Sort{SInt, SInt, SInt}, SStr)
		return Scalar{mk(SStr, "bytes2str", sv.Arr, sv.Off, sv.Len), types.Typ[types.String]}
	case "loopreached":
		// loopreached(N): the head of loop N of the function under verification was reached (in the scope of the
		// clause: since the enclosing loop's head for an iteration clause) - "this loop was not skipped"
		if len(e.Args) != 1 {
			panic(engineErr("loopreached(N) expected"))
		}
		lit, ok := e.Args[0].(*ast.BasicLit)
		if !ok {
			panic(engineErr("loopreached: N must be a literal"))
		}
		n, _ := strconv.Atoi(lit.Value)
		for _, ev := range sc.st.events[sc.evFrom:] {
			if ev.Kind == "loop-summary" && ev.Root && ev.LoopOrd == n {
				return Scalar{tTrue, boolT}
			}
		}
		return Scalar{tFalse, boolT}
	case "received":
		// received(v): v is, unchanged, a result of one of the calls made so far - other than the constructors of
		// new errors in fmt and errors (a wrapped or re-made error is not the error that was received). Calls made
		// in earlier iterations of a loop are not looked at (the clause is then not provable, never wrongly proved).
		need(1)
		v := arg(0)
		var alts []Term
		for _, ev := range sc.st.events[sc.evFrom:] {
			if ev.Kind != "call" || strings.HasPrefix(ev.Name, "fmt.") || strings.HasPrefix(ev.Name, "errors.") {
				continue
			}
			for _, r := range ev.Results {
				_, vi := v.(IfaceV)
				_, ri := r.(IfaceV)
				if vi != ri || r.GoType() == nil || v.GoType() == nil || !types.Identical(r.GoType(), v.GoType()) {
					continue
				}
				alts = append(alts, x.specEqual(r, v))
			}
		}
		if len(alts) == 0 {
			return Scalar{tFalse, boolT}
		}
		return Scalar{or(alts...), boolT}
	case "fresh":
		// fresh(x): the object x was allocated during this call
		need(1)
		ts := x.flatten(arg(0))
		return Scalar{Term{"(> " + ts[0].S + " ALLOC0)", SBool}, boolT}
	case "strsub":
		need(3)
		x.sym.declareFun("strsub", []Sort{SStr, SInt, SInt}, SStr)
		return Scalar{mk(SStr, "strsub", argT(0), argT(1), argT(2)), types.Typ[types.String]}
	case "ismethod":
		// ismethod(f, recv, "name"): f is the method value recv.name (a bound method)
		need(3)
		fv, ok := arg(0).(FuncV)
		lit, ok2 := e.Args[2].(*ast.BasicLit)
		if !ok || !ok2 || fv.Fn == nil {
			return Scalar{tFalse, boolT}
		}
		want, _ := strconv.Unquote(lit.Value)
		if fv.Fn.Name() != want+"$bound" || len(fv.Bind) != 1 {
			return Scalar{tFalse, boolT}
		}
		return Scalar{x.specEqual(fv.Bind[0], arg(1)), boolT}
	case "captured":
		// captured(f, T): the cell of the unique variable of type T captured by closure f
		need(2)
		fv, ok := arg(0).(FuncV)
		tv, ok2 := arg(1).(TypeV)
		if !ok || !ok2 || fv.Fn == nil {
			return PoisonV{}
		}
		var found *PtrV
		for i, free := range fv.Fn.FreeVars {
			pt, isPtr := free.Type().Underlying().(*types.Pointer)
			if !isPtr || i >= len(fv.Bind) || !types.Identical(pt.Elem(), tv.T) {
				continue
			}
			if pv, ok := fv.Bind[i].(PtrV); ok {
				if found != nil {
					return PoisonV{}
				}
				p := pv
				found = &p
			}
		}
		if found == nil {
			return PoisonV{}
		}
		return *found
	case "fresh_in_iteration":
		// the object was allocated after the loop head was reached (one variable per iteration)
		need(1)
		if sc.head == nil {
			panic(engineErr("fresh_in_iteration outside an iteration clause"))
		}
		ts := x.flatten(arg(0))
		return Scalar{Term{fmt.Sprintf("(> %s (+ ALLOC0 %d))", ts[0].S, sc.head.allocN), SBool}, boolT}
	case "visited":
		// visited(m, k): key k has already been produced by the range loop over map m that is in progress
		// (the ghost set of the map iterator)
		need(2)
		if sc.frame == nil {
			return PoisonV{}
		}
		mv, ok := arg(0).(Scalar)
		if !ok {
			panic(engineErr("visited(m, k): m must be a map"))
		}
		var found *IterV
		for _, rv := range sc.frame.regs {
			if it, ok := rv.(IterV); ok && it.MT != nil && it.Map.S == mv.T.S && (found == nil || it.Seq > found.Seq) {
				cp := it
				found = &cp
			}
		}
		if found == nil {
			// no iterator over a map with this very term: the most recent iterator over a map of the same type,
			// provided it is provably over this map
			if mt, ok := mv.Typ.Underlying().(*types.Map); ok {
				for _, rv := range sc.frame.regs {
					if it, ok := rv.(IterV); ok && it.MT != nil && types.Identical(it.MT, mt) && (found == nil || it.Seq > found.Seq) {
						cp := it
						found = &cp
					}
				}
				if found != nil && !x.entails(sc.st, eq(found.Map, mv.T)) {
					found = nil
				}
			}
		}
		if found == nil {
			return PoisonV{}
		}
		return Scalar{sel(found.Visited, x.keyTerm(sc.st, arg(1))), boolT}
	case "ifacekey":
		need(1)
		return Scalar{x.keyTerm(sc.st, arg(0)), types.Typ[types.Int]}
	case "now":
		if v, ok := sc.st.lets["$now"]; ok {
			return v
		}
		panic(engineErr("now(): no clock reading on this path"))
	case "held":
		need(1)
		p := arg(0)
		_ = p
		pv, ok := x.evalAddr(sc, e.Args[0])
		if !ok {
			panic(engineErr("held: argument must be addressable"))
		}
		return Scalar{boolLit(sc.st.held[x.ptrScalar(pv).S]), boolT}
	case "errIs":
		need(2)
		x.sym.declareFun("errors_is", []Sort{SInt, SInt, SInt, SInt}, SBool)
		a, b := arg(0).(IfaceV), arg(1).(IfaceV)
		return Scalar{mk(SBool, "errors_is", a.Tag, a.Val, b.Tag, b.Val), boolT}
	case "token":
		need(1)
		n := exprString(e.Args[0])
		if t, ok := sc.st.tokens[n]; ok {
			return Scalar{t, types.Typ[types.Int]}
		}
		return Scalar{intLit(0), types.Typ[types.Int]}
	}
	if mc, ok := x.db.Macros[name]; ok {
		if len(e.Args) != len(mc.Params) {
			panic(engineErr("macro %s expects %d arguments", name, len(mc.Params)))
		}
		nsc := *sc
		nsc.bound = map[string]Value{}
		for k, v := range sc.bound {
			nsc.bound[k] = v
		}
		for i, pn := range mc.Params {
			nsc.bound[pn] = arg(i)
		}
		return x.evalSpec(&nsc, mc.Body)
	}
	if sf, ok := x.db.Specs[name]; ok {
		x.defineSpecFun(sf)
		if len(e.Args) != len(sf.Params) {
			panic(engineErr("spec function %s expects %d arguments", name, len(sf.Params)))
		}
		args := make([]Term, len(e.Args))
		for i := range e.Args {
			a := argT(i)
			if sf.Params[i].Sort == SReal {
				a = toReal(a)
			}
			args[i] = a
		}
		var typ types.Type = types.Typ[types.Int]
		switch sf.Ret {
		case SBool:
			typ = boolT
		case SReal:
			typ = types.Typ[types.Float64]
		case SStr:
			typ = types.Typ[types.String]
		}
		if len(args) == 0 {
			return Scalar{Term{"spec_" + name, sf.Ret}, typ}
		}
		return Scalar{mk(sf.Ret, "spec_"+name, args...), typ}
	}
	panic(engineErr("unknown spec function %s", name))
}

// evalAddr evaluates an expression to the address it denotes (x.f -> pointer to field f).
func (x *Exec) evalAddr(sc *specCtx, e ast.Expr) (PtrV, bool) {
	switch e := e.(type) {
	case *ast.ParenExpr:
		return x.evalAddr(sc, e.X)
	case *ast.SelectorExpr:
		var b PtrV
		base := x.evalSpec(sc, e.X)
		if pb, ok := base.(PtrV); ok {
			b = pb
		} else if ab, ok := x.evalAddr(sc, e.X); ok {
			b = ab // field of a struct held by value inside an addressable object
		} else {
			return PtrV{}, false
		}
		_, t := subLeaves(b.Root, b.Path)
		if _, isPtr := t.Underlying().(*types.Pointer); isPtr {
			lp, ok := sc.load(b).(PtrV)
			if !ok {
				return PtrV{}, false
			}
			b = lp
			_, t = subLeaves(b.Root, b.Path)
		}
		path, _, ok := fieldPath(t, e.Sel.Name)
		if !ok {
			return PtrV{}, false
		}
		return PtrV{Base: b.Base, Root: b.Root, Path: append(append([]int(nil), b.Path...), path...), Elem: b.Elem, Idx: b.Idx}, true
	case *ast.Ident:
		if p, ok := sc.addrVars[e.Name]; ok {
			return p, true
		}
		if sc.frame != nil {
			if ent, ok := sc.frame.env[e.Name]; ok && ent.isAddr {
				if p, ok := ent.v.(PtrV); ok {
					return p, true
				}
			}
		}
		if v, ok := sc.lookupVar(e.Name); ok {
			if p, ok := v.(PtrV); ok {
				return p, true
			}
		}
	}
	return PtrV{}, false
}

func (x *Exec) defineSpecFun(sf *SpecFunc) {
	n := "spec_" + sf.Name
	if _, ok := x.sym.decl[n]; ok {
		return
	}
	if sf.Body == nil {
		var as []Sort
		for _, p := range sf.Params {
			as = append(as, p.Sort)
		}
		x.sym.declareFun(n, as, sf.Ret)
		return
	}
	if sf.Rec {
		// declare first so the body can mention it
		x.sym.decl[n] = ""
	}
	sc := &specCtx{x: x, st: newState(), vars: map[string]Value{}, heap: map[string]Term{}}
	var ps []string
	for _, p := range sf.Params {
		var gt types.Type = types.Typ[types.Int]
		switch p.Sort {
		case SBool:
			gt = boolT
		case SReal:
			gt = types.Typ[types.Float64]
		case SStr:
			gt = types.Typ[types.String]
		default:
			if strings.HasPrefix(string(p.Sort), "(Array") {
				gt = nil
			}
		}
		sc.vars[p.Name] = Scalar{Term{p.Name + "$", p.Sort}, gt}
		ps = append(ps, fmt.Sprintf("(%s$ %s)", p.Name, p.Sort))
	}
	body := x.evalSpec(sc, sf.Body).(Scalar).T
	if sf.Ret == SReal {
		body = toReal(body)
	}
	kw := "define-fun"
	if sf.Rec {
		kw = "define-fun-rec"
		delete(x.sym.decl, n)
	}
	x.sym.defineRaw(n, fmt.Sprintf("(%s %s (%s) %s %s)", kw, n, strings.Join(ps, " "), sf.Ret, body.S))
}

// ---------- ghost events ----------

// matchEvent returns the condition under which event ev is a call of the function denoted by f.
func (x *Exec) matchEvent(sc *specCtx, f ast.Expr, ev *Event) Term {
	// a `let` naming an event designator, e.g. let locked = on("lock", tw.mu)
	if id, ok := f.(*ast.Ident); ok {
		if le, ok := sc.letExprs[id.Name]; ok {
			if ce, ok := le.(*ast.CallExpr); ok {
				if fid, ok := ce.Fun.(*ast.Ident); ok && fid.Name == "on" {
					f = le
				}
			}
		}
	}
	// on("lock", pe.lock): an event of that kind/name on that object (mutex, channel, wait group)
	if ce, ok := f.(*ast.CallExpr); ok {
		if id, ok := ce.Fun.(*ast.Ident); ok && id.Name == "on" && len(ce.Args) == 2 {
			lit, ok := ce.Args[0].(*ast.BasicLit)
			if !ok {
				panic(engineErr("on(kind, object): kind must be a string literal"))
			}
			s, _ := strconv.Unquote(lit.Value)
			if ev.Name != s && ev.Kind != s {
				return tFalse
			}
			// channels (and other reference values) are identified by their value, mutexes / wait groups
			// (structs held by value) by their address
			var want Term
			v := x.evalSpec(sc, ce.Args[1])
			if isPoison(v) {
				return tFalse // no event is on an object that does not exist on this path
			}
			if sv, ok := v.(Scalar); ok {
				want = sv.T
			} else if pv, ok := v.(PtrV); ok {
				want = x.ptrScalar(pv)
			} else if p, ok := x.evalAddr(sc, ce.Args[1]); ok {
				want = x.ptrScalar(p)
			} else {
				want = x.flatten(v)[0]
			}
			if ev.Callee == nil {
				return tFalse
			}
			// channels of different element types are different channels
			if gt, wt := ev.Callee.GoType(), v.GoType(); gt != nil && wt != nil {
				if gc, ok := gt.Underlying().(*types.Chan); ok {
					if wc, ok := wt.Underlying().(*types.Chan); ok && !types.Identical(gc.Elem(), wc.Elem()) {
						return tFalse
					}
				}
			}
			got := x.flatten(ev.Callee)[0]
			return eq(got, want)
		}
	}
	if ev.Kind != "call" && ev.Kind != "go" {
		if lit, ok := f.(*ast.BasicLit); ok && lit.Kind == token.STRING {
			s, _ := strconv.Unquote(lit.Value)
			return boolLit(ev.Name == s || ev.Kind == s)
		}
		return tFalse
	}
	switch f := f.(type) {
	case *ast.BasicLit:
		if f.Kind == token.STRING {
			s, _ := strconv.Unquote(f.Value)
			return boolLit(ev.Name == s)
		}
	case *ast.Ident:
		if v, ok := sc.lookupVar(f.Name); ok {
			if os.Getenv("GOVC_DEBUG") != "" {
				fmt.Fprintf(os.Stderr, "matchEvent: ident %s resolves to %T %v\n", f.Name, v, v)
			}
			if fv, ok := v.(FuncV); ok {
				if cv, ok := ev.Callee.(FuncV); ok {
					if cv.ID.S == fv.ID.S {
						return tTrue
					}
					if fv.Fn != nil && cv.Fn != nil {
						return boolLit(fv.Fn == cv.Fn)
					}
					if strings.HasPrefix(cv.ID.S, "p_") && strings.HasPrefix(fv.ID.S, "p_") {
						return tFalse // calls made through distinct function-typed parameters
					}
					if (fv.Fn == nil) != (cv.Fn == nil) {
						return tFalse // a statically known callee vs. a call through a function value
					}
					if fv.Fn == nil && cv.Fn == nil && ev.Name != f.Name {
						return tFalse // calls(f) counts the calls made through the variable f (origin-based)
					}
					return eq(cv.ID, fv.ID)
				}
				return tFalse
			}
		}
		// static function or method name
		return boolLit(nameMatches(ev.Name, f.Name))
	case *ast.SelectorExpr:
		if id, ok := f.X.(*ast.Ident); ok {
			if _, isVar := sc.lookupVar(id.Name); !isVar {
				if p := sc.importedPkg(id.Name); p != nil {
					// pkg.Func
					if cv, ok := ev.Callee.(FuncV); ok && cv.Fn != nil {
						return boolLit(cv.Fn.Name() == f.Sel.Name && pkgPathOf(cv.Fn) == p.Path())
					}
					return tFalse
				}
			}
		}
		// recv.Method, or recv.field where the field holds a function value
		base := x.evalSpec(sc, f.X)
		if pb, ok := base.(PtrV); ok {
			_, pt := subLeaves(pb.Root, pb.Path)
			if _, ft, ok := fieldPath(pt, f.Sel.Name); ok {
				if _, isFn := ft.Underlying().(*types.Signature); isFn {
					base = x.selectField(sc, base, f.Sel.Name)
				}
			}
		} else if sb, ok := base.(StructV); ok && sb.GoType() != nil {
			// a function-valued field of a struct held by value (u.opts.canonicalKey)
			if _, ft, ok := fieldPath(sb.GoType(), f.Sel.Name); ok {
				if _, isFn := ft.Underlying().(*types.Signature); isFn {
					base = x.selectField(sc, base, f.Sel.Name)
				}
			}
		}
		switch b := base.(type) {
		case PoisonV:
			return tFalse
		case IfaceV:
			if ev.Method != f.Sel.Name {
				// may be a statically dispatched method on a known dynamic type
				if ev.Method == "" && nameMatches(ev.Name, f.Sel.Name) && len(ev.Args) > 0 {
					// statically dispatched method: the receiver must be the interface's payload
					fa := x.flatten(ev.Args[0])
					rt := ev.Args[0].GoType()
					if it, ok := b.Typ.Underlying().(*types.Interface); ok && rt != nil && !types.Implements(rt, it) {
						return tFalse // the receiver's type cannot be the dynamic type of this interface value
					}
					if len(fa) == 1 {
						return and(eq(fa[0], b.Val), eq(b.Tag, intLit(int64(x.typeID(rt)))))
					}
				}
				return tFalse
			}
			cv, ok := ev.Callee.(IfaceV)
			if !ok {
				return tFalse
			}
			return and(eq(cv.Tag, b.Tag), eq(cv.Val, b.Val))
		case PtrV, Scalar, StructV:
			if ev.Method == "" && nameMatches(ev.Name, f.Sel.Name) && len(ev.Args) > 0 {
				fa := x.flatten(ev.Args[0])
				fb := x.flatten(base)
				_, recvIsPtr := ev.Args[0].(PtrV)
				if _, isStruct := b.(StructV); isStruct && len(fa) == 1 && recvIsPtr {
					// method with pointer receiver called on an addressable struct field: compare addresses
					if ap, ok := x.evalAddr(sc, f.X); ok {
						return eq(fa[0], x.ptrScalar(ap))
					}
				}
				if len(fa) == len(fb) {
					cs := make([]Term, len(fa))
					for i := range fa {
						cs[i] = eq(fa[i], fb[i])
					}
					return and(cs...)
				}
			}
			return tFalse
		case FuncV:
			if cv, ok := ev.Callee.(FuncV); ok {
				if cv.ID.S == b.ID.S {
					return tTrue
				}
				if ev.Name != f.Sel.Name {
					return tFalse
				}
				if os.Getenv("GOVC_DEBUG") != "" {
					fmt.Fprintf(os.Stderr, "matchEvent func field: %s vs %s\n", cv.ID.S, b.ID.S)
				}
				return eq(cv.ID, b.ID)
			}
			return tFalse
		}
	}
	panic(engineErr("cannot interpret %s as a callee", exprString(f)))
}

func (x *Exec) isFuncField(sc *specCtx, se *ast.SelectorExpr) (res bool) {
	defer func() {
		if r := recover(); r != nil {
			res = false
		}
	}()
	if id, ok := se.X.(*ast.Ident); ok {
		if _, isVar := sc.lookupVar(id.Name); !isVar && sc.importedPkg(id.Name) != nil {
			return false
		}
	}
	base := x.evalSpec(sc, se.X)
	var t types.Type
	switch b := base.(type) {
	case PtrV:
		_, t = subLeaves(b.Root, b.Path)
	case StructV:
		t = b.GoType()
	default:
		return false
	}
	if t == nil {
		return false
	}
	if _, ft, ok := fieldPath(t, se.Sel.Name); ok {
		_, isFn := ft.Underlying().(*types.Signature)
		return isFn
	}
	return false
}

// sliceOffsetOf finds a subterm (+ OFF q) of body (OFF free of q) and returns OFF.
func sliceOffsetOf(body, q string) (string, bool) {
	from := 0
	for {
		i := strings.Index(body[from:], "(+ ")
		if i < 0 {
			return "", false
		}
		i += from
		j := i + 3
		// one balanced s-expression (or atom) starting at j
		k := j
		if k < len(body) && body[k] == '(' {
			depth := 0
			for k < len(body) {
				if body[k] == '(' {
					depth++
				} else if body[k] == ')' {
					depth--
					if depth == 0 {
						k++
						break
					}
				}
				k++
			}
		} else {
			for k < len(body) && body[k] != ' ' && body[k] != ')' {
				k++
			}
		}
		off := body[j:k]
		if strings.HasPrefix(body[k:], " "+q+")") && !containsToken(off, q) && off != "0" {
			return off, true
		}
		from = i + 3
	}
}

func isTokenChar(c byte) bool {
	return c != ' ' && c != '(' && c != ')'
}

func containsToken(s, tok string) bool {
	from := 0
	for {
		i := strings.Index(s[from:], tok)
		if i < 0 {
			return false
		}
		i += from
		if (i == 0 || !isTokenChar(s[i-1])) && (i+len(tok) == len(s) || !isTokenChar(s[i+len(tok)])) {
			return true
		}
		from = i + 1
	}
}

func replaceToken(s, tok, by string) string {
	var b strings.Builder
	from := 0
	for {
		i := strings.Index(s[from:], tok)
		if i < 0 {
			b.WriteString(s[from:])
			return b.String()
		}
		i += from
		if (i == 0 || !isTokenChar(s[i-1])) && (i+len(tok) == len(s) || !isTokenChar(s[i+len(tok)])) {
			b.WriteString(s[from:i])
			b.WriteString(by)
			from = i + len(tok)
		} else {
			b.WriteString(s[from : i+1])
			from = i + 1
		}
	}
}

func nameMatches(evName, want string) bool {
	if evName == want {
		return true
	}
	return strings.HasSuffix(evName, "."+want) || strings.HasSuffix(evName, ")."+want) || strings.HasSuffix(evName, " "+want)
}

func (x *Exec) ghostCalls(sc *specCtx, args []ast.Expr) Term {
	if len(args) < 1 {
		panic(engineErr("calls(f, ...) needs a callee"))
	}
	var sum []Term
	n := 0
	for _, ev := range sc.st.events[sc.evFrom:] {
		if ev.Kind == "loop-summary" {
			if x.summaryMayMatch(sc, ev, args[0]) {
				sum = append(sum, x.summaryCount(sc, ev, args))
			}
			continue
		}
		m := x.matchEvent(sc, args[0], ev)
		if m.S == "false" {
			continue
		}
		// argument patterns
		off := 0
		if ev.Method == "" && isMethodSel(sc, args[0]) {
			off = 1 // skip receiver
		}
		for i, pa := range args[1:] {
			if id, ok := pa.(*ast.Ident); ok && id.Name == "_" {
				continue
			}
			if i+off >= len(ev.Args) {
				m = tFalse
				break
			}
			pv := x.evalSpec(sc, pa)
			if isPoison(pv) {
				m = and(m, x.sym.fresh("undefined", SBool))
				continue
			}
			m = and(m, x.specEqual(ev.Args[i+off], pv))
		}
		if m.S == "false" {
			continue
		}
		if m.S == "true" {
			n++
		} else {
			sum = append(sum, ite(m, intLit(1), intLit(0)))
		}
	}
	if len(sum) == 0 {
		return intLit(int64(n))
	}
	sum = append(sum, intLit(int64(n)))
	return mk(SInt, "+", sum...)
}

// summaryMayMatch: can the loop whose earlier iterations ev summarises have emitted an event that the
// designator f denotes? (by name, syntactically)
func (x *Exec) summaryMayMatch(sc *specCtx, ev *Event, f ast.Expr) bool {
	if ev.Wild {
		return true
	}
	if id, ok := f.(*ast.Ident); ok {
		if le, ok := sc.letExprs[id.Name]; ok {
			if ce, ok := le.(*ast.CallExpr); ok {
				if fid, ok := ce.Fun.(*ast.Ident); ok && fid.Name == "on" {
					f = le
				}
			}
		}
	}
	var key string
	isVar := false
	switch e := f.(type) {
	case *ast.CallExpr:
		if id, ok := e.Fun.(*ast.Ident); ok && id.Name == "on" && len(e.Args) == 2 {
			if lit, ok := e.Args[0].(*ast.BasicLit); ok {
				key, _ = strconv.Unquote(lit.Value)
			}
		}
	case *ast.BasicLit:
		if e.Kind == token.STRING {
			key, _ = strconv.Unquote(e.Value)
		}
	case *ast.Ident:
		key = e.Name
		if v, ok := sc.lookupVar(e.Name); ok {
			if fv, ok := v.(FuncV); ok {
				isVar = true
				if fv.Fn != nil {
					key = fv.Fn.Name()
				}
			}
		}
	case *ast.SelectorExpr:
		key = e.Sel.Name
		if x.isFuncField(sc, e) {
			isVar = true
		}
	}
	if key == "" {
		return true
	}
	if isVar && ev.Dyn {
		return true
	}
	for t := range ev.Tokens {
		if t == key || nameMatches(t, key) || nameMatches(key, t) {
			return true
		}
	}
	if strings.HasPrefix(key, "go ") && ev.Tokens["go"] && ev.Dyn {
		return true
	}
	return false
}

// summaryCount: the (unknown, non-negative) number of events matching the designator (and argument patterns)
// that the summarised iterations emitted; one symbol per loop summary and query text, so an invariant such as
// `calls(f) == i` carries the count across the cut.
func (x *Exec) summaryCount(sc *specCtx, ev *Event, args []ast.Expr) Term {
	var parts []string
	for _, a := range args {
		parts = append(parts, exprString(a))
	}
	name := fmt.Sprintf("lc%d_%s", ev.ID, sanitize(strings.Join(parts, ",")))
	if len(name) > 120 {
		h := fnv.New32a()
		h.Write([]byte(name))
		name = fmt.Sprintf("%s_%x", name[:100], h.Sum32())
	}
	c := x.sym.declareConst(name, SInt)
	sc.st.assume(mk(SBool, "<=", intLit(0), c))
	return c
}

func isMethodSel(sc *specCtx, f ast.Expr) bool {
	se, ok := f.(*ast.SelectorExpr)
	if !ok {
		return false
	}
	if sc.x.isFuncField(sc, se) {
		return false // recv.field holding a function value: the call has no receiver argument
	}
	if id, ok := se.X.(*ast.Ident); ok {
		if _, isVar := sc.lookupVar(id.Name); !isVar && sc.importedPkg(id.Name) != nil {
			return false
		}
	}
	return true
}

// uniqueEvent finds the k-th (1-based; 0 = the only one) definite match.
func (x *Exec) definiteEvents(sc *specCtx, f ast.Expr) (res []*Event) {
	defer func() {
		if r := recover(); r != nil {
			if _, ok := r.(indefinite); ok {
				panic(poisonSignal{}) // the query has no definite answer on this path
			}
			panic(r)
		}
	}()
	var out []*Event
	for _, ev := range sc.st.events[sc.evFrom:] {
		if ev.Kind == "loop-summary" {
			if x.summaryMayMatch(sc, ev, f) {
				c := x.summaryCount(sc, ev, []ast.Expr{f})
				if !x.entails(sc.st, eq(c, intLit(0))) {
					if sc.needEvents > 0 && len(out) >= sc.needEvents {
						return out // the occurrence asked for lies before the loop
					}
					panic(indefinite{}) // an unknown number of matching events happened in the loop
				}
			}
			continue
		}
		m := x.matchEvent(sc, f, ev)
		switch m.S {
		case "true":
			out = append(out, ev)
		case "false":
		default:
			if x.entails(sc.st, m) {
				out = append(out, ev)
			} else if !x.entails(sc.st, not(m)) {
				panic(indefinite{})
			}
		}
	}
	return out
}

// lastEvent: the most recent event f denotes, nil when there is none or it is not definite.
func (x *Exec) lastEvent(sc *specCtx, f ast.Expr) *Event {
	evs := sc.st.events[sc.evFrom:]
	for i := len(evs) - 1; i >= 0; i-- {
		ev := evs[i]
		if ev.Kind == "loop-summary" {
			if x.summaryMayMatch(sc, ev, f) && !x.entails(sc.st, eq(x.summaryCount(sc, ev, []ast.Expr{f}), intLit(0))) {
				return nil
			}
			continue
		}
		m := x.matchEvent(sc, f, ev)
		switch m.S {
		case "true":
			return ev
		case "false":
		default:
			if x.entails(sc.st, m) {
				return ev
			} else if !x.entails(sc.st, not(m)) {
				return nil
			}
		}
	}
	return nil
}

func (x *Exec) ghostEventQuery(sc *specCtx, kind string, args []ast.Expr) Value {
	sc.needEvents = 0
	if kind == "ret" || kind == "arg" {
		sc.needEvents = 1
		if len(args) > 2 {
			if lit, ok := args[2].(*ast.BasicLit); ok {
				sc.needEvents, _ = strconv.Atoi(lit.Value)
			}
		}
	}
	if (kind == "ret" || kind == "arg") && len(args) > 2 {
		if id, ok := args[2].(*ast.Ident); ok && id.Name == "last" {
			// ret(f, i, last): the most recent call of f (definite even when earlier iterations of a loop made
			// an unknown number of such calls)
			ev := x.lastEvent(sc, args[0])
			if ev == nil {
				return PoisonV{}
			}
			idx := 0
			if lit, ok := args[1].(*ast.BasicLit); ok {
				idx, _ = strconv.Atoi(lit.Value)
			}
			if kind == "ret" {
				if idx >= len(ev.Results) {
					return PoisonV{}
				}
				return ev.Results[idx]
			}
			if idx >= len(ev.Args) {
				return PoisonV{} // this event has no such argument (e.g. an interface call: receiver not counted)
			}
			return ev.Args[idx]
		}
	}
	evs := x.definiteEvents(sc, args[0])
	sc.needEvents = 0
	intArg := func(i int, def int) int {
		if len(args) <= i {
			return def
		}
		lit, ok := args[i].(*ast.BasicLit)
		if !ok {
			panic(engineErr("%s: index must be a literal", kind))
		}
		n, _ := strconv.Atoi(lit.Value)
		return n
	}
	switch kind {
	case "happened":
		return Scalar{boolLit(len(evs) > 0), boolT}
	case "panicked":
		for _, ev := range evs {
			if ev.Panicked {
				return Scalar{tTrue, boolT}
			}
		}
		return Scalar{tFalse, boolT}
	case "panicnil":
		// panicnil(f): a call of f panicked with a nil value (`panic(nil)`)
		for _, ev := range evs {
			if ev.Panicked {
				if iv, ok := ev.PanicVal.(IfaceV); ok {
					return Scalar{eq(iv.Tag, intLit(0)), boolT}
				}
				return Scalar{tFalse, boolT}
			}
		}
		return Scalar{tFalse, boolT}
	case "ret":
		// ret(f [, resultIndex [, occurrence]])
		ri := intArg(1, 0)
		occ := intArg(2, 1)
		if occ < 1 || occ > len(evs) {
			return PoisonV{}
		}
		ev := evs[occ-1]
		if ri >= len(ev.Results) {
			return PoisonV{}
		}
		return ev.Results[ri]
	case "arg":
		ai := intArg(1, 0)
		occ := intArg(2, 1)
		if occ < 1 || occ > len(evs) {
			return PoisonV{}
		}
		ev := evs[occ-1]
		if ai >= len(ev.Args) {
			return PoisonV{} // this event has no such argument (e.g. an interface call: receiver not counted)
		}
		return ev.Args[ai]
	}
	panic(engineErr("bad ghost query %s", kind))
}

// ghostBefore: every call of f precedes every call of g (vacuous if either is absent). A loop whose earlier
// iterations may have made such calls counts as a possible call at the position of its head.
func (x *Exec) ghostBefore(sc *specCtx, f, g ast.Expr) Term {
	positions := func(h ast.Expr) []int {
		var out []int
		defer func() {
			if r := recover(); r != nil {
				if _, ok := r.(indefinite); ok {
					panic(poisonSignal{})
				}
				panic(r)
			}
		}()
		for i, ev := range sc.st.events[sc.evFrom:] {
			if ev.Kind == "loop-summary" {
				if x.summaryMayMatch(sc, ev, h) && !x.entails(sc.st, eq(x.summaryCount(sc, ev, []ast.Expr{h}), intLit(0))) {
					out = append(out, i)
				}
				continue
			}
			m := x.matchEvent(sc, h, ev)
			switch m.S {
			case "true":
				out = append(out, i)
			case "false":
			default:
				if x.entails(sc.st, m) {
					out = append(out, i)
				} else if !x.entails(sc.st, not(m)) {
					panic(indefinite{})
				}
			}
		}
		return out
	}
	fe := positions(f)
	ge := positions(g)
	for _, a := range fe {
		for _, b := range ge {
			if a >= b {
				return tFalse
			}
		}
	}
	return tTrue
}

// ---------- frames ----------

type frameItem struct {
	key  string
	sort Sort
	obj  *Term // nil: every object
}

// resolveItems turns `modifies` items into heap keys (+ object restriction).
func (x *Exec) resolveItems(sc *specCtx, items []string) []frameItem {
	var out []frameItem
	addField := func(root types.Type, path []int, obj *Term) {
		ls, _ := subLeaves(root, path)
		for _, l := range ls {
			out = append(out, frameItem{heapKeyField(root, l.path), arrSort(SInt, l.sort), obj})
		}
	}
	addElems := func(elem types.Type, obj *Term) {
		for _, l := range leavesOf(elem) {
			out = append(out, frameItem{heapKeyElem(elem, l.path), arrSort(SInt, arrSort(SInt, l.sort)), obj})
		}
	}
	addMap := func(mt *types.Map, obj *Term) {
		ks := x.mapKeySort(mt)
		out = append(out, frameItem{heapKeyMapDom(mt), arrSort(SInt, arrSort(ks, SBool)), obj})
		for _, l := range leavesOf(mt.Elem()) {
			out = append(out, frameItem{heapKeyMapVal(mt, l.path), arrSort(SInt, arrSort(ks, l.sort)), obj})
		}
	}
	for _, it := range items {
		e, err := parseSpecExpr(it)
		if err != nil {
			panic(engineErr("modifies item %q: %v", it, err))
		}
		switch e := e.(type) {
		case *ast.SelectorExpr:
			// Type.field ?
			if tv, ok := x.tryType(sc, e.X); ok {
				path, _, ok := fieldPath(tv, e.Sel.Name)
				if !ok {
					panic(engineErr("modifies %s: no such field", it))
				}
				addField(tv, path, nil)
				continue
			}
			p, ok := x.evalAddr(sc, e)
			if !ok {
				panic(engineErr("modifies %s: not addressable", it))
			}
			if p.Elem {
				addElems(p.Root, &p.Base)
				continue
			}
			b := p.Base
			addField(p.Root, p.Path, &b)
		case *ast.CallExpr:
			fn := exprString(e.Fun)
			switch fn {
			case "elems":
				sv, ok := x.evalSpec(sc, e.Args[0]).(SliceV)
				if !ok {
					panic(engineErr("modifies %s: not a slice", it))
				}
				a := sv.Arr
				addElems(sv.Typ.Underlying().(*types.Slice).Elem(), &a)
			case "elemsOf":
				tv, ok := x.tryType(sc, e.Args[0])
				if !ok {
					panic(engineErr("modifies %s: not a type", it))
				}
				addElems(tv, nil)
			case "all":
				// every field of the object
				if tv, ok := x.tryType(sc, e.Args[0]); ok {
					addField(tv, nil, nil)
					continue
				}
				p, ok := x.evalSpec(sc, e.Args[0]).(PtrV)
				if !ok {
					panic(engineErr("modifies %s: not a pointer", it))
				}
				b := p.Base
				addField(p.Root, p.Path, &b)
			case "mapsof":
				// every map of the same type as the argument
				m, ok := x.evalSpec(sc, e.Args[0]).(Scalar)
				if !ok {
					panic(engineErr("modifies %s: not a map", it))
				}
				addMap(m.Typ.Underlying().(*types.Map), nil)
			case "mapof":
				m, ok := x.evalSpec(sc, e.Args[0]).(Scalar)
				if !ok {
					panic(engineErr("modifies %s: not a map", it))
				}
				mt := m.Typ.Underlying().(*types.Map)
				t := m.T
				addMap(mt, &t)
			case "cells":
				tv, ok := x.tryType(sc, e.Args[0])
				if !ok {
					panic(engineErr("modifies %s: not a type", it))
				}
				addField(tv, nil, nil)
			default:
				panic(engineErr("modifies item %q not understood", it))
			}
		case *ast.StarExpr:
			p, ok := x.evalSpec(sc, e.X).(PtrV)
			if !ok {
				panic(engineErr("modifies %s: not a pointer", it))
			}
			b := p.Base
			addField(p.Root, p.Path, &b)
		case *ast.Ident:
			// a captured variable / local cell
			p, ok := x.evalAddr(sc, e)
			if !ok {
				panic(engineErr("modifies %s: not addressable", it))
			}
			b := p.Base
			addField(p.Root, p.Path, &b)
		default:
			panic(engineErr("modifies item %q not understood", it))
		}
	}
	return out
}

// tryType interprets an expression as a type name (T, pkg.T, basic type names).
func (x *Exec) tryType(sc *specCtx, e ast.Expr) (types.Type, bool) {
	switch e := e.(type) {
	case *ast.Ident:
		if _, isVar := sc.lookupVar(e.Name); isVar {
			return nil, false
		}
		if sc.pkg != nil {
			if tn, ok := sc.pkg.Pkg.Scope().Lookup(e.Name).(*types.TypeName); ok {
				return tn.Type(), true
			}
		}
		if tn, ok := types.Universe.Lookup(e.Name).(*types.TypeName); ok {
			return tn.Type(), true
		}
	case *ast.SelectorExpr:
		if id, ok := e.X.(*ast.Ident); ok {
			if _, isVar := sc.lookupVar(id.Name); !isVar {
				if p := sc.importedPkg(id.Name); p != nil {
					if tn, ok := p.Scope().Lookup(e.Sel.Name).(*types.TypeName); ok {
						return tn.Type(), true
					}
				}
			}
		}
	case *ast.StarExpr:
		if t, ok := x.tryType(sc, e.X); ok {
			return types.NewPointer(t), true
		}
	case *ast.ArrayType:
		if e.Len == nil {
			if t, ok := x.tryType(sc, e.Elt); ok {
				return types.NewSlice(t), true
			}
		}
	case *ast.MapType:
		k, ok1 := x.tryType(sc, e.Key)
		v, ok2 := x.tryType(sc, e.Value)
		if ok1 && ok2 {
			return types.NewMap(k, v), true
		}
	case *ast.InterfaceType:
		if e.Methods == nil || len(e.Methods.List) == 0 {
			return types.NewInterfaceType(nil, nil), true
		}
	}
	return nil, false
}

func (x *Exec) havocItems(st *State, sc *specCtx, items []string) {
	if len(items) == 0 {
		return
	}
	for _, fi := range x.resolveItems(sc, items) {
		if fi.obj == nil {
			x.havocKey(st, fi.key, fi.sort)
			continue
		}
		arr := x.heapArr(st, fi.key, fi.sort)
		fv := x.sym.fresh("hv", elemSort(fi.sort))
		st.heap[fi.key] = sto(arr, *fi.obj, fv)
		x.setHeap(st, fi.key, st.heap[fi.key])
	}
	sc.heap = st.heap
}

// havocItemCoarse: effect of a callee's modifies item when its receiver is not known (loop pre-havoc).
func (x *Exec) havocItemCoarse(st *State, callee *ssa.Function, item string) {
	// evaluate with fresh parameters, then drop the object restriction
	tmp := newState()
	vars := map[string]Value{}
	for _, p := range callee.Params {
		vars[p.Name()] = x.freshValue(tmp, "coarse_"+p.Name(), p.Type())
	}
	sc := &specCtx{x: x, st: tmp, vars: vars, pkg: fnPkg(callee), fn: callee, heap: tmp.heap, lets: map[string]Value{}}
	for _, fi := range x.resolveItems(sc, []string{item}) {
		x.havocKey(st, fi.key, fi.sort)
	}
}

// checkFrame: every heap array that changed must be covered by the modifies clause; objects that existed
// at entry and are not named keep their contents.
func (x *Exec) checkFrame(st *State, fr *Frame, sc *specCtx) {
	pre := fr.pre
	presc := *sc
	presc.heap = pre.heap
	presc.frame = nil
	items := x.resolveItems(&presc, x.rootC.Modifies)
	allowed := map[string][]Term{}
	whole := map[string]bool{}
	for _, it := range items {
		if it.obj == nil {
			whole[it.key] = true
		} else {
			allowed[it.key] = append(allowed[it.key], *it.obj)
		}
	}
	var keys []string
	for k := range st.heap {
		keys = append(keys, k)
	}
	sortStrings(keys)
	for _, k := range keys {
		cur := st.heap[k]
		old, ok := pre.heap[k]
		if !ok {
			old = Term{"H0_" + sanitize(k), cur.Sort}
			x.sym.declareConst(old.S, cur.Sort)
		}
		if cur.S == old.S || whole[k] || k == "CHANCAP" {
			continue
		}
		x.sym.counter++
		o := fmt.Sprintf("o!%d", x.sym.counter)
		conds := []string{fmt.Sprintf("(<= %s ALLOC0)", o)}
		for _, a := range allowed[k] {
			conds = append(conds, fmt.Sprintf("(not (= %s %s))", o, a.S))
		}
		goal := Term{fmt.Sprintf("(forall ((%s Int)) (=> (and %s) (= (select %s %s) (select %s %s))))", o, strings.Join(conds, " "), cur.S, o, old.S, o), SBool}
		x.assert(st, x.oblName("frame", 0, frameKeyLabel(k)), "frame", "only the locations named in `modifies` change: "+k, x.rootC.Src, goal, true)
	}
}

func frameKeyLabel(k string) string {
	parts := strings.Split(k, "|")
	if len(parts) == 3 {
		t := parts[1]
		if i := strings.LastIndex(t, "/"); i >= 0 {
			t = t[i+1:]
		}
		return parts[0] + ":" + t + ":" + parts[2]
	}
	return k
}

func sortStrings(s []string) {
	for i := 1; i < len(s); i++ {
		for j := i; j > 0 && s[j] < s[j-1]; j-- {
			s[j], s[j-1] = s[j-1], s[j]
		}
	}
}

// monitorHook: lock-protected invariants (see contracts `monitor`).
// guardHavoc: `guards L: items` of the function under verification - at every acquisition of L the items hold
// whatever other threads left there while L was free.
func (x *Exec) guardHavoc(st *State, lock PtrV) {
	if x.rootC == nil || len(x.rootC.Guards) == 0 || len(st.frames) == 0 {
		return
	}
	root := st.frames[0]
	sc := x.specCtxFor(st, root, root.pre)
	for _, g := range x.rootC.Guards {
		e, err := parseSpecExpr(g.Lock)
		if err != nil {
			panic(engineErr("guards lock %q: %v", g.Lock, err))
		}
		lp, ok := x.evalAddr(sc, e)
		if !ok || x.ptrScalar(lp).S != x.ptrScalar(lock).S {
			continue
		}
		x.havocItems(st, sc, g.Items)
	}
}

func (x *Exec) monitorHook(st *State, fr *Frame, kind string, lock PtrV) {
	if x.rootC == nil || len(x.rootC.Monitors) == 0 {
		return
	}
	root := st.frames[0]
	sc := x.specCtxFor(st, root, root.pre)
	for i, m := range x.rootC.Monitors {
		e, err := parseSpecExpr(m.Lock)
		if err != nil {
			panic(engineErr("monitor lock %q: %v", m.Lock, err))
		}
		lp, ok := x.evalAddr(sc, e)
		if !ok || x.ptrScalar(lp).S != x.ptrScalar(lock).S {
			continue
		}
		if kind == "lock" {
			st.assume(x.evalBool(sc, m.Inv.Expr))
		} else {
			x.assert(st, x.oblName("monitor-unlock", i+1, ""), "monitor", m.Inv.Text, m.Inv.Src, x.evalBool(sc, m.Inv.Expr), true)
		}
	}
}

// sentinelFact: package-level error variables initialised with errors.New / fmt.Errorf are distinct non-nil
// values (assumed never reassigned).
func (x *Exec) sentinelFact(p PtrV, v Value) Term {
	if f := x.initNonNilFact(p, v); f.S != "true" {
		return f
	}
	iv, ok := v.(IfaceV)
	if !ok || len(p.Path) != 0 || p.Elem || !isLiteral(p.Base.S) || !strings.HasPrefix(p.Base.S, "(- ") {
		return tTrue
	}
	var id int
	fmt.Sscanf(p.Base.S, "(- %d)", &id)
	var g *ssa.Global
	for gg, gid := range x.globalIDs {
		if gid == id {
			g = gg
		}
	}
	if g == nil || !x.isSentinel(g) {
		return tTrue
	}
	key := g.Pkg.Pkg.Path() + "." + g.Name()
	n, ok := x.sentinels[key]
	if !ok {
		n = len(x.sentinels) + 1
		x.sentinels[key] = n
	}
	x.trusted["error sentinel "+key+" is a distinct non-nil value that is never reassigned"] = true
	return and(eq(iv.Tag, intLit(int64(x.typeIDByName("*errors.errorString")))), eq(iv.Val, intLit(int64(-100000-n))))
}

// initNonNilFact: a package-level map / channel / pointer variable whose declaration initialises it with make,
// new, &T{...} or a composite literal and that no function of its package ever assigns again is not nil.
func (x *Exec) initNonNilFact(p PtrV, v Value) Term {
	sv, ok := v.(Scalar)
	if !ok || len(p.Path) != 0 || p.Elem || !isLiteral(p.Base.S) || !strings.HasPrefix(p.Base.S, "(- ") {
		return tTrue
	}
	switch p.Root.Underlying().(type) {
	case *types.Map, *types.Chan, *types.Pointer:
	default:
		return tTrue
	}
	var id int
	fmt.Sscanf(p.Base.S, "(- %d)", &id)
	var g *ssa.Global
	for gg, gid := range x.globalIDs {
		if gid == id {
			g = gg
		}
	}
	if g == nil || g.Pkg == nil || !x.initialisedOnce(g) {
		return tTrue
	}
	x.trusted["package variable "+g.Pkg.Pkg.Path()+"."+g.Name()+" is initialised non-nil at its declaration and never assigned again (checked syntactically)"] = true
	return not(eq(sv.T, intLit(0)))
}

func (x *Exec) initialisedOnce(g *ssa.Global) bool {
	if x.initOnce == nil {
		x.initOnce = map[*ssa.Global]bool{}
	}
	if r, ok := x.initOnce[g]; ok {
		return r
	}
	res := false
	defer func() { x.initOnce[g] = res }()
	pp := x.pkgs[g.Pkg.Pkg.Path()]
	if pp == nil {
		return false
	}
	// the declaration's initialiser
	initOK := false
	for _, f := range pp.Syntax {
		for _, d := range f.Decls {
			gd, ok := d.(*ast.GenDecl)
			if !ok || gd.Tok != token.VAR {
				continue
			}
			for _, sp := range gd.Specs {
				vs := sp.(*ast.ValueSpec)
				for i, n := range vs.Names {
					if n.Name != g.Name() || i >= len(vs.Values) || len(vs.Values) != len(vs.Names) {
						continue
					}
					switch e := vs.Values[i].(type) {
					case *ast.CallExpr:
						fn := exprString(e.Fun)
						initOK = fn == "make" || fn == "new"
					case *ast.CompositeLit:
						initOK = true
					case *ast.UnaryExpr:
						_, isLit := e.X.(*ast.CompositeLit)
						initOK = e.Op == token.AND && isLit
					}
				}
			}
		}
	}
	if !initOK {
		return false
	}
	// no other store to it anywhere in the package
	var scan func(fn *ssa.Function) bool
	seen := map[*ssa.Function]bool{}
	scan = func(fn *ssa.Function) bool {
		if fn == nil || seen[fn] {
			return true
		}
		seen[fn] = true
		if x.ld != nil {
			x.ld.ensureBuilt(fn)
		}
		for _, b := range fn.Blocks {
			for _, in := range b.Instrs {
				if st, ok := in.(*ssa.Store); ok && st.Addr == ssa.Value(g) && fn.Name() != "init" {
					return false
				}
			}
		}
		for _, af := range fn.AnonFuncs {
			if !scan(af) {
				return false
			}
		}
		return true
	}
	for _, m := range g.Pkg.Members {
		switch mm := m.(type) {
		case *ssa.Function:
			if !scan(mm) {
				return false
			}
		case *ssa.Type:
			for _, T := range []types.Type{mm.Type(), types.NewPointer(mm.Type())} {
				ms := x.prog.MethodSets.MethodSet(T)
				for i := 0; i < ms.Len(); i++ {
					if !scan(x.prog.MethodValue(ms.At(i))) {
						return false
					}
				}
			}
		}
	}
	res = true
	return true
}

func (x *Exec) isSentinel(g *ssa.Global) bool {
	pp := x.pkgs[g.Pkg.Pkg.Path()]
	if pp == nil {
		return false
	}
	for _, f := range pp.Syntax {
		for _, d := range f.Decls {
			gd, ok := d.(*ast.GenDecl)
			if !ok || gd.Tok != token.VAR {
				continue
			}
			for _, s := range gd.Specs {
				vs := s.(*ast.ValueSpec)
				for i, n := range vs.Names {
					if n.Name != g.Name() || i >= len(vs.Values) {
						continue
					}
					switch v := vs.Values[i].(type) {
					case *ast.CallExpr:
						fn := exprString(v.Fun)
						return fn == "errors.New" || fn == "fmt.Errorf" || fn == "New" && pp.PkgPath == "errors"
					case *ast.CompositeLit:
						return true // e.g. context.DeadlineExceeded = deadlineExceededError{}
					case *ast.UnaryExpr:
						_, isLit := v.X.(*ast.CompositeLit)
						return isLit
					}
					return false
				}
			}
		}
	}
	return false
}

func letMap(c *FuncContract) map[string]ast.Expr {
	if len(c.Lets) == 0 {
		return nil
	}
	m := map[string]ast.Expr{}
	for _, l := range c.Lets {
		m[l.Label] = l.Expr
	}
	return m
}

// roundToFloat64: float constants take the value of the nearest float64, as they do in the compiled code.
func roundToFloat64(r *big.Rat) *big.Rat {
	f := new(big.Float).SetPrec(53).SetMode(big.ToNearestEven).SetRat(r)
	out, _ := f.Rat(nil)
	if out == nil {
		return r
	}
	return out
}

// scratch: a throw-away state for operations that only need to build terms (boxing of scalars).
func (x *Exec) scratch() *State { return newState() }
