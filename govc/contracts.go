package main

// Contract files: `//@` comment lines in <pkg>/zz_contracts_verif.go (in /repo, build tag verif) and in
// /verif/contracts/ext/*.spec (assumed contracts on dependencies, never checked).

import (
	"fmt"
	"go/ast"
	"go/parser"
	"os"
	"path/filepath"
	"sort"
	"strconv"
	"strings"
)

type Clause struct {
	Kind  string
	Label string
	Text  string
	Expr  ast.Expr
	Src   string // file:line
	// AtCreation: a `captured-requires` clause of a closure (checked where the closure is created)
	AtCreation bool
}

type LoopSpec struct {
	IterEnsures []Clause // checked at the back edge over the events of one iteration
	Invariants  []Clause
	Modifies    []string
	HasMod      bool
	Entry       []Clause
}

type FuncContract struct {
	Pkg          string // package path
	Name         string // RelString
	Props        []string
	Requires     []Clause
	Ensures      []Clause
	PanicEnsures []Clause
	Assumes      []Clause
	Lets         []Clause // Label = name
	Modifies     []string
	HasMod       bool
	Arith        string
	MayPanic     map[string]bool
	Loops        map[int]*LoopSpec
	Trusted      bool // assumed, not verified (ext files, or `trusted` directive)
	NoPanic      bool
	Safety       bool
	SafetyOff    bool
	SafetyKinds  map[string]bool
	Pure         bool
	InlineAlways bool
	Src          string
	Notes        []string
	Monitors     []MonitorSpec
	Guards       []GuardSpec
	Opaque       map[string]bool // callee names to treat as opaque events instead of inlining
	Havocs       map[string][]string
	Folds        map[string][]Clause // callee name -> invariants over the state its callback argument updates
	Observes     []Clause            // Label = name
	ReplayAssume []Clause
	Replay       string
	ReplayFor    map[string]string // clause label -> template (replay-for <label> <template>)
}

// GuardSpec: locations that other threads may change while the lock is free.
type GuardSpec struct {
	Lock  string
	Items []string
}

type MonitorSpec struct {
	Lock string
	Inv  Clause
}

type SpecParam struct {
	Name string
	Sort Sort
}

type SpecFunc struct {
	Name   string
	Params []SpecParam
	Ret    Sort
	Body   ast.Expr
	Text   string
	Rec    bool
	Src    string
}

type Lemma struct {
	Pkg      string
	Name     string
	Params   []SpecParam
	Requires []Clause
	Ensures  []Clause
	Props    []string
	Src      string
}

type Macro struct {
	Name   string
	Params []string
	Body   ast.Expr
	Src    string
}

type ContractDB struct {
	Funcs  map[string]*FuncContract // key: pkgpath + "::" + relname
	Macros map[string]*Macro
	Specs  map[string]*SpecFunc
	Lemmas []*Lemma
	Luas   []*LuaContract
	Files  []string
}

func newContractDB() *ContractDB {
	return &ContractDB{Funcs: map[string]*FuncContract{}, Specs: map[string]*SpecFunc{}, Macros: map[string]*Macro{}}
}

func (db *ContractDB) lookup(pkg, name string) *FuncContract {
	return db.Funcs[pkg+"::"+name]
}

func sortOfName(n string) (Sort, error) {
	switch n {
	case "int", "int64", "Int", "uint64", "int32", "uint", "ref":
		return SInt, nil
	case "bool", "Bool":
		return SBool, nil
	case "real", "float64", "Real":
		return SReal, nil
	case "string", "Str":
		return SStr, nil
	case "intset":
		return arrSort(SInt, SBool), nil
	case "intmap":
		return arrSort(SInt, SInt), nil
	case "realmap":
		return arrSort(SInt, SReal), nil
	case "strmap":
		return arrSort(SStr, SStr), nil
	case "strset":
		return arrSort(SStr, SBool), nil
	}
	return "", fmt.Errorf("unknown spec sort %q", n)
}

// rewriteArrows turns `a ==> b` into implies(a, b) and `a <==> b` into iff(a, b), at every nesting level.
func rewriteArrows(s string) string {
	// first rewrite inside parenthesised / bracketed groups
	var b strings.Builder
	i := 0
	for i < len(s) {
		c := s[i]
		if c == '"' || c == '`' {
			j := i + 1
			for j < len(s) && s[j] != c {
				if s[j] == '\\' {
					j++
				}
				j++
			}
			if j >= len(s) {
				j = len(s) - 1
			}
			b.WriteString(s[i : j+1])
			i = j + 1
			continue
		}
		if c == '(' || c == '[' {
			j := matchParen(s, i)
			inner := s[i+1 : j]
			parts := splitTop(inner, ",")
			for k, p := range parts {
				parts[k] = rewriteArrows(p)
			}
			b.WriteByte(c)
			b.WriteString(strings.Join(parts, ","))
			b.WriteByte(s[j])
			i = j + 1
			continue
		}
		b.WriteByte(c)
		i++
	}
	s = b.String()
	if parts := splitTopN(s, "<==>"); len(parts) == 2 {
		return "iff(" + rewriteArrows(parts[0]) + ", " + rewriteArrows(parts[1]) + ")"
	}
	if parts := splitTopN(s, "==>"); len(parts) == 2 {
		return "implies(" + parts[0] + ", " + rewriteArrows(parts[1]) + ")"
	}
	return s
}

func matchParen(s string, i int) int {
	depth := 0
	for j := i; j < len(s); j++ {
		switch s[j] {
		case '(', '[':
			depth++
		case ')', ']':
			depth--
			if depth == 0 {
				return j
			}
		case '"':
			j++
			for j < len(s) && s[j] != '"' {
				if s[j] == '\\' {
					j++
				}
				j++
			}
		}
	}
	return len(s) - 1
}

func splitTop(s, sep string) []string {
	var out []string
	depth := 0
	last := 0
	for i := 0; i < len(s); i++ {
		switch s[i] {
		case '(', '[':
			depth++
		case ')', ']':
			depth--
		case '"':
			i++
			for i < len(s) && s[i] != '"' {
				if s[i] == '\\' {
					i++
				}
				i++
			}
		default:
			if depth == 0 && strings.HasPrefix(s[i:], sep) {
				out = append(out, s[last:i])
				last = i + len(sep)
				i += len(sep) - 1
			}
		}
	}
	out = append(out, s[last:])
	return out
}

// splitTopN splits at the first top-level occurrence of sep (returns 1 or 2 parts).
func splitTopN(s, sep string) []string {
	depth := 0
	for i := 0; i < len(s); i++ {
		switch s[i] {
		case '(', '[':
			depth++
		case ')', ']':
			depth--
		case '"':
			i++
			for i < len(s) && s[i] != '"' {
				if s[i] == '\\' {
					i++
				}
				i++
			}
		default:
			if depth == 0 && strings.HasPrefix(s[i:], sep) {
				if sep == "==>" && i > 0 && s[i-1] == '<' {
					continue
				}
				return []string{s[:i], s[i+len(sep):]}
			}
		}
	}
	return []string{s}
}

func parseSpecExpr(text string) (ast.Expr, error) {
	t := rewriteArrows(text)
	e, err := parser.ParseExpr(t)
	if err != nil {
		return nil, fmt.Errorf("parse %q: %v", t, err)
	}
	return e, nil
}

func splitLabel(rest string) (label, text string) {
	// optional [label] prefix
	rest = strings.TrimSpace(rest)
	if strings.HasPrefix(rest, "[") {
		if j := strings.Index(rest, "]"); j > 0 {
			return rest[1:j], strings.TrimSpace(rest[j+1:])
		}
	}
	return "", rest
}

// parseContractFile reads one contract file. pkgPath is the package path for `func` blocks without
// an explicit package qualifier (ext files give the package with `package <path>` lines).
func (db *ContractDB) parseFile(path, pkgPath string, trusted bool) error {
	data, err := os.ReadFile(path)
	if err != nil {
		return err
	}
	db.Files = append(db.Files, path)
	// gather logical lines
	type lline struct {
		text string
		no   int
	}
	var lines []lline
	for i, raw := range strings.Split(string(data), "\n") {
		t := strings.TrimSpace(raw)
		if !strings.HasPrefix(t, "//@") {
			continue
		}
		t = strings.TrimSpace(t[3:])
		if t == "" {
			continue
		}
		if strings.HasPrefix(t, "|") && len(lines) > 0 {
			lines[len(lines)-1].text += " " + strings.TrimSpace(t[1:])
			continue
		}
		lines = append(lines, lline{t, i + 1})
	}
	var cur *FuncContract
	var curLemma *Lemma
	var curLua *LuaContract
	for _, l := range lines {
		src := fmt.Sprintf("%s:%d", path, l.no)
		word, rest := l.text, ""
		if i := strings.IndexAny(l.text, " \t"); i > 0 {
			word, rest = l.text[:i], strings.TrimSpace(l.text[i+1:])
		}
		mkClause := func(kind string) (Clause, error) {
			label, text := splitLabel(rest)
			e, err := parseSpecExpr(text)
			if err != nil {
				return Clause{}, fmt.Errorf("%s: %v", src, err)
			}
			return Clause{Kind: kind, Label: label, Text: text, Expr: e, Src: src}, nil
		}
		switch word {
		case "package":
			pkgPath = rest
			cur, curLemma = nil, nil
		case "lua":
			curLua = &LuaContract{Pkg: pkgPath, Const: rest, Src: src}
			cur, curLemma = nil, nil
			db.Luas = append(db.Luas, curLua)
		case "func":
			curLua = nil
			cur = &FuncContract{Pkg: pkgPath, Name: rest, MayPanic: map[string]bool{}, Loops: map[int]*LoopSpec{}, Trusted: trusted, Src: src, Opaque: map[string]bool{}, Havocs: map[string][]string{}}
			curLemma = nil
			key := pkgPath + "::" + rest
			if _, dup := db.Funcs[key]; dup {
				return fmt.Errorf("%s: duplicate contract for %s", src, key)
			}
			db.Funcs[key] = cur
		case "spec", "spec-rec":
			sf, err := parseSpecFunc(rest, src)
			if err != nil {
				return err
			}
			sf.Rec = word == "spec-rec"
			if _, dup := db.Specs[sf.Name]; dup {
				return fmt.Errorf("%s: duplicate spec function %s", src, sf.Name)
			}
			db.Specs[sf.Name] = sf
		case "macro":
			i := strings.Index(rest, "(")
			j := -1
			if i >= 0 {
				j = matchParen(rest, i)
			}
			k := strings.Index(rest, "=")
			if i < 0 || j < 0 || k < j {
				return fmt.Errorf("%s: macro name(params) = expr expected", src)
			}
			mc := &Macro{Name: strings.TrimSpace(rest[:i]), Src: src}
			for _, pn := range strings.Split(rest[i+1:j], ",") {
				if pn = strings.TrimSpace(pn); pn != "" {
					mc.Params = append(mc.Params, pn)
				}
			}
			body, err := parseSpecExpr(rest[k+1:])
			if err != nil {
				return fmt.Errorf("%s: %v", src, err)
			}
			mc.Body = body
			if _, dup := db.Macros[mc.Name]; dup {
				return fmt.Errorf("%s: duplicate macro %s", src, mc.Name)
			}
			db.Macros[mc.Name] = mc
		case "lemma":
			lm, err := parseLemmaHead(rest, src)
			if err != nil {
				return err
			}
			lm.Pkg = pkgPath
			curLemma = lm
			cur = nil
			curLua = nil
			db.Lemmas = append(db.Lemmas, lm)
		default:
			if curLua != nil {
				switch word {
				case "requires", "ensures":
					c, err := mkClause(word)
					if err != nil {
						return err
					}
					if word == "requires" {
						curLua.Requires = append(curLua.Requires, c)
					} else {
						curLua.Ensures = append(curLua.Ensures, c)
					}
				case "prop":
					curLua.Props = append(curLua.Props, strings.Fields(strings.ReplaceAll(rest, ",", " "))...)
				default:
					return fmt.Errorf("%s: directive %q not allowed in lua block", src, word)
				}
				continue
			}
			if cur == nil && curLemma == nil {
				return fmt.Errorf("%s: directive %q outside func/lemma block", src, word)
			}
			if curLemma != nil {
				switch word {
				case "requires", "ensures":
					c, err := mkClause(word)
					if err != nil {
						return err
					}
					if word == "requires" {
						curLemma.Requires = append(curLemma.Requires, c)
					} else {
						curLemma.Ensures = append(curLemma.Ensures, c)
					}
				case "prop":
					curLemma.Props = append(curLemma.Props, strings.Fields(strings.ReplaceAll(rest, ",", " "))...)
				default:
					return fmt.Errorf("%s: directive %q not allowed in lemma", src, word)
				}
				continue
			}
			switch word {
			case "prop":
				cur.Props = append(cur.Props, strings.Fields(strings.ReplaceAll(rest, ",", " "))...)
			case "requires", "ensures", "panic-ensures", "assume", "captured-requires":
				c, err := mkClause(word)
				if err != nil {
					return err
				}
				switch word {
				case "captured-requires":
					// a fact about the variables a closure captures, as they are when the closure is created (and not
					// changed afterwards): assumed in the closure, an obligation of the function that creates it
					c.Kind = "requires"
					c.AtCreation = true
					cur.Requires = append(cur.Requires, c)
				case "requires":
					cur.Requires = append(cur.Requires, c)
				case "ensures":
					cur.Ensures = append(cur.Ensures, c)
				case "panic-ensures":
					cur.PanicEnsures = append(cur.PanicEnsures, c)
				case "assume":
					cur.Assumes = append(cur.Assumes, c)
				}
			case "let":
				i := strings.Index(rest, "=")
				if i < 0 {
					return fmt.Errorf("%s: let needs name = expr", src)
				}
				name := strings.TrimSpace(rest[:i])
				e, err := parseSpecExpr(rest[i+1:])
				if err != nil {
					return fmt.Errorf("%s: %v", src, err)
				}
				cur.Lets = append(cur.Lets, Clause{Kind: "let", Label: name, Text: rest[i+1:], Expr: e, Src: src})
			case "fold":
				// fold <callee>: <invariant>   (iterator-style callee that only calls its function argument)
				i := strings.Index(rest, ":")
				if i < 0 {
					return fmt.Errorf("%s: fold needs callee: invariant", src)
				}
				name := strings.TrimSpace(rest[:i])
				label, text := splitLabel(rest[i+1:])
				e, err := parseSpecExpr(text)
				if err != nil {
					return fmt.Errorf("%s: %v", src, err)
				}
				if cur.Folds == nil {
					cur.Folds = map[string][]Clause{}
				}
				cur.Folds[name] = append(cur.Folds[name], Clause{Kind: "fold", Label: label, Text: text, Expr: e, Src: src})
			case "observe":
				i := strings.Index(rest, "=")
				if i < 0 {
					return fmt.Errorf("%s: observe needs name = expr", src)
				}
				e, err := parseSpecExpr(rest[i+1:])
				if err != nil {
					return fmt.Errorf("%s: %v", src, err)
				}
				cur.Observes = append(cur.Observes, Clause{Kind: "observe", Label: strings.TrimSpace(rest[:i]), Text: rest[i+1:], Expr: e, Src: src})
			case "replay":
				cur.Replay = rest
			case "replay-for":
				f := strings.Fields(rest)
				if len(f) != 2 {
					return fmt.Errorf("%s: replay-for <clause label> <template>", src)
				}
				if cur.ReplayFor == nil {
					cur.ReplayFor = map[string]string{}
				}
				cur.ReplayFor[f[0]] = f[1]
			case "replay-assume":
				c, err := mkClause(word)
				if err != nil {
					return err
				}
				cur.ReplayAssume = append(cur.ReplayAssume, c)
			case "modifies":
				cur.HasMod = true
				for _, it := range splitTop(rest, ",") {
					it = strings.TrimSpace(it)
					if it != "" && it != "nothing" {
						cur.Modifies = append(cur.Modifies, it)
					}
				}
			case "arith":
				cur.Arith = rest
			case "may-panic":
				for _, it := range strings.Fields(strings.ReplaceAll(rest, ",", " ")) {
					cur.MayPanic[it] = true
				}
			case "opaque":
				for _, it := range strings.Fields(strings.ReplaceAll(rest, ",", " ")) {
					cur.Opaque[it] = true
				}
			case "havoc-on":
				// havoc-on <callee>: item, item   (heap effect of an opaque callee)
				i := strings.Index(rest, ":")
				if i < 0 {
					return fmt.Errorf("%s: havoc-on needs callee: items", src)
				}
				name := strings.TrimSpace(rest[:i])
				for _, it := range splitTop(rest[i+1:], ",") {
					if it = strings.TrimSpace(it); it != "" {
						cur.Havocs[name] = append(cur.Havocs[name], it)
					}
				}
			case "loop":
				// loop N invariant E | loop N modifies items
				f := strings.Fields(rest)
				if len(f) < 2 {
					return fmt.Errorf("%s: bad loop directive", src)
				}
				n, err := strconv.Atoi(f[0])
				if err != nil {
					return fmt.Errorf("%s: loop ordinal: %v", src, err)
				}
				ls := cur.Loops[n]
				if ls == nil {
					ls = &LoopSpec{}
					cur.Loops[n] = ls
				}
				body := strings.TrimSpace(strings.TrimPrefix(strings.TrimSpace(strings.TrimPrefix(rest, f[0])), f[1]))
				switch f[1] {
				case "invariant":
					label, text := splitLabel(body)
					e, err := parseSpecExpr(text)
					if err != nil {
						return fmt.Errorf("%s: %v", src, err)
					}
					ls.Invariants = append(ls.Invariants, Clause{Kind: "invariant", Label: label, Text: text, Expr: e, Src: src})
				case "entry":
					// loop N entry E: holds when the loop is reached (checked there only, never assumed): pins the
					// start value of the loop variable, which an invariant cannot do
					label, text := splitLabel(body)
					e, err := parseSpecExpr(text)
					if err != nil {
						return fmt.Errorf("%s: %v", src, err)
					}
					ls.Entry = append(ls.Entry, Clause{Kind: "loop-entry", Label: label, Text: text, Expr: e, Src: src})
				case "iteration-ensures":
					label, text := splitLabel(body)
					e, err := parseSpecExpr(text)
					if err != nil {
						return fmt.Errorf("%s: %v", src, err)
					}
					ls.IterEnsures = append(ls.IterEnsures, Clause{Kind: "iteration-ensures", Label: label, Text: text, Expr: e, Src: src})
				case "modifies":
					ls.HasMod = true
					for _, it := range splitTop(body, ",") {
						if it = strings.TrimSpace(it); it != "" && it != "nothing" {
							ls.Modifies = append(ls.Modifies, it)
						}
					}
				default:
					return fmt.Errorf("%s: bad loop directive %q", src, f[1])
				}
			case "guards":
				// guards <lockexpr>: item, item   (state shared with other threads under this lock: unknown again
				// at every acquisition)
				i := strings.Index(rest, ":")
				if i < 0 {
					return fmt.Errorf("%s: guards needs lock: items", src)
				}
				g := GuardSpec{Lock: strings.TrimSpace(rest[:i])}
				for _, it := range splitTop(rest[i+1:], ",") {
					if it = strings.TrimSpace(it); it != "" {
						g.Items = append(g.Items, it)
					}
				}
				cur.Guards = append(cur.Guards, g)
			case "monitor":
				// monitor <lockexpr>: <invariant>
				i := strings.Index(rest, ":")
				if i < 0 {
					return fmt.Errorf("%s: monitor needs lock: invariant", src)
				}
				e, err := parseSpecExpr(rest[i+1:])
				if err != nil {
					return fmt.Errorf("%s: %v", src, err)
				}
				cur.Monitors = append(cur.Monitors, MonitorSpec{Lock: strings.TrimSpace(rest[:i]), Inv: Clause{Kind: "monitor", Text: rest[i+1:], Expr: e, Src: src}})
			case "trusted":
				cur.Trusted = true
				cur.Notes = append(cur.Notes, rest)
			case "nopanic":
				cur.NoPanic = true
			case "safety":
				// `safety on` (all run-time checks incl. nil dereference), `safety off` (none), or a list of kinds:
				// `safety bounds divzero typeassert nilmap makeslice`
				cur.Safety = rest == "on" || rest == ""
				cur.SafetyOff = rest == "off"
				if !cur.Safety && !cur.SafetyOff {
					cur.SafetyKinds = map[string]bool{}
					for _, k := range strings.Fields(strings.ReplaceAll(rest, ",", " ")) {
						cur.SafetyKinds[k] = true
					}
				}
			case "pure":
				cur.Pure = true
			case "inline":
				cur.InlineAlways = rest == "always"
			case "note":
				cur.Notes = append(cur.Notes, rest)
			default:
				return fmt.Errorf("%s: unknown directive %q", src, word)
			}
		}
	}
	return nil
}

func parseParams(s, src string) ([]SpecParam, error) {
	var out []SpecParam
	s = strings.TrimSpace(s)
	if s == "" {
		return nil, nil
	}
	for _, p := range strings.Split(s, ",") {
		f := strings.Fields(p)
		if len(f) != 2 {
			return nil, fmt.Errorf("%s: bad parameter %q", src, p)
		}
		so, err := sortOfName(f[1])
		if err != nil {
			return nil, fmt.Errorf("%s: %v", src, err)
		}
		out = append(out, SpecParam{f[0], so})
	}
	return out, nil
}

// spec name(a int, b int) int = expr
func parseSpecFunc(rest, src string) (*SpecFunc, error) {
	i := strings.Index(rest, "(")
	j := matchParen(rest, i)
	if i < 0 || j < 0 {
		return nil, fmt.Errorf("%s: bad spec function", src)
	}
	name := strings.TrimSpace(rest[:i])
	params, err := parseParams(rest[i+1:j], src)
	if err != nil {
		return nil, err
	}
	tail := strings.TrimSpace(rest[j+1:])
	k := strings.Index(tail, "=")
	if k < 0 {
		// no body: an uninterpreted function (only its being a function of its arguments is known)
		ret, err := sortOfName(tail)
		if err != nil {
			return nil, fmt.Errorf("%s: %v", src, err)
		}
		return &SpecFunc{Name: name, Params: params, Ret: ret, Src: src}, nil
	}
	ret, err := sortOfName(strings.TrimSpace(tail[:k]))
	if err != nil {
		return nil, fmt.Errorf("%s: %v", src, err)
	}
	body, err := parseSpecExpr(tail[k+1:])
	if err != nil {
		return nil, fmt.Errorf("%s: %v", src, err)
	}
	return &SpecFunc{Name: name, Params: params, Ret: ret, Body: body, Text: tail[k+1:], Src: src}, nil
}

func parseLemmaHead(rest, src string) (*Lemma, error) {
	i := strings.Index(rest, "(")
	if i < 0 {
		return nil, fmt.Errorf("%s: lemma needs (params)", src)
	}
	j := matchParen(rest, i)
	params, err := parseParams(rest[i+1:j], src)
	if err != nil {
		return nil, err
	}
	return &Lemma{Name: strings.TrimSpace(rest[:i]), Params: params, Src: src}, nil
}

// loadRepoContracts finds every zz_contracts_verif.go below root.
func (db *ContractDB) loadRepoContracts(root, modPath string) error {
	var files []string
	err := filepath.Walk(root, func(p string, info os.FileInfo, err error) error {
		if err != nil {
			return nil
		}
		if info.IsDir() && (info.Name() == ".git" || info.Name() == "node_modules") {
			return filepath.SkipDir
		}
		if !info.IsDir() && info.Name() == "zz_contracts_verif.go" {
			files = append(files, p)
		}
		return nil
	})
	if err != nil {
		return err
	}
	sort.Strings(files)
	for _, f := range files {
		rel, _ := filepath.Rel(root, filepath.Dir(f))
		pkg := modPath
		if rel != "." {
			pkg = modPath + "/" + filepath.ToSlash(rel)
		}
		if err := db.parseFile(f, pkg, false); err != nil {
			return err
		}
	}
	return nil
}

func (db *ContractDB) loadExtContracts(dir string) error {
	files, _ := filepath.Glob(filepath.Join(dir, "*.spec"))
	sort.Strings(files)
	for _, f := range files {
		if err := db.parseFile(f, "", true); err != nil {
			return err
		}
	}
	return nil
}
