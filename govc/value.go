package main

// Symbolic values and the flattening of Go types into SMT leaves.

import (
	"fmt"
	"go/types"
	"strings"

	"golang.org/x/tools/go/ssa"
)

type Value interface{ GoType() types.Type }

// Scalar: ints, bools, floats, strings; also maps, chans, unsafe pointers (as Int refs).
type Scalar struct {
	T   Term
	Typ types.Type
}

// PtrV: pointer to the object Base of root type Root, at field path Path inside it.
type PtrV struct {
	Base Term
	Root types.Type
	Path []int
	Typ  types.Type
	// Elem: the pointer designates element Idx of the backing array Base of a slice whose element type
	// is Root (Path then selects a field inside the element).
	Elem bool
	Idx  Term
	// AIdx: the pointer designates element AIdx of a fixed array that is a field (Path) of the object; the field is
	// one leaf holding an SMT array. AElem is the element type.
	AIdx  *Term
	AElem types.Type
}

type SliceV struct {
	Arr, Off, Len, Cap Term
	Typ                types.Type
}

type IfaceV struct {
	Tag, Val Term
	Typ      types.Type
}

type StructV struct {
	Fields []Value
	Typ    types.Type
}

type TupleV struct{ Elems []Value }

// FuncV: function value. Fn != nil when the target is known.
type FuncV struct {
	ID   Term
	Fn   *ssa.Function
	Bind []Value
	Typ  types.Type
}

func (v Scalar) GoType() types.Type  { return v.Typ }
func (v PtrV) GoType() types.Type    { return v.Typ }
func (v SliceV) GoType() types.Type  { return v.Typ }
func (v IfaceV) GoType() types.Type  { return v.Typ }
func (v StructV) GoType() types.Type { return v.Typ }
func (v TupleV) GoType() types.Type  { return nil }
func (v FuncV) GoType() types.Type   { return v.Typ }

type leaf struct {
	path string // e.g. "2.0" or "1.len"
	sort Sort
}

// typeKey: identical types must give the same key: `any` and `interface{}` are the same type but print
// differently depending on how the source spelled them.
func typeKey(t types.Type) string {
	s := types.TypeString(t, nil)
	if strings.Contains(s, "interface") {
		s = strings.ReplaceAll(s, "interface {}", "any")
		s = strings.ReplaceAll(s, "interface{}", "any")
	}
	return s
}

func sortOfBasic(b *types.Basic) Sort {
	switch {
	case b.Info()&types.IsBoolean != 0:
		return SBool
	case b.Info()&types.IsInteger != 0:
		return SInt
	case b.Info()&types.IsFloat != 0:
		return SReal
	case b.Info()&types.IsString != 0:
		return SStr
	case b.Kind() == types.UnsafePointer:
		return SInt
	}
	panic(engineErr("unsupported basic type " + b.String()))
}

type engineError struct{ msg string }

func (e engineError) Error() string { return e.msg }
func engineErr(f string, a ...interface{}) engineError {
	return engineError{fmt.Sprintf(f, a...)}
}

// leavesOf flattens a Go type.
func leavesOf(t types.Type) []leaf {
	var out []leaf
	var rec func(t types.Type, prefix string)
	add := func(prefix, name string, s Sort) {
		p := prefix
		if name != "" {
			if p != "" {
				p += "."
			}
			p += name
		}
		out = append(out, leaf{p, s})
	}
	rec = func(t types.Type, prefix string) {
		switch u := t.Underlying().(type) {
		case *types.Basic:
			add(prefix, "", sortOfBasic(u))
		case *types.Pointer, *types.Map, *types.Chan, *types.Signature:
			add(prefix, "", SInt)
		case *types.Slice:
			add(prefix, "arr", SInt)
			add(prefix, "off", SInt)
			add(prefix, "len", SInt)
			add(prefix, "cap", SInt)
		case *types.Interface:
			add(prefix, "tag", SInt)
			add(prefix, "val", SInt)
		case *types.Struct:
			for i := 0; i < u.NumFields(); i++ {
				p := prefix
				if p != "" {
					p += "."
				}
				rec(u.Field(i).Type(), p+fmt.Sprint(i))
			}
		case *types.Array:
			// fixed arrays: one leaf holding an SMT array (element must be single-leaf)
			el := leavesOf(u.Elem())
			if len(el) != 1 {
				panic(engineErr("array of composite element unsupported: %s", t))
			}
			add(prefix, "", arrSort(SInt, el[0].sort))
		case *types.Tuple:
			for i := 0; i < u.Len(); i++ {
				p := prefix
				if p != "" {
					p += "."
				}
				rec(u.At(i).Type(), p+fmt.Sprint(i))
			}
		default:
			panic(engineErr("unsupported type %s", t))
		}
	}
	rec(t, "")
	return out
}

// flatten turns a value into its leaf terms (same order as leavesOf(typ)).
func (x *Exec) flatten(v Value) []Term {
	switch v := v.(type) {
	case Scalar:
		return []Term{v.T}
	case PtrV:
		return []Term{x.ptrScalar(v)}
	case SliceV:
		return []Term{v.Arr, v.Off, v.Len, v.Cap}
	case IfaceV:
		return []Term{v.Tag, v.Val}
	case FuncV:
		return []Term{v.ID}
	case StructV:
		var out []Term
		for _, f := range v.Fields {
			out = append(out, x.flatten(f)...)
		}
		return out
	case TupleV:
		var out []Term
		for _, f := range v.Elems {
			out = append(out, x.flatten(f)...)
		}
		return out
	}
	panic(engineErr("flatten %T", v))
}

func (x *Exec) ptrScalar(p PtrV) Term {
	if p.Elem {
		x.sym.declareFun("elemaddr", []Sort{SInt, SInt}, SInt)
		b := mk(SInt, "elemaddr", p.Base, p.Idx)
		if len(p.Path) == 0 {
			return b
		}
		return x.fieldAddr(b, p.Root, p.Path)
	}
	if len(p.Path) == 0 {
		return p.Base
	}
	return x.fieldAddr(p.Base, p.Root, p.Path)
}

// fieldAddr: address of a field as an injective function of (object, field): two field addresses are equal only
// for the same object and the same field (the injectivity facts are global axioms of the unit).
func (x *Exec) fieldAddr(base Term, root types.Type, path []int) Term {
	key := "fieldid|" + typeKey(root) + "|" + pathStr(path)
	id, ok := x.typeIDs[key]
	if !ok {
		id = len(x.typeIDs) + 1
		x.typeIDs[key] = id
	}
	if _, ok := x.sym.decl["fieldaddr"]; !ok {
		x.sym.declareFun("fieldaddr", []Sort{SInt, SInt}, SInt)
		x.sym.declareFun("fa_base", []Sort{SInt}, SInt)
		x.sym.declareFun("fa_field", []Sort{SInt}, SInt)
	}
	t := mk(SInt, "fieldaddr", base, intLit(int64(id)))
	// ground injectivity facts for this term (emitted with every query that mentions it)
	x.sym.ground[t.S] = "(assert (and (= (fa_base " + t.S + ") " + base.S + ") (= (fa_field " + t.S + ") " + fmt.Sprint(id) + ")))"
	return t
}

func pathStr(p []int) string {
	s := make([]string, len(p))
	for i, v := range p {
		s[i] = fmt.Sprint(v)
	}
	return strings.Join(s, ".")
}

// unflatten builds a value of type t from leaf terms; returns the remaining terms.
func (x *Exec) unflatten(t types.Type, ts []Term) (Value, []Term) {
	switch u := t.Underlying().(type) {
	case *types.Basic:
		return Scalar{ts[0], t}, ts[1:]
	case *types.Map, *types.Chan:
		return Scalar{ts[0], t}, ts[1:]
	case *types.Pointer:
		return PtrV{Base: ts[0], Root: u.Elem(), Typ: t}, ts[1:]
	case *types.Signature:
		if fv, ok := x.closures[ts[0].S]; ok {
			return fv, ts[1:]
		}
		return FuncV{ID: ts[0], Typ: t}, ts[1:]
	case *types.Slice:
		return SliceV{ts[0], ts[1], ts[2], ts[3], t}, ts[4:]
	case *types.Interface:
		return IfaceV{ts[0], ts[1], t}, ts[2:]
	case *types.Struct:
		sv := StructV{Typ: t}
		for i := 0; i < u.NumFields(); i++ {
			var f Value
			f, ts = x.unflatten(u.Field(i).Type(), ts)
			sv.Fields = append(sv.Fields, f)
		}
		return sv, ts
	case *types.Array:
		return Scalar{ts[0], t}, ts[1:]
	case *types.Tuple:
		tv := TupleV{}
		for i := 0; i < u.Len(); i++ {
			var f Value
			f, ts = x.unflatten(u.At(i).Type(), ts)
			tv.Elems = append(tv.Elems, f)
		}
		return tv, ts
	}
	panic(engineErr("unflatten %s", t))
}

// zeroValue of a Go type.
func (x *Exec) zeroValue(t types.Type) Value {
	ls := leavesOf(t)
	ts := make([]Term, len(ls))
	for i, l := range ls {
		ts[i] = zeroOfSort(l.sort)
	}
	v, _ := x.unflatten(t, ts)
	return v
}

// freshValue creates an unconstrained value of type t (with type-range assumptions returned).
func (x *Exec) freshValue(st *State, prefix string, t types.Type) Value {
	ls := leavesOf(t)
	ts := make([]Term, len(ls))
	for i, l := range ls {
		n := prefix
		if l.path != "" {
			n += "." + l.path
		}
		ts[i] = x.sym.fresh(n, l.sort)
	}
	v, _ := x.unflatten(t, ts)
	x.assumeWellTyped(st, v)
	return v
}

// namedValue is freshValue with deterministic names (for parameters).
func (x *Exec) namedValue(st *State, name string, t types.Type) Value {
	ls := leavesOf(t)
	ts := make([]Term, len(ls))
	for i, l := range ls {
		n := name
		if l.path != "" {
			n += "." + l.path
		}
		ts[i] = x.sym.declareConst(sanitize(n), l.sort)
	}
	v, _ := x.unflatten(t, ts)
	x.assumeWellTyped(st, v)
	return v
}

func intRange(b *types.Basic) (lo, hi string, ok bool) {
	switch b.Kind() {
	case types.Int, types.Int64:
		return "(- 9223372036854775808)", "9223372036854775807", true
	case types.Int32:
		return "(- 2147483648)", "2147483647", true
	case types.Int16:
		return "(- 32768)", "32767", true
	case types.Int8:
		return "(- 128)", "127", true
	case types.Uint, types.Uint64, types.Uintptr:
		return "0", "18446744073709551615", true
	case types.Uint32:
		return "0", "4294967295", true
	case types.Uint16:
		return "0", "65535", true
	case types.Uint8:
		return "0", "255", true
	}
	return "", "", false
}

// assumeWellTyped adds the range / shape assumptions that every Go value of its type satisfies.
func (x *Exec) assumeWellTyped(st *State, v Value) {
	switch v := v.(type) {
	case Scalar:
		if isLiteral(v.T.S) {
			return
		}
		switch u := v.Typ.Underlying().(type) {
		case *types.Basic:
			if lo, hi, ok := intRange(u); ok {
				st.assume(Term{"(and (<= " + lo + " " + v.T.S + ") (<= " + v.T.S + " " + hi + "))", SBool})
			}
			if u.Info()&types.IsString != 0 {
				st.assume(Term{"(>= (strlen " + v.T.S + ") 0)", SBool})
			}
		case *types.Map, *types.Chan:
			st.assume(x.refBound(st, v.T))
		}
	case PtrV:
		if len(v.Path) == 0 && !isLiteral(v.Base.S) {
			st.assume(x.refBound(st, v.Base))
		}
	case SliceV:
		if isLiteral(v.Len.S) && isLiteral(v.Cap.S) {
			return
		}
		st.assume(Term{fmt.Sprintf("(and (<= 0 %s) (<= 0 %s) (<= %s %s) (<= %s 9223372036854775807) (<= 0 %s) (=> (= %s 0) (= %s 0)))", v.Off.S, v.Len.S, v.Len.S, v.Cap.S, v.Cap.S, v.Arr.S, v.Arr.S, v.Cap.S), SBool})
		st.assume(x.refBound(st, v.Arr))
	case IfaceV:
		if isLiteral(v.Tag.S) {
			return
		}
		st.assume(Term{fmt.Sprintf("(and (>= %s 0) (=> (= %s 0) (= %s 0)))", v.Tag.S, v.Tag.S, v.Val.S), SBool})
		// a payload that is a reference denotes an object that already exists
		st.assume(x.refBound(st, v.Val))
	case StructV:
		for _, f := range v.Fields {
			x.assumeWellTyped(st, f)
		}
	case TupleV:
		for _, f := range v.Elems {
			x.assumeWellTyped(st, f)
		}
	case FuncV:
	}
}

func isLiteral(s string) bool {
	if s == "" {
		return false
	}
	c := s[0]
	return c >= '0' && c <= '9' || strings.HasPrefix(s, "(- ") && len(s) > 3 && s[3] >= '0' && s[3] <= '9' || s == "true" || s == "false"
}

// refBound: every reference value is nil (0), a global (negative), an initially allocated object
// (1..ALLOC0) or one of the objects allocated on this path so far.
func (x *Exec) refBound(st *State, t Term) Term {
	if readsInitialHeap(t.S) {
		// a reference held by the heap as it was at function entry denotes an object that existed then:
		// it cannot be one of the objects allocated on this path
		return Term{fmt.Sprintf("(<= %s ALLOC0)", t.S), SBool}
	}
	return Term{fmt.Sprintf("(<= %s (+ ALLOC0 %d))", t.S, st.allocN), SBool}
}

// readsInitialHeap: the term is (select H0_… a) or (select (select H0_… a) k): a read of an entry-state array.
func readsInitialHeap(s string) bool {
	for strings.HasPrefix(s, "(select ") {
		s = s[len("(select "):]
		if strings.HasPrefix(s, "H0_") {
			return true
		}
	}
	return false
}

func isNilable(t types.Type) bool {
	switch t.Underlying().(type) {
	case *types.Pointer, *types.Map, *types.Chan, *types.Signature, *types.Slice, *types.Interface:
		return true
	}
	return false
}

// ---- heap ----

func heapKeyField(root types.Type, leafPath string) string {
	return "F|" + typeKey(root) + "|" + leafPath
}
func heapKeyElem(elem types.Type, leafPath string) string {
	return "E|" + typeKey(elem) + "|" + leafPath
}
func heapKeyMapDom(m *types.Map) string { return "MD|" + typeKey(m) }
func heapKeyMapVal(m *types.Map, leafPath string) string {
	return "MV|" + typeKey(m) + "|" + leafPath
}

// subLeaves returns the leaves of root type `root` restricted to field path `path`,
// with the full leaf paths, and the Go type found at that path.
func subLeaves(root types.Type, path []int) ([]leaf, types.Type) {
	t := root
	prefix := ""
	for _, i := range path {
		st, ok := t.Underlying().(*types.Struct)
		if !ok {
			panic(engineErr("field path into non-struct %s", t))
		}
		if prefix != "" {
			prefix += "."
		}
		prefix += fmt.Sprint(i)
		t = st.Field(i).Type()
	}
	ls := leavesOf(t)
	out := make([]leaf, len(ls))
	for i, l := range ls {
		p := prefix
		if l.path != "" {
			if p != "" {
				p += "."
			}
			p += l.path
		}
		out[i] = leaf{p, l.sort}
	}
	return out, t
}
