package main

// Bounded stand-ins: Go tests kept under /verif/bounded/<id>/ that run the REAL code of /repo (injected with
// go test -overlay) against the property's own oracle within a stated bound. They are never counted as proved;
// their result is reported under coverage.bounded of the evidence file.

import (
	"encoding/json"
	"fmt"
	"os"
	"path/filepath"
	"strings"
)

type boundedSpec struct {
	Tests []struct {
		Dir  string `json:"dir"`
		File string `json:"file"`
		Run  string `json:"run"`
		What string `json:"what"`
		Mod  string `json:"mod,omitempty"`
	} `json:"tests"`
}

// runBounded returns the list of summaries, and a failure description ("" when all passed).
func runBounded(verif, repo, prop, tier, outDir string) ([]map[string]interface{}, string, string) {
	dir := filepath.Join(verif, "bounded", prop)
	b, err := os.ReadFile(filepath.Join(dir, "bounded.json"))
	if err != nil {
		return nil, "", ""
	}
	var spec boundedSpec
	if err := json.Unmarshal(b, &spec); err != nil {
		return nil, "bounded.json: " + err.Error(), ""
	}
	var out []map[string]interface{}
	for _, t := range spec.Tests {
		os.Setenv("VERIF_TIER", tier)
		var failed bool
		var log string
		if t.Mod != "" {
			failed, log = runScratchModuleTest(verif, repo, prop, t.Dir, filepath.Join(dir, t.File), t.Run, t.Mod)
		} else {
			failed, log = runOverlayTest(repo, t.Dir, filepath.Join(dir, t.File), t.Run)
		}
		sum := map[string]interface{}{"what": t.What, "package": t.Dir, "test": t.File, "status": "passed", "label": "bounded (not a proof)"}
		for _, l := range strings.Split(log, "\n") {
			if strings.HasPrefix(l, "BOUNDED ") {
				var m map[string]interface{}
				if json.Unmarshal([]byte(strings.TrimPrefix(l, "BOUNDED ")), &m) == nil {
					for k, v := range m {
						sum[k] = v
					}
				}
			}
		}
		ran := strings.Contains(log, "BOUNDED ")
		if failed || !ran {
			sum["status"] = "failed"
			rp := filepath.Join(outDir, "bounded_"+sanitizeFile(t.File)+".replay")
			os.WriteFile(rp, []byte(fmt.Sprintf("property: %s\nbounded stand-in: %s (%s)\npackage: ./%s\n---- output ----\n%s\n", prop, t.What, t.File, t.Dir, log)), 0o644)
			out = append(out, sum)
			if failed {
				return out, "bounded stand-in failed on the real code: " + t.What, rp
			}
			return out, "bounded stand-in did not run: " + t.What, rp
		}
		out = append(out, sum)
	}
	return out, "", ""
}
