package main

import (
	"fmt"
	"go/types"
	"strings"
)

// lemmaObligation: a pure lemma `forall params. requires ==> ensures`, proved by the solvers.
func (x *Exec) lemmaObligation(l *Lemma) (o *Obligation, err error) {
	defer func() {
		if r := recover(); r != nil {
			if ee, ok := r.(engineError); ok {
				err = fmt.Errorf("lemma %s: %s", l.Name, ee.msg)
				return
			}
			panic(r)
		}
	}()
	st := newState()
	sc := &specCtx{x: x, st: st, vars: map[string]Value{}, heap: st.heap, lets: map[string]Value{}}
	for _, p := range l.Params {
		var gt types.Type = types.Typ[types.Int]
		switch p.Sort {
		case SBool:
			gt = boolT
		case SReal:
			gt = types.Typ[types.Float64]
		case SStr:
			gt = types.Typ[types.String]
		default:
			if strings.HasPrefix(string(p.Sort), "(Array") {
				gt = nil
			}
		}
		sc.vars[p.Name] = Scalar{x.sym.declareConst("l_"+p.Name, p.Sort), gt}
	}
	for _, r := range l.Requires {
		st.assume(x.evalBool(sc, r.Expr))
	}
	var goals []Term
	var texts []string
	for _, e := range l.Ensures {
		goals = append(goals, x.evalBool(sc, e.Expr))
		texts = append(texts, e.Text)
	}
	o = &Obligation{Name: "lemma/" + l.Name, Kind: "lemma", Text: strings.Join(texts, " && "), Src: l.Src, Counts: true}
	o.Instances = []OblInstance{{PC: st.pc, Goal: and(goals...)}}
	x.lemmaName = l.Name
	return o, nil
}
