package main

// Verification of the Redis Lua scripts (C08). The script text is the value of a Go string constant of the
// package (taken from go/types on every run, nothing is copied by hand). A small Lua subset is parsed and
// executed symbolically over an abstract key -> (exists, value, ttl) store; `lua` contract blocks state
// postconditions over it. Constructs outside the subset abort the check (reported as undecided).

import (
	"fmt"
	"go/constant"
	"go/types"
	"strconv"
	"strings"
)

// ---------- lexer ----------

type luaTok struct {
	kind string // num, str, name, op, eof
	text string
}

func luaLex(src string) ([]luaTok, error) {
	var toks []luaTok
	i := 0
	for i < len(src) {
		c := src[i]
		switch {
		case c == ' ' || c == '\t' || c == '\n' || c == '\r':
			i++
		case c == '-' && i+1 < len(src) && src[i+1] == '-':
			for i < len(src) && src[i] != '\n' {
				i++
			}
		case c >= '0' && c <= '9':
			j := i
			for j < len(src) && (src[j] >= '0' && src[j] <= '9' || src[j] == '.') {
				j++
			}
			toks = append(toks, luaTok{"num", src[i:j]})
			i = j
		case c == '"' || c == '\'':
			j := i + 1
			for j < len(src) && src[j] != c {
				j++
			}
			if j >= len(src) {
				return nil, fmt.Errorf("unterminated string")
			}
			toks = append(toks, luaTok{"str", src[i+1 : j]})
			i = j + 1
		case c == '_' || c >= 'a' && c <= 'z' || c >= 'A' && c <= 'Z':
			j := i
			for j < len(src) && (src[j] == '_' || src[j] == '.' || src[j] >= 'a' && src[j] <= 'z' || src[j] >= 'A' && src[j] <= 'Z' || src[j] >= '0' && src[j] <= '9') {
				j++
			}
			toks = append(toks, luaTok{"name", src[i:j]})
			i = j
		default:
			for _, op := range []string{"==", "~=", "<=", ">=", "..", "<", ">", "=", "+", "-", "*", "/", "(", ")", "[", "]", ",", "%"} {
				if strings.HasPrefix(src[i:], op) {
					toks = append(toks, luaTok{"op", op})
					i += len(op)
					goto next
				}
			}
			return nil, fmt.Errorf("unexpected character %q", c)
		next:
		}
	}
	toks = append(toks, luaTok{"eof", ""})
	return toks, nil
}

// ---------- AST ----------

type luaExpr struct {
	op   string // num, str, nil, true, false, name, index, call, bin, not, neg
	text string
	args []*luaExpr
}

type luaStmt struct {
	kind  string // local, assign, if, return, call
	name  string
	expr  *luaExpr
	conds []*luaExpr   // if / elseif conditions
	blocks [][]*luaStmt // bodies; one more than conds when there is an else
}

type luaParser struct {
	toks []luaTok
	pos  int
}

func (p *luaParser) peek() luaTok { return p.toks[p.pos] }
func (p *luaParser) next() luaTok  { t := p.toks[p.pos]; p.pos++; return t }
func (p *luaParser) accept(kind, text string) bool {
	if t := p.peek(); t.kind == kind && t.text == text {
		p.pos++
		return true
	}
	return false
}
func (p *luaParser) expect(kind, text string) error {
	if !p.accept(kind, text) {
		return fmt.Errorf("lua: expected %q, found %q", text, p.peek().text)
	}
	return nil
}

func (p *luaParser) block(terms ...string) ([]*luaStmt, error) {
	var out []*luaStmt
	for {
		t := p.peek()
		if t.kind == "eof" {
			return out, nil
		}
		for _, term := range terms {
			if t.kind == "name" && t.text == term {
				return out, nil
			}
		}
		s, err := p.stmt()
		if err != nil {
			return nil, err
		}
		out = append(out, s)
	}
}

func (p *luaParser) stmt() (*luaStmt, error) {
	t := p.peek()
	if t.kind != "name" {
		return nil, fmt.Errorf("lua: unexpected token %q", t.text)
	}
	switch t.text {
	case "local":
		p.next()
		n := p.next()
		if n.kind != "name" {
			return nil, fmt.Errorf("lua: local needs a name")
		}
		if err := p.expect("op", "="); err != nil {
			return nil, err
		}
		e, err := p.expr(0)
		if err != nil {
			return nil, err
		}
		return &luaStmt{kind: "local", name: n.text, expr: e}, nil
	case "return":
		p.next()
		e, err := p.expr(0)
		if err != nil {
			return nil, err
		}
		return &luaStmt{kind: "return", expr: e}, nil
	case "if":
		p.next()
		s := &luaStmt{kind: "if"}
		for {
			c, err := p.expr(0)
			if err != nil {
				return nil, err
			}
			if !p.accept("name", "then") {
				return nil, fmt.Errorf("lua: expected then")
			}
			b, err := p.block("elseif", "else", "end")
			if err != nil {
				return nil, err
			}
			s.conds = append(s.conds, c)
			s.blocks = append(s.blocks, b)
			if p.accept("name", "elseif") {
				continue
			}
			if p.accept("name", "else") {
				b, err := p.block("end")
				if err != nil {
					return nil, err
				}
				s.blocks = append(s.blocks, b)
			}
			if !p.accept("name", "end") {
				return nil, fmt.Errorf("lua: expected end")
			}
			return s, nil
		}
	case "for", "while", "repeat", "function", "goto", "do":
		return nil, fmt.Errorf("lua: construct %q is outside the verified subset", t.text)
	}
	// assignment or call statement
	e, err := p.expr(0)
	if err != nil {
		return nil, err
	}
	if e.op == "name" && p.accept("op", "=") {
		v, err := p.expr(0)
		if err != nil {
			return nil, err
		}
		return &luaStmt{kind: "assign", name: e.text, expr: v}, nil
	}
	if e.op == "call" {
		return &luaStmt{kind: "call", expr: e}, nil
	}
	return nil, fmt.Errorf("lua: statement not understood near %q", t.text)
}

var luaPrec = map[string]int{"or": 1, "and": 2, "<": 3, ">": 3, "<=": 3, ">=": 3, "==": 3, "~=": 3, "+": 5, "-": 5, "*": 6, "/": 6}

func (p *luaParser) expr(min int) (*luaExpr, error) {
	lhs, err := p.unary()
	if err != nil {
		return nil, err
	}
	for {
		t := p.peek()
		op := t.text
		pr, ok := luaPrec[op]
		if !ok || (t.kind != "op" && !(t.kind == "name" && (op == "and" || op == "or"))) || pr < min {
			return lhs, nil
		}
		p.next()
		rhs, err := p.expr(pr + 1)
		if err != nil {
			return nil, err
		}
		lhs = &luaExpr{op: "bin", text: op, args: []*luaExpr{lhs, rhs}}
	}
}

func (p *luaParser) unary() (*luaExpr, error) {
	if p.accept("name", "not") {
		e, err := p.unary()
		if err != nil {
			return nil, err
		}
		return &luaExpr{op: "not", args: []*luaExpr{e}}, nil
	}
	if p.accept("op", "-") {
		e, err := p.unary()
		if err != nil {
			return nil, err
		}
		return &luaExpr{op: "neg", args: []*luaExpr{e}}, nil
	}
	return p.primary()
}

func (p *luaParser) primary() (*luaExpr, error) {
	t := p.next()
	var e *luaExpr
	switch t.kind {
	case "num":
		e = &luaExpr{op: "num", text: t.text}
	case "str":
		e = &luaExpr{op: "str", text: t.text}
	case "name":
		switch t.text {
		case "nil", "true", "false":
			e = &luaExpr{op: t.text}
		default:
			e = &luaExpr{op: "name", text: t.text}
		}
	case "op":
		if t.text == "(" {
			in, err := p.expr(0)
			if err != nil {
				return nil, err
			}
			if err := p.expect("op", ")"); err != nil {
				return nil, err
			}
			e = in
		}
	}
	if e == nil {
		return nil, fmt.Errorf("lua: unexpected token %q", t.text)
	}
	for {
		if p.accept("op", "[") {
			idx, err := p.expr(0)
			if err != nil {
				return nil, err
			}
			if err := p.expect("op", "]"); err != nil {
				return nil, err
			}
			e = &luaExpr{op: "index", args: []*luaExpr{e, idx}}
			continue
		}
		if p.accept("op", "(") {
			call := &luaExpr{op: "call", args: []*luaExpr{e}}
			if !p.accept("op", ")") {
				for {
					a, err := p.expr(0)
					if err != nil {
						return nil, err
					}
					call.args = append(call.args, a)
					if p.accept("op", ",") {
						continue
					}
					if err := p.expect("op", ")"); err != nil {
						return nil, err
					}
					break
				}
			}
			e = call
			continue
		}
		return e, nil
	}
}

// ---------- symbolic execution ----------

// luaVal: a Lua value. kind: "num" (num term; isNil says when it is nil instead), "bool", "str" (key/arg identity)
type luaVal struct {
	kind  string
	num   Term // Real
	b     Term // Bool
	isNil Term // Bool: value is nil (only for kind num)
	str   string
}

type luaKeyState struct {
	exists, val, ttl Term
}

type luaState struct {
	pc     []Term
	vars   map[string]luaVal
	store  map[string]*luaKeyState // by key name K1, K2
	ret    *luaVal
	cmds   []string
}

func (s *luaState) clone() *luaState {
	n := &luaState{pc: append([]Term(nil), s.pc...), vars: map[string]luaVal{}, store: map[string]*luaKeyState{}, cmds: append([]string(nil), s.cmds...)}
	for k, v := range s.vars {
		n.vars[k] = v
	}
	for k, v := range s.store {
		c := *v
		n.store[k] = &c
	}
	return n
}

type luaExec struct {
	sym   *Symbols
	paths []*luaState
	depth int
}

func realLit(s string) Term {
	if !strings.Contains(s, ".") {
		s += ".0"
	}
	return Term{s, SReal}
}

func (lx *luaExec) key(st *luaState, name string) *luaKeyState {
	if k, ok := st.store[name]; ok {
		return k
	}
	k := &luaKeyState{
		exists: lx.sym.declareConst("exists0_"+name, SBool),
		val:    lx.sym.declareConst("val0_"+name, SReal),
		ttl:    lx.sym.declareConst("ttl0_"+name, SReal),
	}
	st.store[name] = k
	return k
}

func (lx *luaExec) eval(st *luaState, e *luaExpr) (luaVal, error) {
	switch e.op {
	case "num":
		return luaVal{kind: "num", num: realLit(e.text), isNil: tFalse}, nil
	case "str":
		return luaVal{kind: "str", str: e.text}, nil
	case "nil":
		return luaVal{kind: "num", num: Term{"0.0", SReal}, isNil: tTrue}, nil
	case "true", "false":
		return luaVal{kind: "bool", b: boolLit(e.op == "true")}, nil
	case "name":
		v, ok := st.vars[e.text]
		if !ok {
			return luaVal{}, fmt.Errorf("lua: unknown variable %s", e.text)
		}
		return v, nil
	case "index":
		base := e.args[0]
		idx := e.args[1]
		if base.op == "name" && (base.text == "ARGV" || base.text == "KEYS") && idx.op == "num" {
			if base.text == "KEYS" {
				return luaVal{kind: "str", str: "K" + idx.text}, nil
			}
			return luaVal{kind: "str", str: "ARGV" + idx.text}, nil
		}
		return luaVal{}, fmt.Errorf("lua: indexing outside ARGV/KEYS")
	case "not":
		v, err := lx.eval(st, e.args[0])
		if err != nil {
			return luaVal{}, err
		}
		return luaVal{kind: "bool", b: not(lx.truthy(v))}, nil
	case "neg":
		v, err := lx.eval(st, e.args[0])
		if err != nil {
			return luaVal{}, err
		}
		return luaVal{kind: "num", num: mk(SReal, "-", v.num), isNil: tFalse}, nil
	case "bin":
		a, err := lx.eval(st, e.args[0])
		if err != nil {
			return luaVal{}, err
		}
		b, err := lx.eval(st, e.args[1])
		if err != nil {
			return luaVal{}, err
		}
		switch e.text {
		case "+", "-", "*", "/":
			return luaVal{kind: "num", num: mk(SReal, e.text, a.num, b.num), isNil: tFalse}, nil
		case "<", "<=", ">", ">=":
			return luaVal{kind: "bool", b: mk(SBool, e.text, a.num, b.num)}, nil
		case "==", "~=":
			var t Term
			if a.kind == "num" && b.kind == "num" {
				t = or(and(a.isNil, b.isNil), and(not(a.isNil), not(b.isNil), eq(a.num, b.num)))
			} else if a.kind == "bool" && b.kind == "bool" {
				t = eq(a.b, b.b)
			} else {
				return luaVal{}, fmt.Errorf("lua: comparison of %s and %s", a.kind, b.kind)
			}
			if e.text == "~=" {
				t = not(t)
			}
			return luaVal{kind: "bool", b: t}, nil
		case "and":
			return luaVal{kind: "bool", b: and(lx.truthy(a), lx.truthy(b))}, nil
		case "or":
			return luaVal{kind: "bool", b: or(lx.truthy(a), lx.truthy(b))}, nil
		}
	case "call":
		fn := e.args[0]
		if fn.op != "name" {
			return luaVal{}, fmt.Errorf("lua: call of non-name")
		}
		var args []luaVal
		for _, a := range e.args[1:] {
			v, err := lx.eval(st, a)
			if err != nil {
				return luaVal{}, err
			}
			args = append(args, v)
		}
		switch fn.text {
		case "tonumber":
			a := args[0]
			if a.kind == "str" && strings.HasPrefix(a.str, "ARGV") {
				return luaVal{kind: "num", num: lx.sym.declareConst(a.str, SReal), isNil: tFalse}, nil
			}
			if a.kind == "num" {
				return a, nil
			}
			return luaVal{}, fmt.Errorf("lua: tonumber of %s", a.kind)
		case "math.floor":
			return luaVal{kind: "num", num: mk(SReal, "rfloor", args[0].num), isNil: tFalse}, nil
		case "math.max":
			return luaVal{kind: "num", num: mk(SReal, "rmax", args[0].num, args[1].num), isNil: tFalse}, nil
		case "math.min":
			return luaVal{kind: "num", num: mk(SReal, "rmin", args[0].num, args[1].num), isNil: tFalse}, nil
		case "redis.call":
			return lx.redisCall(st, args)
		}
		return luaVal{}, fmt.Errorf("lua: function %s is outside the verified subset", fn.text)
	}
	return luaVal{}, fmt.Errorf("lua: expression %s not understood", e.op)
}

func (lx *luaExec) truthy(v luaVal) Term {
	switch v.kind {
	case "bool":
		return v.b
	case "num":
		return not(v.isNil)
	}
	return tTrue
}

func (lx *luaExec) redisCall(st *luaState, args []luaVal) (luaVal, error) {
	if len(args) < 2 || args[0].kind != "str" || args[1].kind != "str" || !strings.HasPrefix(args[1].str, "K") {
		return luaVal{}, fmt.Errorf("lua: redis.call needs a literal command and a KEYS[i] key")
	}
	cmd := strings.ToUpper(args[0].str)
	k := lx.key(st, args[1].str)
	st.cmds = append(st.cmds, cmd+" "+args[1].str)
	num := func(v luaVal) Term {
		if v.kind == "str" && strings.HasPrefix(v.str, "ARGV") {
			return lx.sym.declareConst(v.str, SReal)
		}
		return v.num
	}
	switch cmd {
	case "GET":
		return luaVal{kind: "num", num: k.val, isNil: not(k.exists)}, nil
	case "INCRBY":
		nv := mk(SReal, "+", ite(k.exists, k.val, Term{"0.0", SReal}), num(args[2]))
		k.ttl = ite(k.exists, k.ttl, Term{"(- 1.0)", SReal}) // a key created by INCRBY has no expiry
		k.val = nv
		k.exists = tTrue
		return luaVal{kind: "num", num: nv, isNil: tFalse}, nil
	case "EXPIRE":
		k.ttl = ite(k.exists, num(args[2]), k.ttl)
		return luaVal{kind: "num", num: Term{"1.0", SReal}, isNil: tFalse}, nil
	case "SETEX":
		k.exists = tTrue
		k.ttl = num(args[2])
		k.val = num(args[3])
		return luaVal{kind: "bool", b: tTrue}, nil
	}
	return luaVal{}, fmt.Errorf("lua: redis command %s is outside the verified subset", cmd)
}

func (lx *luaExec) run(st *luaState, stmts []*luaStmt) error {
	for i, s := range stmts {
		if st.ret != nil {
			return nil
		}
		switch s.kind {
		case "local", "assign":
			v, err := lx.eval(st, s.expr)
			if err != nil {
				return err
			}
			st.vars[s.name] = v
		case "call":
			if _, err := lx.eval(st, s.expr); err != nil {
				return err
			}
		case "return":
			v, err := lx.eval(st, s.expr)
			if err != nil {
				return err
			}
			st.ret = &v
			return nil
		case "if":
			if lx.depth > 0 {
				return fmt.Errorf("lua: nested if is outside the verified subset")
			}
			rest := stmts[i+1:]
			// fork one state per branch
			var neg []Term
			for bi, c := range s.conds {
				cv, err := lx.eval(st, c)
				if err != nil {
					return err
				}
				ct := lx.truthy(cv)
				br := st.clone()
				br.pc = append(br.pc, neg...)
				br.pc = append(br.pc, ct)
				lx.depth++
				err = lx.run(br, s.blocks[bi])
				lx.depth--
				if err != nil {
					return err
				}
				if err := lx.run(br, rest); err != nil {
					return err
				}
				lx.finish(br)
				neg = append(neg, not(ct))
			}
			// else / fallthrough
			st.pc = append(st.pc, neg...)
			if len(s.blocks) > len(s.conds) {
				lx.depth++
				err := lx.run(st, s.blocks[len(s.conds)])
				lx.depth--
				if err != nil {
					return err
				}
			}
			return lx.run(st, rest)
		}
	}
	return nil
}

func (lx *luaExec) finish(st *luaState) {
	if st.ret == nil {
		v := luaVal{kind: "num", num: Term{"0.0", SReal}, isNil: tTrue}
		st.ret = &v
	}
	lx.paths = append(lx.paths, st)
}

// ---------- contracts on scripts ----------

type LuaContract struct {
	Pkg      string
	Const    string
	Props    []string
	Requires []Clause
	Ensures  []Clause
	Src      string
}

// luaObligations builds the proof obligations of one script contract.
func luaObligations(db *ContractDB, lc *LuaContract, pkg *types.Package) (xx *Exec, oo []*Obligation, err error) {
	defer func() {
		if r := recover(); r != nil {
			if ee, ok := r.(engineError); ok {
				err = fmt.Errorf("lua %s: %s", lc.Const, ee.msg)
				return
			}
			panic(r)
		}
	}()
	return luaObligations2(db, lc, pkg)
}

func luaObligations2(db *ContractDB, lc *LuaContract, pkg *types.Package) (*Exec, []*Obligation, error) {
	obj := pkg.Scope().Lookup(lc.Const)
	c, ok := obj.(*types.Const)
	if !ok || c.Val().Kind() != constant.String {
		return nil, nil, fmt.Errorf("lua %s: no string constant of that name in %s", lc.Const, pkg.Path())
	}
	src := constant.StringVal(c.Val())
	toks, err := luaLex(src)
	if err != nil {
		return nil, nil, fmt.Errorf("lua %s: %v", lc.Const, err)
	}
	p := &luaParser{toks: toks}
	prog, err := p.block()
	if err != nil {
		return nil, nil, fmt.Errorf("lua %s: %v", lc.Const, err)
	}
	if p.peek().kind != "eof" {
		return nil, nil, fmt.Errorf("lua %s: trailing tokens at %q", lc.Const, p.peek().text)
	}
	x := newExec(nil, nil, db)
	x.lemmaName = "lua " + lc.Const
	lx := &luaExec{sym: x.sym}
	st := &luaState{vars: map[string]luaVal{}, store: map[string]*luaKeyState{}}
	// make both keys known in the initial state so contracts can mention them
	lx.key(st, "K1")
	lx.key(st, "K2")
	if err := lx.run(st, prog); err != nil {
		return nil, nil, fmt.Errorf("lua %s: %v", lc.Const, err)
	}
	lx.finish(st)
	var obls []*Obligation
	cover := &Obligation{Name: "lua/" + lc.Const + "/requires-sat", Kind: "cover-any", Counts: true, Text: "some path of the script is reachable"}
	for _, path := range lx.paths {
		vars := map[string]Value{}
		realT := types.Typ[types.Float64]
		for _, kn := range []string{"K1", "K2"} {
			k0 := &luaKeyState{exists: Term{"exists0_" + kn, SBool}, val: Term{"val0_" + kn, SReal}, ttl: Term{"ttl0_" + kn, SReal}}
			k1 := path.store[kn]
			vars["exists0_"+kn] = Scalar{k0.exists, boolT}
			vars["val0_"+kn] = Scalar{k0.val, realT}
			vars["ttl0_"+kn] = Scalar{k0.ttl, realT}
			vars["exists1_"+kn] = Scalar{k1.exists, boolT}
			vars["val1_"+kn] = Scalar{k1.val, realT}
			vars["ttl1_"+kn] = Scalar{k1.ttl, realT}
		}
		for i := 1; i <= 6; i++ {
			n := "ARGV" + strconv.Itoa(i)
			vars[n] = Scalar{x.sym.declareConst(n, SReal), realT}
		}
		r := path.ret
		switch r.kind {
		case "bool":
			vars["result_true"] = Scalar{r.b, boolT}
			vars["result_nil"] = Scalar{tFalse, boolT}
			vars["result"] = Scalar{ite(r.b, Term{"1.0", SReal}, Term{"0.0", SReal}), realT}
		default:
			vars["result"] = Scalar{r.num, realT}
			vars["result_nil"] = Scalar{r.isNil, boolT}
			vars["result_true"] = Scalar{not(r.isNil), boolT}
		}
		vars["ncmds"] = Scalar{intLit(int64(len(path.cmds))), types.Typ[types.Int]}
		sst := newState()
		sc := &specCtx{x: x, st: sst, vars: vars, heap: sst.heap, lets: map[string]Value{}}
		pc := append([]Term(nil), path.pc...)
		for _, rq := range lc.Requires {
			pc = append(pc, x.evalBool(sc, rq.Expr))
		}
		cover.Instances = append(cover.Instances, OblInstance{PC: pc, Goal: tFalse})
		for i, en := range lc.Ensures {
			name := fmt.Sprintf("lua/%s/ensures#%d", lc.Const, i+1)
			if en.Label != "" {
				name = fmt.Sprintf("lua/%s/ensures[%s]", lc.Const, en.Label)
			}
			var o *Obligation
			for _, oo := range obls {
				if oo.Name == name {
					o = oo
				}
			}
			if o == nil {
				o = &Obligation{Name: name, Kind: "ensures", Text: en.Text, Src: en.Src, Counts: true}
				obls = append(obls, o)
			}
			o.Instances = append(o.Instances, OblInstance{PC: pc, Goal: x.evalBool(sc, en.Expr), Trail: path.cmds})
		}
	}
	obls = append(obls, cover)
	return x, obls, nil
}
