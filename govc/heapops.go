package main

// Slices, arrays, maps, builtins and intrinsics.

import (
	"fmt"
	"go/types"
	"strings"

	"golang.org/x/tools/go/ssa"
)

// IterV: map iterator with the ghost set of keys already visited.
type IterV struct {
	Map     Term
	MT      *types.Map
	Visited Term
	Str     bool
	Seq     int // creation order (the most recent iterator belongs to the innermost / current loop)
}

func (v IterV) GoType() types.Type { return nil }

func (x *Exec) elemLeaves(p PtrV) []leaf {
	ls, _ := subLeaves(p.Root, p.Path)
	return ls
}

func (x *Exec) loadElem(st *State, p PtrV) Value {
	ls, t := subLeaves(p.Root, p.Path)
	ts := make([]Term, len(ls))
	for i, l := range ls {
		h := x.heapArr(st, heapKeyElem(p.Root, l.path), arrSort(SInt, arrSort(SInt, l.sort)))
		ts[i] = sel(sel(h, p.Base), p.Idx)
	}
	v, _ := x.unflatten(t, ts)
	x.assumeLoaded(st, v)
	return v
}

func (x *Exec) storeElem(st *State, p PtrV, v Value) {
	ls, _ := subLeaves(p.Root, p.Path)
	ts := x.flatten(v)
	if len(ts) != len(ls) {
		panic(engineErr("storeElem: leaf mismatch"))
	}
	for i, l := range ls {
		key := heapKeyElem(p.Root, l.path)
		h := x.heapArr(st, key, arrSort(SInt, arrSort(SInt, l.sort)))
		x.setHeap(st, key, sto(h, p.Base, sto(sel(h, p.Base), p.Idx, ts[i])))
	}
}

func (x *Exec) allocArray(st *State, at *types.Array, ptrTyp types.Type) PtrV {
	ref := x.allocRef(st)
	for _, l := range leavesOf(at.Elem()) {
		key := heapKeyElem(at.Elem(), l.path)
		h := x.heapArr(st, key, arrSort(SInt, arrSort(SInt, l.sort)))
		x.setHeap(st, key, sto(h, ref, zeroOfSort(arrSort(SInt, l.sort))))
	}
	return PtrV{Base: ref, Root: at, Typ: ptrTyp}
}

func (x *Exec) indexAddr(st *State, fr *Frame, in *ssa.IndexAddr) {
	xv := x.val(st, fr, in.X)
	idx := x.val(st, fr, in.Index).(Scalar).T
	switch v := xv.(type) {
	case SliceV:
		elem := in.X.Type().Underlying().(*types.Slice).Elem()
		x.assumeOrCheck(st, "bounds", "slice index", and(mk(SBool, "<=", intLit(0), idx), mk(SBool, "<", idx, v.Len)))
		fr.regs[in] = PtrV{Base: v.Arr, Root: elem, Typ: in.Type(), Elem: true, Idx: addT(v.Off, idx)}
	case PtrV:
		if len(v.Path) > 0 {
			// a fixed array held in a field of an object: element pointer into that one leaf
			_, ft := subLeaves(v.Root, v.Path)
			if fat, isArr := ft.Underlying().(*types.Array); isArr && v.AIdx == nil {
				x.assumeOrCheck(st, "bounds", "array index", and(mk(SBool, "<=", intLit(0), idx), mk(SBool, "<", idx, intLit(fat.Len()))))
				q := v
				i := idx
				q.AIdx, q.AElem, q.Typ = &i, fat.Elem(), in.Type()
				fr.regs[in] = q
				return
			}
		}
		at, ok := v.Root.Underlying().(*types.Array)
		if !ok || len(v.Path) != 0 || v.Elem {
			panic(engineErr("IndexAddr on %s unsupported", in.X.Type()))
		}
		x.assumeOrCheck(st, "bounds", "array index", and(mk(SBool, "<=", intLit(0), idx), mk(SBool, "<", idx, intLit(at.Len()))))
		fr.regs[in] = PtrV{Base: v.Base, Root: at.Elem(), Typ: in.Type(), Elem: true, Idx: idx}
	default:
		panic(engineErr("IndexAddr on %T", xv))
	}
}

func addT(a, b Term) Term {
	if a.S == "0" {
		return b
	}
	if b.S == "0" {
		return a
	}
	return mk(SInt, "+", a, b)
}

func subT(a, b Term) Term {
	if b.S == "0" {
		return a
	}
	return mk(SInt, "-", a, b)
}

func (x *Exec) index(st *State, fr *Frame, in *ssa.Index) {
	xv := x.val(st, fr, in.X)
	idx := x.val(st, fr, in.Index).(Scalar).T
	s, ok := xv.(Scalar)
	if !ok {
		panic(engineErr("Index on %T", xv))
	}
	if s.T.Sort == SStr {
		x.sym.declareFun("strat", []Sort{SStr, SInt}, SInt)
		x.assumeOrCheck(st, "bounds", "string index", and(mk(SBool, "<=", intLit(0), idx), mk(SBool, "<", idx, mk(SInt, "strlen", s.T))))
		r := Scalar{mk(SInt, "strat", s.T, idx), in.Type()}
		x.assumeWellTyped(st, r)
		fr.regs[in] = r
		return
	}
	fr.regs[in] = Scalar{sel(s.T, idx), in.Type()}
}

func (x *Exec) sliceOp(st *State, fr *Frame, in *ssa.Slice) {
	xv := x.val(st, fr, in.X)
	opt := func(v ssa.Value, def Term) Term {
		if v == nil {
			return def
		}
		return x.val(st, fr, v).(Scalar).T
	}
	switch v := xv.(type) {
	case SliceV:
		lo := opt(in.Low, intLit(0))
		hi := opt(in.High, v.Len)
		mx := opt(in.Max, v.Cap)
		x.assumeOrCheck(st, "bounds", "slice bounds", and(mk(SBool, "<=", intLit(0), lo), mk(SBool, "<=", lo, hi), mk(SBool, "<=", hi, mx), mk(SBool, "<=", mx, v.Cap)))
		fr.regs[in] = SliceV{Arr: v.Arr, Off: addT(v.Off, lo), Len: subT(hi, lo), Cap: subT(mx, lo), Typ: in.Type()}
	case PtrV:
		at, ok := v.Root.Underlying().(*types.Array)
		if !ok {
			panic(engineErr("Slice of pointer to %s", v.Root))
		}
		n := intLit(at.Len())
		lo := opt(in.Low, intLit(0))
		hi := opt(in.High, n)
		mx := opt(in.Max, n)
		x.assumeOrCheck(st, "bounds", "slice bounds", and(mk(SBool, "<=", intLit(0), lo), mk(SBool, "<=", lo, hi), mk(SBool, "<=", hi, mx), mk(SBool, "<=", mx, n)))
		fr.regs[in] = SliceV{Arr: v.Base, Off: lo, Len: subT(hi, lo), Cap: subT(mx, lo), Typ: in.Type()}
	case Scalar:
		if v.T.Sort != SStr {
			panic(engineErr("Slice of %s", in.X.Type()))
		}
		ln := mk(SInt, "strlen", v.T)
		lo := opt(in.Low, intLit(0))
		hi := opt(in.High, ln)
		x.assumeOrCheck(st, "bounds", "string slice bounds", and(mk(SBool, "<=", intLit(0), lo), mk(SBool, "<=", lo, hi), mk(SBool, "<=", hi, ln)))
		x.sym.declareFun("strsub", []Sort{SStr, SInt, SInt}, SStr)
		r := mk(SStr, "strsub", v.T, lo, hi)
		st.assume(eq(mk(SInt, "strlen", r), subT(hi, lo)))
		// s[0:len(s)] == s
		st.assume(implies(and(eq(lo, intLit(0)), eq(hi, ln)), eq(r, v.T)))
		fr.regs[in] = Scalar{r, in.Type()}
	default:
		panic(engineErr("Slice on %T", xv))
	}
}

func (x *Exec) makeSlice(st *State, fr *Frame, in *ssa.MakeSlice) {
	ln := x.val(st, fr, in.Len).(Scalar).T
	cp := x.val(st, fr, in.Cap).(Scalar).T
	x.assumeOrCheck(st, "makeslice", "make: 0 <= len <= cap", and(mk(SBool, "<=", intLit(0), ln), mk(SBool, "<=", ln, cp)))
	elem := in.Type().Underlying().(*types.Slice).Elem()
	ref := x.allocRef(st)
	for _, l := range leavesOf(elem) {
		key := heapKeyElem(elem, l.path)
		h := x.heapArr(st, key, arrSort(SInt, arrSort(SInt, l.sort)))
		x.setHeap(st, key, sto(h, ref, zeroOfSort(arrSort(SInt, l.sort))))
	}
	fr.regs[in] = SliceV{Arr: ref, Off: intLit(0), Len: ln, Cap: cp, Typ: in.Type()}
}

// ---------- maps ----------

func (x *Exec) mapKeySort(mt *types.Map) Sort {
	ls := leavesOf(mt.Key())
	if len(ls) == 1 {
		return ls[0].sort
	}
	if _, ok := mt.Key().Underlying().(*types.Interface); ok {
		return SInt
	}
	if _, ok := mt.Key().Underlying().(*types.Struct); ok {
		return SInt // a struct key is the image of its leaves under an injective function (see keyTerm)
	}
	panic(engineErr("map key type %s unsupported", mt.Key()))
}

func (x *Exec) keyTerm(st *State, v Value) Term {
	switch v := v.(type) {
	case Scalar:
		return v.T
	case PtrV:
		return x.ptrScalar(v)
	case IfaceV:
		x.sym.declareFun("ifacekey", []Sort{SInt, SInt}, SInt)
		x.sym.declareFun("ifk_tag", []Sort{SInt}, SInt)
		x.sym.declareFun("ifk_val", []Sort{SInt}, SInt)
		k := mk(SInt, "ifacekey", v.Tag, v.Val)
		st.assume(and(eq(mk(SInt, "ifk_tag", k), v.Tag), eq(mk(SInt, "ifk_val", k), v.Val)))
		return k
	case StructV:
		// a struct used as a map key: one injective uninterpreted function per struct type over the flattened
		// leaves (two keys are equal iff all leaves are), the inverses making it injective for the solver
		ts := x.flatten(v)
		if len(ts) == 1 {
			return ts[0]
		}
		name := "skey_" + sanitize(types.TypeString(v.Typ, nil))
		sorts := make([]Sort, len(ts))
		for i, t := range ts {
			sorts[i] = t.Sort
		}
		x.sym.declareFun(name, sorts, SInt)
		k := mk(SInt, name, ts...)
		for i, t := range ts {
			inv := fmt.Sprintf("%s_%d", name, i)
			x.sym.declareFun(inv, []Sort{SInt}, t.Sort)
			st.assume(eq(mk(t.Sort, inv, k), t))
		}
		return k
	}
	panic(engineErr("map key %T unsupported", v))
}

func (x *Exec) makeMap(st *State, fr *Frame, in *ssa.MakeMap) {
	mt := in.Type().Underlying().(*types.Map)
	ref := x.allocRef(st)
	ks := x.mapKeySort(mt)
	key := heapKeyMapDom(mt)
	d := x.heapArr(st, key, arrSort(SInt, arrSort(ks, SBool)))
	x.setHeap(st, key, sto(d, ref, zeroOfSort(arrSort(ks, SBool))))
	fr.regs[in] = Scalar{ref, in.Type()}
}

func (x *Exec) mapDom(st *State, mt *types.Map, m Term) Term {
	ks := x.mapKeySort(mt)
	return sel(x.heapArr(st, heapKeyMapDom(mt), arrSort(SInt, arrSort(ks, SBool))), m)
}

func (x *Exec) mapGet(st *State, mt *types.Map, m, k Term) (Value, Term) {
	ks := x.mapKeySort(mt)
	ok := sel(x.mapDom(st, mt, m), k)
	ls := leavesOf(mt.Elem())
	ts := make([]Term, len(ls))
	for i, l := range ls {
		h := x.heapArr(st, heapKeyMapVal(mt, l.path), arrSort(SInt, arrSort(ks, l.sort)))
		ts[i] = ite(ok, sel(sel(h, m), k), zeroOfSort(l.sort))
	}
	v, _ := x.unflatten(mt.Elem(), ts)
	x.assumeLoaded(st, v)
	return v, ok
}

func (x *Exec) lookup(st *State, fr *Frame, in *ssa.Lookup) {
	xv := x.val(st, fr, in.X)
	mt, ok := in.X.Type().Underlying().(*types.Map)
	if !ok {
		// string index
		s := xv.(Scalar)
		idx := x.val(st, fr, in.Index).(Scalar).T
		x.sym.declareFun("strat", []Sort{SStr, SInt}, SInt)
		x.assumeOrCheck(st, "bounds", "string index", and(mk(SBool, "<=", intLit(0), idx), mk(SBool, "<", idx, mk(SInt, "strlen", s.T))))
		r := Scalar{mk(SInt, "strat", s.T, idx), in.Type()}
		x.assumeWellTyped(st, r)
		fr.regs[in] = r
		return
	}
	m := xv.(Scalar).T
	k := x.keyTerm(st, x.val(st, fr, in.Index))
	v, okT := x.mapGet(st, mt, m, k)
	if in.CommaOk {
		fr.regs[in] = TupleV{[]Value{v, Scalar{okT, types.Typ[types.Bool]}}}
	} else {
		fr.regs[in] = v
	}
}

func (x *Exec) mapSet(st *State, mt *types.Map, m, k Term, v Value) {
	ks := x.mapKeySort(mt)
	dk := heapKeyMapDom(mt)
	d := x.heapArr(st, dk, arrSort(SInt, arrSort(ks, SBool)))
	x.setHeap(st, dk, sto(d, m, sto(sel(d, m), k, tTrue)))
	ts := x.flatten(v)
	for i, l := range leavesOf(mt.Elem()) {
		key := heapKeyMapVal(mt, l.path)
		h := x.heapArr(st, key, arrSort(SInt, arrSort(ks, l.sort)))
		x.setHeap(st, key, sto(h, m, sto(sel(h, m), k, ts[i])))
	}
}

func (x *Exec) mapUpdate(st *State, fr *Frame, in *ssa.MapUpdate) {
	mt := in.Map.Type().Underlying().(*types.Map)
	m := x.val(st, fr, in.Map).(Scalar).T
	x.assumeOrCheck(st, "nilmap", "assignment to nil map", not(eq(m, intLit(0))))
	k := x.keyTerm(st, x.val(st, fr, in.Key))
	x.mapSet(st, mt, m, k, x.val(st, fr, in.Value))
}

func (x *Exec) mapDelete(st *State, mt *types.Map, m, k Term) {
	ks := x.mapKeySort(mt)
	dk := heapKeyMapDom(mt)
	d := x.heapArr(st, dk, arrSort(SInt, arrSort(ks, SBool)))
	x.setHeap(st, dk, sto(d, m, sto(sel(d, m), k, tFalse)))
}

func (x *Exec) rangeOp(st *State, fr *Frame, in *ssa.Range) {
	if b, isB := in.X.Type().Underlying().(*types.Basic); isB && b.Info()&types.IsString != 0 {
		// range over a string: the iterator is a byte position
		sv := x.val(st, fr, in.X).(Scalar).T
		x.sym.counter++
		fr.regs[in] = IterV{Str: true, Map: sv, Visited: intLit(0), Seq: x.sym.counter}
		return
	}
	mt, ok := in.X.Type().Underlying().(*types.Map)
	if !ok {
		panic(engineErr("range over %s unsupported", in.X.Type()))
	}
	m := x.val(st, fr, in.X).(Scalar).T
	ks := x.mapKeySort(mt)
	x.sym.counter++
	fr.regs[in] = IterV{Map: m, MT: mt, Visited: zeroOfSort(arrSort(ks, SBool)), Seq: x.sym.counter}
}

func (x *Exec) nextOp(st *State, fr *Frame, in *ssa.Next) []*State {
	it := fr.regs[in.Iter].(IterV)
	if it.Str {
		return x.nextRune(st, fr, in, it)
	}
	mt := it.MT
	ks := x.mapKeySort(mt)
	tup := in.Type().(*types.Tuple)
	// two outcomes: another key, or exhausted
	done := st.clone()
	dfr := done.top()
	// exhausted: every key of the map has been visited
	x.sym.counter++
	q := fmt.Sprintf("k!%d", x.sym.counter)
	dom := x.mapDom(done, mt, it.Map)
	done.assume(Term{fmt.Sprintf("(forall ((%s %s)) (=> (select %s %s) (select %s %s)))", q, ks, dom.S, q, it.Visited.S, q), SBool})
	zeroOrDummy := func(t types.Type) Value {
		if b, ok := t.(*types.Basic); ok && b.Kind() == types.Invalid {
			return Scalar{tFalse, t}
		}
		return x.zeroValue(t)
	}
	dfr.regs[in] = TupleV{[]Value{Scalar{tFalse, tup.At(0).Type()}, zeroOrDummy(tup.At(1).Type()), zeroOrDummy(tup.At(2).Type())}}
	done.trail = append(done.trail, fmt.Sprintf("%s.range-done", relName(fr.fn)))
	// next key
	kv := x.freshValue(st, "rangekey", mt.Key())
	k := x.keyTerm(st, kv)
	st.assume(and(sel(x.mapDom(st, mt, it.Map), k), not(sel(it.Visited, k))))
	v, _ := x.mapGet(st, mt, it.Map, k)
	nit := it
	nit.Visited = sto(it.Visited, k, tTrue)
	fr.regs[in.Iter] = nit
	var kOut, vOut Value = kv, v
	if _, isInv := tup.At(1).Type().(*types.Basic); isInv && tup.At(1).Type().(*types.Basic).Kind() == types.Invalid {
		kOut = Scalar{tFalse, tup.At(1).Type()}
	}
	if b, isB := tup.At(2).Type().(*types.Basic); isB && b.Kind() == types.Invalid {
		vOut = Scalar{tFalse, tup.At(2).Type()}
	}
	fr.regs[in] = TupleV{[]Value{Scalar{tTrue, tup.At(0).Type()}, kOut, vOut}}
	st.trail = append(st.trail, fmt.Sprintf("%s.range-next", relName(fr.fn)))
	return []*State{done}
}

// ---------- builtins ----------

func (x *Exec) builtin(st *State, fr *Frame, resInstr ssa.Instruction, b *ssa.Builtin, args []Value, com *ssa.CallCommon, isDefer bool) []*State {
	set := func(v Value) {
		if resInstr != nil && !isDefer {
			if rv, ok := resInstr.(ssa.Value); ok {
				fr.regs[rv] = v
			}
		}
	}
	resType := func() types.Type {
		if rv, ok := resInstr.(ssa.Value); ok {
			return rv.Type()
		}
		return nil
	}
	switch b.Name() {
	case "len":
		switch a := args[0].(type) {
		case SliceV:
			set(Scalar{a.Len, types.Typ[types.Int]})
		case Scalar:
			if a.T.Sort == SStr {
				set(Scalar{mk(SInt, "strlen", a.T), types.Typ[types.Int]})
			} else if mt, ok := a.Typ.Underlying().(*types.Map); ok {
				set(Scalar{x.mapLen(st, mt, a.T), types.Typ[types.Int]})
			} else {
				r := x.freshValue(st, "len", types.Typ[types.Int])
				st.assume(mk(SBool, ">=", r.(Scalar).T, intLit(0)))
				set(r)
			}
		default:
			panic(engineErr("len of %T", a))
		}
	case "cap":
		switch a := args[0].(type) {
		case SliceV:
			set(Scalar{a.Cap, types.Typ[types.Int]})
		default:
			arr := x.heapArr(st, "CHANCAP", arrSort(SInt, SInt))
			set(Scalar{sel(arr, a.(Scalar).T), types.Typ[types.Int]})
		}
	case "copy":
		// copy(dst, src): n = min(len(dst), len(src)) elements of src replace the first n of dst (both slices of the
		// same element type; a string source is not modelled), everything else keeps its value; the result is n
		dst, ok1 := args[0].(SliceV)
		src, ok2 := args[1].(SliceV)
		if !ok1 || !ok2 {
			panic(engineErr("builtin copy from a string unsupported"))
		}
		elem := dst.Typ.Underlying().(*types.Slice).Elem()
		n := x.sym.fresh("copied", SInt)
		st.assume(Term{fmt.Sprintf("(= %s (ite (<= %s %s) %s %s))", n.S, dst.Len.S, src.Len.S, dst.Len.S, src.Len.S), SBool})
		for _, l := range leavesOf(elem) {
			key := heapKeyElem(elem, l.path)
			h := x.heapArr(st, key, arrSort(SInt, arrSort(SInt, l.sort)))
			inner := sel(h, dst.Arr)
			from := sel(h, src.Arr)
			na := x.sym.fresh("copydst", arrSort(SInt, l.sort))
			x.sym.counter++
			q := fmt.Sprintf("j!%d", x.sym.counter)
			st.assume(Term{fmt.Sprintf("(forall ((%s Int)) (! (= (select %s %s) (ite (and (<= %s %s) (< %s (+ %s %s))) (select %s (+ %s (- %s %s))) (select %s %s))) :pattern ((select %s %s))))",
				q, na.S, q, dst.Off.S, q, q, dst.Off.S, n.S, from.S, src.Off.S, q, dst.Off.S, inner.S, q, na.S, q), SBool})
			x.setHeap(st, key, sto(h, dst.Arr, na))
		}
		if resInstr != nil {
			if v, ok := resInstr.(ssa.Value); ok {
				fr.regs[v] = Scalar{n, types.Typ[types.Int]}
			}
		}
	case "append":
		return x.appendOp(st, fr, resInstr, args, resType())
	case "delete":
		mt := com.Args[0].Type().Underlying().(*types.Map)
		x.mapDelete(st, mt, args[0].(Scalar).T, x.keyTerm(st, args[1]))
	case "recover":
		// valid only in a function called directly as a deferred call of a panicking frame
		var res Value = x.zeroValue(types.NewInterfaceType(nil, nil))
		if fr.isDefer && len(st.frames) >= 2 {
			parent := st.frames[len(st.frames)-2]
			if parent.panicking {
				res = parent.panicVal
				if _, ok := res.(IfaceV); !ok {
					res = x.makeIface(st, res, res.GoType(), types.NewInterfaceType(nil, nil))
				}
				if iv, ok := res.(IfaceV); ok && !x.panicNilPossible() {
					// go1.21+: a nil panic value reaches recover() as a non-nil *runtime.PanicNilError
					pn := x.freshValue(st, "panicnil", types.NewInterfaceType(nil, nil)).(IfaceV)
					st.assume(not(eq(pn.Tag, intLit(0))))
					isNil := eq(iv.Tag, intLit(0))
					a, b := x.flatten(iv), x.flatten(pn)
					ts := make([]Term, len(a))
					for i := range a {
						ts[i] = ite(isNil, b[i], a[i])
					}
					res, _ = x.unflatten(types.NewInterfaceType(nil, nil), ts)
				}
				parent.panicking = false
				parent.recovered = true
			}
		}
		set(res)
	case "panic":
		v := args[0]
		x.startPanic(st, fr, v)
	case "print", "println":
	case "close":
		x.chanEvent(st, "close", args[0], nil, nil)
	case "ssa:wrapnilchk":
		set(args[0])
	case "min", "max":
		a, b2 := args[0].(Scalar), args[1].(Scalar)
		op := "<="
		if b.Name() == "max" {
			op = ">="
		}
		set(Scalar{ite(mk(SBool, op, a.T, b2.T), a.T, b2.T), a.Typ})
	default:
		panic(engineErr("builtin %s unsupported", b.Name()))
	}
	return nil
}

func (x *Exec) mapLen(st *State, mt *types.Map, m Term) Term {
	ks := x.mapKeySort(mt)
	name := "maplen_" + sanitize(string(ks))
	x.sym.declareFun(name, []Sort{arrSort(ks, SBool)}, SInt)
	d := x.mapDom(st, mt, m)
	r := mk(SInt, name, d)
	st.assume(mk(SBool, ">=", r, intLit(0)))
	// len == 0 iff the domain is empty
	st.assume(eq(eq(r, intLit(0)), eq(d, zeroOfSort(arrSort(ks, SBool)))))
	return r
}

// appendOp models append(s, t...) faithfully: in place when the capacity suffices, otherwise into a fresh
// backing array that starts with a copy of s.
func (x *Exec) appendOp(st *State, fr *Frame, resInstr ssa.Instruction, args []Value, resT types.Type) []*State {
	s := args[0].(SliceV)
	var t SliceV
	switch a := args[1].(type) {
	case SliceV:
		t = a
	default:
		panic(engineErr("append of %T unsupported", a))
	}
	elem := s.Typ.Underlying().(*types.Slice).Elem()
	n := t.Len
	newLen := addT(s.Len, n)
	fits := mk(SBool, "<=", newLen, s.Cap)
	set := func(stt *State, f *Frame, v Value) {
		if rv, ok := resInstr.(ssa.Value); ok {
			f.regs[rv] = v
		}
	}
	ls := leavesOf(elem)
	write := func(stt *State, dstArr, dstOff Term) {
		// copy t[0..n) to dst[dstOff..dstOff+n)
		for _, l := range ls {
			key := heapKeyElem(elem, l.path)
			h := x.heapArr(stt, key, arrSort(SInt, arrSort(SInt, l.sort)))
			inner := sel(h, dstArr)
			src := sel(h, t.Arr)
			if isLiteral(n.S) && !strings.HasPrefix(n.S, "(") {
				var k int
				fmt.Sscan(n.S, &k)
				if k <= 8 {
					for j := 0; j < k; j++ {
						inner = sto(inner, addT(dstOff, intLit(int64(j))), sel(src, addT(t.Off, intLit(int64(j)))))
					}
					x.setHeap(stt, key, sto(h, dstArr, inner))
					continue
				}
			}
			na := x.sym.fresh("appended", arrSort(SInt, l.sort))
			x.sym.counter++
			q := fmt.Sprintf("j!%d", x.sym.counter)
			stt.assume(Term{fmt.Sprintf("(forall ((%s Int)) (! (= (select %s %s) (ite (and (<= %s %s) (< %s (+ %s %s))) (select %s (+ %s (- %s %s))) (select %s %s))) :pattern ((select %s %s))))",
				q, na.S, q, dstOff.S, q, q, dstOff.S, n.S, src.S, t.Off.S, q, dstOff.S, inner.S, q, na.S, q), SBool})
			x.setHeap(stt, key, sto(h, dstArr, na))
		}
	}
	var forks []*State
	decided := ""
	if s.Cap.S == "0" && n.S != "0" {
		decided = "grow"
	}
	var inplace, grow *State
	switch decided {
	case "grow":
		grow = st
	default:
		inplace = st
		grow = st.clone()
		forks = append(forks, grow)
	}
	if inplace != nil {
		inplace.assume(fits)
		inplace.trail = append(inplace.trail, "append:inplace")
		f := inplace.top()
		write(inplace, s.Arr, addT(s.Off, s.Len))
		set(inplace, f, SliceV{Arr: s.Arr, Off: s.Off, Len: newLen, Cap: s.Cap, Typ: resT})
	}
	{
		g := grow
		f := g.top()
		if decided == "" {
			g.assume(not(fits))
			g.trail = append(g.trail, "append:grow")
		}
		ref := x.allocRef(g)
		ncap := x.sym.fresh("newcap", SInt)
		g.assume(mk(SBool, ">=", ncap, newLen))
		// fresh array starts with a copy of s
		for _, l := range ls {
			key := heapKeyElem(elem, l.path)
			h := x.heapArr(g, key, arrSort(SInt, arrSort(SInt, l.sort)))
			if s.Len.S == "0" {
				x.setHeap(g, key, sto(h, ref, zeroOfSort(arrSort(SInt, l.sort))))
				continue
			}
			na := x.sym.fresh("grown", arrSort(SInt, l.sort))
			x.sym.counter++
			q := fmt.Sprintf("j!%d", x.sym.counter)
			old := sel(h, s.Arr)
			g.assume(Term{fmt.Sprintf("(forall ((%s Int)) (! (=> (and (<= 0 %s) (< %s %s)) (= (select %s %s) (select %s (+ %s %s)))) :pattern ((select %s %s))))",
				q, q, q, s.Len.S, na.S, q, old.S, s.Off.S, q, na.S, q), SBool})
			x.setHeap(g, key, sto(h, ref, na))
		}
		write(g, ref, s.Len)
		set(g, f, SliceV{Arr: ref, Off: intLit(0), Len: newLen, Cap: ncap, Typ: resT})
	}
	return forks
}

// ---------- intrinsics ----------

func intrinsicName(fn *ssa.Function) string {
	s := fn.String()
	switch {
	case strings.HasPrefix(s, "sync/atomic."), strings.HasPrefix(s, "(*sync/atomic."):
		return s
	case strings.HasPrefix(s, "(*sync.Mutex)."), strings.HasPrefix(s, "(*sync.RWMutex)."), strings.HasPrefix(s, "(*sync.WaitGroup)."), strings.HasPrefix(s, "(*sync.Once)."), strings.HasPrefix(s, "(*sync.Cond)."):
		return s
	case s == "sort.Search", s == "strings.Index":
		return s
	case s == "errors.New", s == "fmt.Errorf", s == "errors.Is", s == "github.com/gotid/god/lib/timex.Now", s == "github.com/gotid/god/lib/timex.Since", s == "time.Now", s == "fmt.Sprintf", s == "fmt.Sprint":
		return s
	}
	return ""
}

func (x *Exec) intrinsic(st *State, fr *Frame, resInstr ssa.Instruction, name string, fn *ssa.Function, args []Value, isDefer bool) ([]*State, bool) {
	set := func(v Value) {
		if resInstr != nil && !isDefer {
			if rv, ok := resInstr.(ssa.Value); ok {
				fr.regs[rv] = v
			}
		}
	}
	resT := func(i int) types.Type { return fn.Signature.Results().At(i).Type() }
	x.trusted["intrinsic semantics of "+name] = true
	switch {
	case strings.HasPrefix(name, "sync/atomic."):
		op := strings.TrimPrefix(name, "sync/atomic.")
		p, ok := args[0].(PtrV)
		if !ok {
			return nil, false
		}
		x.sym.note("sync/atomic operations are sequentially consistent single steps")
		// the operation is also an event on the address: on("atomic", &x.f) ("this counter is only ever updated atomically")
		aev := &Event{Kind: "atomic", Name: "atomic." + op, Callee: p, Args: args[1:], Index: len(st.events)}
		st.events = append(st.events, aev)
		switch {
		case strings.HasPrefix(op, "Add"):
			old := x.loadP(st, p).(Scalar)
			nv := Scalar{x.arithResult(st, old.Typ, mk(SInt, "+", old.T, args[1].(Scalar).T), "atomic add"), old.Typ}
			x.storeP(st, p, nv)
			aev.Results = []Value{nv}
			set(nv)
		case strings.HasPrefix(op, "Load"):
			lv := x.loadP(st, p)
			aev.Results = []Value{lv} // ret(on("atomic", &x.f), 0, k): what the k-th atomic operation on x.f read
			set(lv)
		case strings.HasPrefix(op, "Store"):
			x.storeP(st, p, retype(args[1], pointee(p)))
		case strings.HasPrefix(op, "Swap"):
			old := x.loadP(st, p)
			x.storeP(st, p, retype(args[1], pointee(p)))
			aev.Results = []Value{old}
			set(old)
		case strings.HasPrefix(op, "CompareAndSwap"):
			cur := x.loadP(st, p)
			ok := x.valuesEqual(cur, args[1])
			cf, nf := x.flatten(cur), x.flatten(args[2])
			ts := make([]Term, len(cf))
			for i := range cf {
				ts[i] = ite(ok, nf[i], cf[i])
			}
			nv, _ := x.unflatten(pointee(p), ts)
			x.storeP(st, p, nv)
			set(Scalar{ok, types.Typ[types.Bool]})
		default:
			return nil, false
		}
		return nil, true
	case strings.HasPrefix(name, "(*sync.Mutex)."), strings.HasPrefix(name, "(*sync.RWMutex)."):
		m := name[strings.LastIndex(name, ".")+1:]
		kind := "lock"
		if strings.Contains(m, "Unlock") {
			kind = "unlock"
		}
		x.lockEvent(st, fr, kind, args[0])
		return nil, true
	case strings.HasPrefix(name, "(*sync.WaitGroup)."):
		m := name[strings.LastIndex(name, ".")+1:]
		st.events = append(st.events, &Event{Kind: "wg", Name: "wg." + m, Callee: args[0], Args: args[1:], Index: len(st.events)})
		if m == "Wait" {
			x.syncPoint(st)
		}
		return nil, true
	case name == "strings.Index":
		// Index(s, sub) for a constant sub: -1, or a position where sub occurs (character by character)
		sv, sub := args[0].(Scalar), args[1].(Scalar)
		lit, ok := x.sym.litOf(sub.T.S)
		if !ok {
			return nil, false
		}
		x.sym.declareFun("strat", []Sort{SStr, SInt}, SInt)
		r := x.freshValue(st, "index", resT(0)).(Scalar)
		conds := []Term{mk(SBool, "<=", intLit(0), r.T), mk(SBool, "<=", mk(SInt, "+", r.T, intLit(int64(len(lit)))), mk(SInt, "strlen", sv.T))}
		for k := 0; k < len(lit); k++ {
			conds = append(conds, eq(mk(SInt, "strat", sv.T, mk(SInt, "+", r.T, intLit(int64(k)))), intLit(int64(lit[k]))))
		}
		st.assume(or(eq(r.T, intLit(-1)), and(conds...)))
		st.events = append(st.events, &Event{Kind: "call", Name: "Index", Callee: x.funcValue(fn, nil), Args: args, Results: []Value{r}, Index: len(st.events)})
		set(r)
		return nil, true
	case name == "sort.Search":
		// binary search postcondition, valid for every predicate f:
		//   0 <= r <= n, (r == n or f(r)), (r == 0 or !f(r-1))
		n := args[0].(Scalar).T
		fv, ok := args[1].(FuncV)
		if !ok || fv.Fn == nil {
			return nil, false
		}
		r := x.freshValue(st, "search", resT(0)).(Scalar)
		st.assume(and(mk(SBool, "<=", intLit(0), r.T), mk(SBool, "<=", r.T, n)))
		// the predicate is only ever called with indices in [0, n): its run-time checks are proved under that guard
		at, ok1 := x.evalPureClosureUnder(st, fv, []Value{r}, mk(SBool, "<", r.T, n))
		prev := Scalar{mk(SInt, "-", r.T, intLit(1)), r.Typ}
		bt, ok2 := x.evalPureClosureUnder(st, fv, []Value{prev}, mk(SBool, ">", r.T, intLit(0)))
		if !ok1 || !ok2 {
			return nil, false
		}
		st.assume(implies(mk(SBool, "<", r.T, n), at.(Scalar).T))
		st.assume(implies(mk(SBool, ">", r.T, intLit(0)), not(bt.(Scalar).T)))
		st.events = append(st.events, &Event{Kind: "call", Name: "Search", Callee: x.funcValue(fn, nil), Args: args, Results: []Value{r}, Index: len(st.events)})
		set(r)
		return nil, true
	case name == "errors.New", name == "fmt.Errorf":
		ref := x.allocRef(st)
		T := types.NewPointer(types.NewNamed(types.NewTypeName(0, nil, "errorString", nil), types.NewStruct(nil, nil), nil))
		_ = T
		tag := intLit(int64(x.typeIDByName("*errors.errorString")))
		ev := &Event{Kind: "call", Name: name, Callee: x.funcValue(fn, nil), Args: args, Index: len(st.events)}
		rv := IfaceV{Tag: tag, Val: ref, Typ: resT(0)}
		ev.Results = []Value{rv}
		st.events = append(st.events, ev)
		set(rv)
		return nil, true
	case name == "errors.Is":
		x.sym.declareFun("errors_is", []Sort{SInt, SInt, SInt, SInt}, SBool)
		a, b := args[0].(IfaceV), args[1].(IfaceV)
		r := mk(SBool, "errors_is", a.Tag, a.Val, b.Tag, b.Val)
		st.assume(implies(and(eq(a.Tag, b.Tag), eq(a.Val, b.Val)), r))
		st.assume(implies(and(eq(a.Tag, intLit(0)), not(eq(b.Tag, intLit(0)))), not(r)))
		rv := Scalar{r, types.Typ[types.Bool]}
		st.events = append(st.events, &Event{Kind: "call", Name: "Is", Callee: x.funcValue(fn, nil), Args: args, Results: []Value{rv}, Index: len(st.events)})
		set(rv)
		return nil, true
	case name == "github.com/gotid/god/lib/timex.Now", name == "github.com/gotid/god/lib/timex.Since":
		// one reading of the monotone relative clock; Since(d) = reading - d
		nowFn := fn
		if fn.Name() != "Now" && fn.Pkg != nil {
			if f := fn.Pkg.Func("Now"); f != nil {
				nowFn = f
			}
		}
		t := x.freshValue(st, "now", nowFn.Signature.Results().At(0).Type()).(Scalar)
		last, ok := st.lets["$now"]
		if ok {
			st.assume(mk(SBool, ">=", t.T, last.(Scalar).T))
		} else {
			st.assume(mk(SBool, ">=", t.T, intLit(0)))
		}
		st.lets = copyLets(st.lets)
		st.lets["$now"] = t
		if _, ok := st.lets["$now0"]; !ok {
			st.lets["$now0"] = t
		}
		st.events = append(st.events, &Event{Kind: "call", Name: "timex.Now", Callee: x.funcValue(nowFn, nil), Results: []Value{t}, Index: len(st.events)})
		if fn.Name() == "Since" {
			set(Scalar{mk(SInt, "-", t.T, args[0].(Scalar).T), resT(0)})
		} else {
			set(t)
		}
		return nil, true
	case name == "fmt.Sprintf", name == "fmt.Sprint":
		rv := x.freshValue(st, "sprintf", resT(0))
		st.events = append(st.events, &Event{Kind: "call", Name: fn.Name(), Callee: x.funcValue(fn, nil), Args: args, Results: []Value{rv}, Index: len(st.events)})
		set(rv)
		return nil, true
	}
	return nil, false
}

func (x *Exec) typeIDByName(k string) int {
	if id, ok := x.typeIDs[k]; ok {
		return id
	}
	id := len(x.typeIDs) + 1
	x.typeIDs[k] = id
	return id
}

// lockEvent records lock/unlock and applies monitor invariants declared on the root contract.
func (x *Exec) lockEvent(st *State, fr *Frame, kind string, lock Value) {
	p, _ := lock.(PtrV)
	key := x.ptrScalar(p).S
	ev := &Event{Kind: kind, Name: kind, Callee: lock, Index: len(st.events)}
	st.events = append(st.events, ev)
	if kind == "lock" {
		x.syncPoint(st)
		x.guardHavoc(st, p)
		ev.Heap = copyHeap(st.heap)
		st.held[key] = true
	} else {
		delete(st.held, key)
	}
	x.monitorHook(st, fr, kind, p)
}

// evalPureClosure runs a closure that has a single path, no events and no stores, and returns its result as a
// term over the current state (facts learnt on the way, e.g. ranges of loaded values, are kept). Run-time
// checks inside it (index bounds) are not asserted: the caller uses the result only under a guard.
func (x *Exec) evalPureClosure(st *State, fv FuncV, args []Value) (Value, bool) {
	return x.evalPureClosureUnder(st, fv, args, tTrue)
}

func (x *Exec) evalPureClosureUnder(st *State, fv FuncV, args []Value, guard Term) (Value, bool) {
	fn := fv.Fn
	if fn.Blocks == nil || len(args) != len(fn.Params) {
		return nil, false
	}
	side := st.clone()
	side.frames = nil
	if guard.S != "true" {
		side.assume(guard)
	}
	nf := &Frame{fn: fn, regs: map[ssa.Value]Value{}, env: map[string]envEntry{}, loopSeen: map[*ssa.BasicBlock]bool{}, pure: true}
	for i, p := range fn.Params {
		nf.regs[p] = args[i]
	}
	for i, f := range fn.FreeVars {
		nf.regs[f] = fv.Bind[i]
	}
	nf.block = fn.Blocks[0]
	side.frames = []*Frame{nf}
	nEv := len(side.events)
	heapBefore := len(side.written)
	saveRoot, saveC := x.root, x.rootC
	defer func() { x.root, x.rootC = saveRoot, saveC }()
	for !side.dead && len(side.frames) > 0 {
		fr := side.top()
		if fr.idx < len(fr.block.Instrs) {
			if ret, ok := fr.block.Instrs[fr.idx].(*ssa.Return); ok && len(side.frames) == 1 {
				if len(ret.Results) != 1 || len(side.events) != nEv || len(side.written) != heapBefore {
					return nil, false
				}
				return x.val(side, fr, ret.Results[0]), true
			}
		}
		if forks := x.step(side); len(forks) > 0 {
			return nil, false
		}
	}
	return nil, false
}

// nextRune: `for i, r := range s`: Map holds the string, Visited the byte position. Either the position has
// reached the end, or a rune of width 1..4 starts there; an ASCII rune is the byte at that position, for other
// runes only the range of code points is known (UTF-8 decoding is not modelled).
func (x *Exec) nextRune(st *State, fr *Frame, in *ssa.Next, it IterV) []*State {
	tup := in.Type().(*types.Tuple)
	pos := it.Visited
	slen := mk(SInt, "strlen", it.Map)
	done := st.clone()
	dfr := done.top()
	done.assume(mk(SBool, ">=", pos, slen))
	dfr.regs[in] = TupleV{[]Value{Scalar{tFalse, tup.At(0).Type()}, Scalar{intLit(0), tup.At(1).Type()}, Scalar{intLit(0), tup.At(2).Type()}}}
	done.trail = append(done.trail, fmt.Sprintf("%s.range-done", relName(fr.fn)))
	st.assume(and(mk(SBool, "<=", intLit(0), pos), mk(SBool, "<", pos, slen)))
	r := x.sym.fresh("rune", SInt)
	w := x.sym.fresh("runewidth", SInt)
	x.sym.declareFun("strat", []Sort{SStr, SInt}, SInt)
	b0 := mk(SInt, "strat", it.Map, pos)
	st.assume(and(mk(SBool, "<=", intLit(0), r), mk(SBool, "<=", r, intLit(0x10FFFF)), mk(SBool, "<=", intLit(1), w), mk(SBool, "<=", w, intLit(4)), mk(SBool, "<=", mk(SInt, "+", pos, w), slen)))
	st.assume(eq(mk(SBool, "<", r, intLit(128)), and(eq(w, intLit(1)), eq(r, b0), mk(SBool, "<", b0, intLit(128)))))
	nit := it
	nit.Visited = mk(SInt, "+", pos, w)
	fr.regs[in.Iter] = nit
	var kOut, vOut Value = Scalar{pos, types.Typ[types.Int]}, Scalar{r, types.Typ[types.Rune]}
	if b, isB := tup.At(1).Type().(*types.Basic); isB && b.Kind() == types.Invalid {
		kOut = Scalar{tFalse, tup.At(1).Type()}
	}
	if b, isB := tup.At(2).Type().(*types.Basic); isB && b.Kind() == types.Invalid {
		vOut = Scalar{tFalse, tup.At(2).Type()}
	}
	fr.regs[in] = TupleV{[]Value{Scalar{tTrue, tup.At(0).Type()}, kOut, vOut}}
	st.trail = append(st.trail, fmt.Sprintf("%s.range-next", relName(fr.fn)))
	return []*State{done}
}
