package main

import (
	"fmt"
	"go/token"
	"go/types"

	"golang.org/x/tools/go/ssa"
)

// Event: a call that was not executed by the engine (opaque callback, interface method, contract call,
// go statement, channel operation). Ghost counters in contracts count these.
type Event struct {
	Kind     string // "call", "go", "send", "recv", "close", "lock", "unlock"
	Name     string // static name: function RelString, or "(iface).Method", or "" for function values
	Callee   Value  // FuncV / IfaceV receiver (method calls)
	Method   string
	Args     []Value
	Results  []Value
	Panicked bool
	PanicVal Value // the value the call panicked with (panicking events)
	Index    int
	// loop-summary events: what the iterations already run may have emitted
	Tokens   map[string]bool
	Wild     bool
	Dyn      bool
	ID       int
	LoopOrd  int             // loop-summary events: the ordinal of the loop (as in `loop N ...`)
	Root     bool            // a loop of the function under verification (not of an inlined callee)
	HeapPost map[string]Term // opaque calls: the heap right after the callee returned (for after(event, e))
	Heap     map[string]Term // lock / recv events: the heap right after the event; opaque calls: the heap the callee saw (for at(event, e))
}

type deferred struct {
	fn   Value // FuncV or nil for static/builtin
	call *ssa.CallCommon
	args []Value
	recv Value
}

type Frame struct {
	fn        *ssa.Function
	regs      map[ssa.Value]Value
	block     *ssa.BasicBlock
	prev      *ssa.BasicBlock
	idx       int
	defers    []deferred
	env       map[string]envEntry
	panicking bool
	recovered bool
	panicVal  Value
	callInstr ssa.Instruction // in the caller frame: where to put the result
	isDefer   bool            // called as a deferred function of the parent frame
	unwinding bool
	loopSeen  map[*ssa.BasicBlock]bool
	loopEv    map[*ssa.BasicBlock]int // number of events when the loop header was first reached
	loopSnap  map[*ssa.BasicBlock]*headSnap
	fold      *foldCheck
	pure      bool
	pre       *preSnap // pre-state snapshot for contract checking (root frame or checked-inline)
	depth     int
}

// headSnap: state at a loop head (after the invariant was assumed), for at_head(...) in iteration clauses.
type headSnap struct {
	heap   map[string]Term
	env    map[string]envEntry
	allocN int
}

type envEntry struct {
	v      Value
	isAddr bool
	pos    token.Pos // where the source variable is declared (identifies it among variables of the same name)
}

type preSnap struct {
	heap       map[string]Term
	params     map[string]Value
	addrParams map[string]PtrV
	nEvent     int
}

type State struct {
	heap    map[string]Term
	pc      []Term
	events  []*Event
	allocN  int
	frames  []*Frame
	lets    map[string]Value
	held    map[string]bool // monitor locks held
	tokens  map[string]Term // ghost token balances
	dead    bool
	trail   []string // human-readable branch decisions (for reports)
	written map[string]bool
	conc    map[string]Sort // heap arrays that goroutines started on this path may write
}

func newState() *State {
	return &State{heap: map[string]Term{}, lets: map[string]Value{}, held: map[string]bool{}, tokens: map[string]Term{}, written: map[string]bool{}}
}

func (st *State) clone() *State {
	n := &State{
		heap:    make(map[string]Term, len(st.heap)),
		pc:      append([]Term(nil), st.pc...),
		events:  append([]*Event(nil), st.events...),
		allocN:  st.allocN,
		lets:    st.lets,
		held:    make(map[string]bool, len(st.held)),
		tokens:  make(map[string]Term, len(st.tokens)),
		trail:   append([]string(nil), st.trail...),
		written: make(map[string]bool, len(st.written)),
		conc:    st.conc,
	}
	for k, v := range st.heap {
		n.heap[k] = v
	}
	for k, v := range st.held {
		n.held[k] = v
	}
	for k, v := range st.tokens {
		n.tokens[k] = v
	}
	for k, v := range st.written {
		n.written[k] = v
	}
	n.frames = make([]*Frame, len(st.frames))
	for i, f := range st.frames {
		nf := *f
		nf.regs = make(map[ssa.Value]Value, len(f.regs))
		for k, v := range f.regs {
			nf.regs[k] = v
		}
		nf.env = make(map[string]envEntry, len(f.env))
		for k, v := range f.env {
			nf.env[k] = v
		}
		nf.defers = append([]deferred(nil), f.defers...)
		nf.loopSeen = make(map[*ssa.BasicBlock]bool, len(f.loopSeen))
		for k, v := range f.loopSeen {
			nf.loopSeen[k] = v
		}
		n.frames[i] = &nf
	}
	return n
}

func (st *State) assume(t Term) {
	if t.S == "true" {
		return
	}
	if t.S == "false" {
		st.dead = true
	}
	st.pc = append(st.pc, t)
}

func (st *State) top() *Frame { return st.frames[len(st.frames)-1] }

// heapArr returns the current SMT array for a heap key, creating the initial one on demand.
func (x *Exec) heapArr(st *State, key string, sort Sort) Term {
	if t, ok := st.heap[key]; ok {
		return t
	}
	t := x.sym.declareConst("H0_"+sanitize(key), sort)
	st.heap[key] = t
	return t
}

func (x *Exec) setHeap(st *State, key string, val Term) {
	// name the new array to keep terms small
	n := x.sym.fresh("h_"+shortKey(key), val.Sort)
	st.assume(eq(n, val))
	st.heap[key] = n
	st.written[key] = true
}

func shortKey(k string) string {
	s := sanitize(k)
	if len(s) > 40 {
		s = s[len(s)-40:]
	}
	return s
}

// load reads the value of type (elem of p) at pointer p.
func (x *Exec) load(st *State, p PtrV) Value {
	ls, t := subLeaves(p.Root, p.Path)
	ts := make([]Term, len(ls))
	for i, l := range ls {
		arr := x.heapArr(st, heapKeyField(p.Root, l.path), arrSort(SInt, l.sort))
		ts[i] = sel(arr, p.Base)
	}
	v, _ := x.unflatten(t, ts)
	x.assumeLoaded(st, v)
	if g := x.sentinelFact(p, v); g.S != "true" {
		st.assume(g)
	}
	return v
}

// assumeLoaded: range facts for values read from memory. To keep path conditions small the loaded
// terms are named.
func (x *Exec) assumeLoaded(st *State, v Value) {
	x.assumeWellTyped(st, v)
}

func (x *Exec) store(st *State, p PtrV, v Value) {
	ls, _ := subLeaves(p.Root, p.Path)
	ts := x.flatten(v)
	if len(ts) != len(ls) {
		panic(engineErr("store: leaf mismatch %d vs %d for %s path %v", len(ts), len(ls), p.Root, p.Path))
	}
	for i, l := range ls {
		key := heapKeyField(p.Root, l.path)
		arr := x.heapArr(st, key, arrSort(SInt, l.sort))
		x.setHeap(st, key, sto(arr, p.Base, ts[i]))
	}
}

// alloc creates a new object of type t, zero-initialised.
func (x *Exec) alloc(st *State, t types.Type, ptrTyp types.Type) PtrV {
	if at, ok := t.Underlying().(*types.Array); ok {
		return x.allocArray(st, at, ptrTyp)
	}
	st.allocN++
	ref := Term{fmt.Sprintf("(+ ALLOC0 %d)", st.allocN), SInt}
	p := PtrV{Base: ref, Root: t, Typ: ptrTyp}
	x.store(st, p, x.zeroValue(t))
	return p
}

func (x *Exec) allocRef(st *State) Term {
	st.allocN++
	return Term{fmt.Sprintf("(+ ALLOC0 %d)", st.allocN), SInt}
}

// havocKey replaces a heap array by a fresh one.
func (x *Exec) havocKey(st *State, key string, sort Sort) {
	st.heap[key] = x.sym.fresh("hv_"+shortKey(key), sort)
	st.written[key] = true
}
