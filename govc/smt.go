package main

// SMT term layer: terms are SMT-LIB2 strings tagged with a sort.

import (
	"fmt"
	"math/big"
	"sort"
	"strings"
)

type Sort string

const (
	SInt  Sort = "Int"
	SBool Sort = "Bool"
	SReal Sort = "Real"
	SStr  Sort = "Str"
)

func arrSort(idx, elem Sort) Sort { return Sort("(Array " + string(idx) + " " + string(elem) + ")") }

type Term struct {
	S    string
	Sort Sort
}

func (t Term) String() string { return t.S }

// Symbols is the table of declared constants/functions of one verification unit.
type Symbols struct {
	decl    map[string]string // name -> full declaration line
	order   []string
	counter int
	axioms  []string // global axioms, always asserted (each mentions only prelude symbols or declared ones)
	strs    map[string]string
	strList []string
	notes   map[string]bool // assumptions recorded while building terms
	ground  map[string]string // term text -> ground axiom asserted whenever the term occurs in a query
}

func newSymbols() *Symbols {
	return &Symbols{decl: map[string]string{}, strs: map[string]string{}, notes: map[string]bool{}, ground: map[string]string{}}
}

func (s *Symbols) note(msg string) { s.notes[msg] = true }

func (s *Symbols) declareConst(name string, sort Sort) Term {
	if _, ok := s.decl[name]; !ok {
		s.decl[name] = fmt.Sprintf("(declare-fun %s () %s)", name, sort)
		s.order = append(s.order, name)
	}
	return Term{name, sort}
}

func (s *Symbols) declareFun(name string, args []Sort, ret Sort) {
	if _, ok := s.decl[name]; ok {
		return
	}
	as := make([]string, len(args))
	for i, a := range args {
		as[i] = string(a)
	}
	s.decl[name] = fmt.Sprintf("(declare-fun %s (%s) %s)", name, strings.Join(as, " "), ret)
	s.order = append(s.order, name)
}

func (s *Symbols) defineRaw(name, def string) {
	if _, ok := s.decl[name]; ok {
		return
	}
	s.decl[name] = def
	s.order = append(s.order, name)
}

func (s *Symbols) fresh(prefix string, sort Sort) Term {
	s.counter++
	return s.declareConst(fmt.Sprintf("%s!%d", sanitize(prefix), s.counter), sort)
}

func sanitize(n string) string {
	var b strings.Builder
	for _, r := range n {
		switch {
		case r >= 'a' && r <= 'z', r >= 'A' && r <= 'Z', r >= '0' && r <= '9', r == '_', r == '.', r == '$', r == '!':
			b.WriteRune(r)
		default:
			b.WriteByte('_')
		}
	}
	if b.Len() == 0 {
		return "x"
	}
	return b.String()
}

// strConst returns the Str constant for a Go string literal.
func (s *Symbols) strConst(v string) Term {
	if v == "" {
		return Term{"str!empty", SStr}
	}
	if n, ok := s.strs[v]; ok {
		return Term{n, SStr}
	}
	n := fmt.Sprintf("str!%d", len(s.strs))
	s.strs[v] = n
	s.strList = append(s.strList, v)
	s.declareConst(n, SStr)
	return Term{n, SStr}
}

const prelude = `(declare-sort Str 0)
(declare-fun strlen (Str) Int)
(declare-fun strcat (Str Str) Str)
(declare-fun strlt (Str Str) Bool)
(declare-fun box_int (Int) Int)
(declare-fun unbox_int (Int) Int)
(declare-fun box_str (Str) Int)
(declare-fun unbox_str (Int) Str)
(declare-fun box_real (Real) Int)
(declare-fun unbox_real (Int) Real)
(declare-fun box_bool (Bool) Int)
(declare-fun unbox_bool (Int) Bool)
(declare-fun str!empty () Str)
(assert (= (strlen str!empty) 0))
(declare-fun ALLOC0 () Int)
(assert (>= ALLOC0 0))
(define-fun godiv ((a Int) (b Int)) Int (ite (>= a 0) (ite (> b 0) (div a b) (- (div a (- b)))) (ite (> b 0) (- (div (- a) b)) (div (- a) (- b)))))
(define-fun gomod ((a Int) (b Int)) Int (- a (* b (godiv a b))))
(define-fun wrapmod ((x Int) (n Int)) Int (ite (< x 0) (+ x n) (ite (>= x n) (- x n) x)))
(define-fun imin ((a Int) (b Int)) Int (ite (<= a b) a b))
(define-fun imax ((a Int) (b Int)) Int (ite (>= a b) a b))
(define-fun rmin ((a Real) (b Real)) Real (ite (<= a b) a b))
(define-fun rmax ((a Real) (b Real)) Real (ite (>= a b) a b))
(define-fun iabs ((a Int)) Int (ite (>= a 0) a (- a)))
(define-fun rtrunc ((x Real)) Int (ite (>= x 0.0) (to_int x) (- (to_int (- x)))))
(define-fun rceil ((x Real)) Real (- (to_real (to_int (- x)))))
(define-fun rfloor ((x Real)) Real (to_real (to_int x)))
(define-fun rround ((x Real)) Real (ite (>= x 0.0) (to_real (to_int (+ x 0.5))) (- (to_real (to_int (+ (- x) 0.5))))))
`

// ---- term constructors ----

func mk(sort Sort, op string, args ...Term) Term {
	parts := make([]string, 0, len(args)+1)
	parts = append(parts, op)
	for _, a := range args {
		parts = append(parts, a.S)
	}
	return Term{"(" + strings.Join(parts, " ") + ")", sort}
}

var (
	tTrue  = Term{"true", SBool}
	tFalse = Term{"false", SBool}
)

func intLit(v int64) Term {
	if v < 0 {
		return Term{fmt.Sprintf("(- %d)", -big.NewInt(v).Int64()), SInt}
	}
	return Term{fmt.Sprintf("%d", v), SInt}
}

func bigLit(v *big.Int) Term {
	if v.Sign() < 0 {
		return Term{"(- " + new(big.Int).Neg(v).String() + ")", SInt}
	}
	return Term{v.String(), SInt}
}

func realLitRat(r *big.Rat) Term {
	neg := r.Sign() < 0
	a := new(big.Rat).Abs(r)
	var s string
	if a.IsInt() {
		s = a.Num().String() + ".0"
	} else {
		s = "(/ " + a.Num().String() + ".0 " + a.Denom().String() + ".0)"
	}
	if neg {
		s = "(- " + s + ")"
	}
	return Term{s, SReal}
}

func boolLit(b bool) Term {
	if b {
		return tTrue
	}
	return tFalse
}

func and(ts ...Term) Term {
	var keep []Term
	for _, t := range ts {
		if t.S == "true" {
			continue
		}
		if t.S == "false" {
			return tFalse
		}
		keep = append(keep, t)
	}
	switch len(keep) {
	case 0:
		return tTrue
	case 1:
		return keep[0]
	}
	return mk(SBool, "and", keep...)
}

func or(ts ...Term) Term {
	var keep []Term
	for _, t := range ts {
		if t.S == "false" {
			continue
		}
		if t.S == "true" {
			return tTrue
		}
		keep = append(keep, t)
	}
	switch len(keep) {
	case 0:
		return tFalse
	case 1:
		return keep[0]
	}
	return mk(SBool, "or", keep...)
}

func not(t Term) Term {
	switch t.S {
	case "true":
		return tFalse
	case "false":
		return tTrue
	}
	if strings.HasPrefix(t.S, "(not ") {
		return Term{t.S[5 : len(t.S)-1], SBool}
	}
	return mk(SBool, "not", t)
}

func implies(a, b Term) Term {
	if a.S == "true" {
		return b
	}
	if a.S == "false" || b.S == "true" {
		return tTrue
	}
	return mk(SBool, "=>", a, b)
}

func eq(a, b Term) Term {
	if a.S == b.S {
		return tTrue
	}
	if a.Sort != b.Sort {
		a, b = coerce(a, b)
	}
	return mk(SBool, "=", a, b)
}

// coerce makes Int/Real operands agree (Int is lifted to Real).
func coerce(a, b Term) (Term, Term) {
	if a.Sort == SInt && b.Sort == SReal {
		return toReal(a), b
	}
	if a.Sort == SReal && b.Sort == SInt {
		return a, toReal(b)
	}
	return a, b
}

func toReal(a Term) Term {
	if a.Sort == SReal {
		return a
	}
	return mk(SReal, "to_real", a)
}

func ite(c, a, b Term) Term {
	if c.S == "true" {
		return a
	}
	if c.S == "false" {
		return b
	}
	if a.S == b.S {
		return a
	}
	a, b = coerce(a, b)
	return mk(a.Sort, "ite", c, a, b)
}

func sel(arr, idx Term) Term {
	// (Array I E) -> E
	return mk(elemSort(arr.Sort), "select", arr, idx)
}

func sto(arr, idx, v Term) Term { return mk(arr.Sort, "store", arr, idx, v) }

func elemSort(s Sort) Sort {
	// parse "(Array I E)"
	str := string(s)
	if !strings.HasPrefix(str, "(Array ") {
		panic("elemSort of non-array " + str)
	}
	inner := str[len("(Array ") : len(str)-1]
	// split first sort
	depth := 0
	for i, c := range inner {
		switch c {
		case '(':
			depth++
		case ')':
			depth--
		case ' ':
			if depth == 0 {
				return Sort(inner[i+1:])
			}
		}
	}
	panic("bad array sort " + str)
}

func idxSort(s Sort) Sort {
	str := string(s)
	inner := str[len("(Array ") : len(str)-1]
	depth := 0
	for i, c := range inner {
		switch c {
		case '(':
			depth++
		case ')':
			depth--
		case ' ':
			if depth == 0 {
				return Sort(inner[:i])
			}
		}
	}
	panic("bad array sort " + str)
}

func zeroOfSort(s Sort) Term {
	switch s {
	case SInt:
		return intLit(0)
	case SBool:
		return tFalse
	case SReal:
		return Term{"0.0", SReal}
	case SStr:
		return Term{"str!empty", SStr}
	}
	if strings.HasPrefix(string(s), "(Array ") {
		return Term{"((as const " + string(s) + ") " + zeroOfSort(elemSort(s)).S + ")", s}
	}
	panic("zeroOfSort " + string(s))
}

// usedSymbols scans text for declared symbol names.
func (s *Symbols) usedDecls(texts []string) []string {
	seen := map[string]bool{}
	var work []string
	scan := func(text string) {
		i := 0
		for i < len(text) {
			c := text[i]
			if isSymChar(c) {
				j := i
				for j < len(text) && isSymChar(text[j]) {
					j++
				}
				tok := text[i:j]
				if _, ok := s.decl[tok]; ok && !seen[tok] {
					seen[tok] = true
					work = append(work, tok)
				}
				i = j
			} else {
				i++
			}
		}
	}
	for _, t := range texts {
		scan(t)
	}
	// definitions may reference other declared symbols
	for k := 0; k < len(work); k++ {
		d := s.decl[work[k]]
		if strings.HasPrefix(d, "(define-fun") {
			scan(d)
		}
	}
	if seen["fieldaddr"] && !seen["fa_base"] {
		work = append(work, "fa_base", "fa_field")
		seen["fa_base"], seen["fa_field"] = true, true
	}
	// emit in declaration order
	idx := map[string]int{}
	for i, n := range s.order {
		idx[n] = i
	}
	sort.Slice(work, func(i, j int) bool { return idx[work[i]] < idx[work[j]] })
	out := make([]string, len(work))
	for i, n := range work {
		out[i] = s.decl[n]
	}
	return out
}

func isSymChar(c byte) bool {
	return c >= 'a' && c <= 'z' || c >= 'A' && c <= 'Z' || c >= '0' && c <= '9' || c == '_' || c == '.' || c == '$' || c == '!' || c == '@' || c == '#'
}

// strAxioms: string constants are pairwise distinct and have known length.
func (s *Symbols) strAxioms(used map[string]bool) []string {
	var out []string
	var names []string
	for _, v := range s.strList {
		n := s.strs[v]
		if !used[n] {
			continue
		}
		names = append(names, n)
		out = append(out, fmt.Sprintf("(assert (= (strlen %s) %d))", n, len(v)))
	}
	if used["str!empty"] {
		names = append(names, "str!empty")
	}
	if len(names) > 1 {
		out = append(out, "(assert (distinct "+strings.Join(names, " ")+"))")
	}
	return out
}

// litOf: the Go string literal behind a string-constant symbol.
func (s *Symbols) litOf(name string) (string, bool) {
	if name == "str!empty" {
		return "", true
	}
	for v, n := range s.strs {
		if n == name {
			return v, true
		}
	}
	return "", false
}
