package main

import (
	"encoding/json"
	"flag"
	"fmt"
	"go/types"
	"os"
	"path/filepath"
	"sort"
	"strings"
	"time"

	"golang.org/x/tools/go/packages"
	"golang.org/x/tools/go/ssa"
	"golang.org/x/tools/go/ssa/ssautil"
)

type Loaded struct {
	prog  *ssa.Program
	pkgs  map[string]*packages.Package
	spkgs map[string]*ssa.Package
	funcs map[string]*ssa.Function // pkgpath::relname
}

func scratchModfile(repo string) (string, func(), error) {
	dir, err := os.MkdirTemp("", "govc-mod-")
	if err != nil {
		return "", nil, err
	}
	for _, f := range []string{"go.mod", "go.sum"} {
		b, err := os.ReadFile(filepath.Join(repo, f))
		if err != nil && f == "go.sum" {
			// go.sum is git-ignored in gotid/god: a fresh checkout has none; fall back to the copy kept beside
			// the verifier (it only pins module hashes)
			if exe, e2 := os.Executable(); e2 == nil {
				b, err = os.ReadFile(filepath.Join(filepath.Dir(exe), "..", "govc", "repo.go.sum"))
			}
		}
		if err != nil {
			return "", nil, err
		}
		if err := os.WriteFile(filepath.Join(dir, f), b, 0o644); err != nil {
			return "", nil, err
		}
	}
	return filepath.Join(dir, "go.mod"), func() { os.RemoveAll(dir) }, nil
}

func loadPackages(repo string, patterns []string) (*Loaded, error) {
	mf, cleanup, err := scratchModfile(repo)
	if err != nil {
		return nil, err
	}
	defer cleanup()
	env := append(os.Environ(), "GOFLAGS=-mod=mod", "GOPROXY=off", "GOSUMDB=off", "GOTOOLCHAIN=local", "GOWORK=off")
	cfg := &packages.Config{Mode: packages.LoadAllSyntax, Dir: repo, Env: env, BuildFlags: []string{"-tags=verif", "-modfile=" + mf}}
	pkgs, err := packages.Load(cfg, patterns...)
	if err != nil {
		return nil, err
	}
	var errs []string
	packages.Visit(pkgs, nil, func(p *packages.Package) {
		for _, e := range p.Errors {
			if strings.HasPrefix(p.PkgPath, modulePrefix) {
				errs = append(errs, e.Error())
			}
		}
	})
	if len(errs) > 0 {
		return nil, fmt.Errorf("package errors: %s", strings.Join(errs, "; "))
	}
	prog, _ := ssautil.AllPackages(pkgs, ssa.GlobalDebug)
	ld := &Loaded{prog: prog, pkgs: map[string]*packages.Package{}, spkgs: map[string]*ssa.Package{}, funcs: map[string]*ssa.Function{}}
	packages.Visit(pkgs, nil, func(p *packages.Package) {
		ld.pkgs[p.PkgPath] = p
	})
	for _, sp := range prog.AllPackages() {
		ld.spkgs[sp.Pkg.Path()] = sp
		if strings.HasPrefix(sp.Pkg.Path(), modulePrefix) {
			sp.Build()
			ld.indexPackage(sp)
		}
	}
	return ld, nil
}

// scratchMods: packages of the separate tools/god module that cannot be loaded in place offline. Their non-test
// sources are copied byte-for-byte into a scratch module (only the module context is replaced).
var scratchMods = map[string]string{
	modulePrefix + "/tools/god/util/format":  "module " + modulePrefix + "/tools/god/util/format\n\ngo 1.19\n",
	modulePrefix + "/tools/god/util/stringx": "module " + modulePrefix + "/tools/god/util/stringx\n\ngo 1.19\n\nrequire golang.org/x/text v0.5.0\n",
	modulePrefix + "/tools/god/config":       "module " + modulePrefix + "/tools/god/config\n\ngo 1.19\n",
}

func loadScratch(repo, pkgPath string) (*Loaded, error) {
	modText, ok := scratchMods[pkgPath]
	if !ok {
		return nil, fmt.Errorf("no scratch module definition for %s", pkgPath)
	}
	dir, err := os.MkdirTemp("", "govc-scratchpkg-")
	if err != nil {
		return nil, err
	}
	defer os.RemoveAll(dir)
	src := filepath.Join(repo, strings.TrimPrefix(pkgPath, modulePrefix+"/"))
	ents, err := os.ReadDir(src)
	if err != nil {
		return nil, err
	}
	for _, e := range ents {
		n := e.Name()
		if e.IsDir() || !strings.HasSuffix(n, ".go") || strings.HasSuffix(n, "_test.go") {
			continue
		}
		b, err := os.ReadFile(filepath.Join(src, n))
		if err != nil {
			return nil, err
		}
		os.WriteFile(filepath.Join(dir, n), b, 0o644)
	}
	os.WriteFile(filepath.Join(dir, "go.mod"), []byte(modText), 0o644)
	env := append(os.Environ(), "GOFLAGS=-mod=mod", "GOPROXY=off", "GOSUMDB=off", "GOTOOLCHAIN=local", "GOWORK=off")
	cfg := &packages.Config{Mode: packages.LoadAllSyntax, Dir: dir, Env: env, BuildFlags: []string{"-tags=verif"}}
	pkgs, err := packages.Load(cfg, ".")
	if err != nil {
		return nil, err
	}
	var errs []string
	for _, p := range pkgs {
		for _, e := range p.Errors {
			errs = append(errs, e.Error())
		}
	}
	if len(errs) > 0 {
		return nil, fmt.Errorf("package errors: %s", strings.Join(errs, "; "))
	}
	prog, _ := ssautil.AllPackages(pkgs, ssa.GlobalDebug)
	ld := &Loaded{prog: prog, pkgs: map[string]*packages.Package{}, spkgs: map[string]*ssa.Package{}, funcs: map[string]*ssa.Function{}}
	packages.Visit(pkgs, nil, func(p *packages.Package) { ld.pkgs[p.PkgPath] = p })
	for _, sp := range prog.AllPackages() {
		ld.spkgs[sp.Pkg.Path()] = sp
		if strings.HasPrefix(sp.Pkg.Path(), modulePrefix) {
			sp.Build()
			ld.indexPackage(sp)
		}
	}
	return ld, nil
}

func (ld *Loaded) indexPackage(sp *ssa.Package) {
	var add func(fn *ssa.Function)
	add = func(fn *ssa.Function) {
		if fn == nil {
			return
		}
		key := sp.Pkg.Path() + "::" + fn.RelString(sp.Pkg)
		if _, ok := ld.funcs[key]; ok {
			return
		}
		ld.funcs[key] = fn
		for _, af := range fn.AnonFuncs {
			add(af)
		}
	}
	for _, m := range sp.Members {
		switch m := m.(type) {
		case *ssa.Function:
			add(m)
		case *ssa.Type:
			T := m.Type()
			for _, t := range []types.Type{T, types.NewPointer(T)} {
				ms := ld.prog.MethodSets.MethodSet(t)
				for i := 0; i < ms.Len(); i++ {
					fn := ld.prog.MethodValue(ms.At(i))
					if fn != nil && fn.Pkg == sp && fn.Synthetic == "" {
						add(fn)
					}
				}
			}
		}
	}
}

func (ld *Loaded) ensureBuilt(fn *ssa.Function) {
	if fn.Blocks == nil && fn.Pkg != nil {
		fn.Pkg.Build()
	}
}

type PropEvidence struct {
	PropertyID string                 `json:"property_id"`
	Tier       string                 `json:"tier"`
	Seed       int                    `json:"seed"`
	Level      string                 `json:"level"`
	Coverage   map[string]interface{} `json:"coverage"`
	Assumptions []string              `json:"assumptions"`
	WallS      float64                `json:"wall_s"`
	Violations int                    `json:"violations"`
}

func main() {
	if len(os.Args) < 2 {
		fmt.Fprintln(os.Stderr, "usage: govc check|dump ...")
		os.Exit(2)
	}
	switch os.Args[1] {
	case "check":
		os.Exit(cmdCheck(os.Args[2:]))
	case "replay":
		os.Exit(cmdReplay(os.Args[2:]))
	case "genc12":
		os.Exit(cmdGenC12(os.Args[2:]))
	case "genkv":
		os.Exit(cmdGenKV(os.Args[2:]))
	default:
		fmt.Fprintln(os.Stderr, "unknown command")
		os.Exit(2)
	}
}

type knownFinding struct {
	Prop       string
	Obligation string
	Case       string
	Line       string
}

func loadKnown(path string) ([]knownFinding, []string) {
	b, err := os.ReadFile(path)
	if err != nil {
		return nil, nil
	}
	var out []knownFinding
	var fixed []string
	for _, l := range strings.Split(string(b), "\n") {
		l = strings.TrimSpace(l)
		if strings.HasPrefix(l, "fixed:") {
			fixed = append(fixed, l)
			continue
		}
		if !strings.HasPrefix(l, "known:") {
			continue
		}
		kf := knownFinding{Line: l}
		rest := strings.TrimSpace(strings.TrimPrefix(l, "known:"))
		for _, f := range []string{"property=", "obligation=", "case="} {
			i := strings.Index(rest, f)
			if i < 0 {
				continue
			}
			v := rest[i+len(f):]
			if f != "case=" {
				if j := strings.IndexAny(v, " \t"); j >= 0 {
					v = v[:j]
				}
			}
			switch f {
			case "property=":
				kf.Prop = v
			case "obligation=":
				kf.Obligation = v
			case "case=":
				kf.Case = v
			}
		}
		out = append(out, kf)
	}
	return out, fixed
}

func cmdCheck(args []string) int {
	fs := flag.NewFlagSet("check", flag.ExitOnError)
	prop := fs.String("prop", "", "property id")
	tier := fs.String("tier", "quick", "quick|thorough")
	repo := fs.String("repo", "/repo", "repository root")
	verif := fs.String("verif", "/verif", "verification root")
	only := fs.String("func", "", "only this function (debug)")
	keep := fs.Bool("keep", false, "keep smt files of proved obligations")
	noEvidence := fs.Bool("no-evidence", false, "do not write the evidence file")
	outSuffix := fs.String("outsuffix", "", "suffix of the output directory")
	fs.Parse(args)
	if *prop == "" {
		fmt.Fprintln(os.Stderr, "need -prop")
		return 2
	}
	t0 := time.Now()
	seed := 0
	fmt.Sscan(os.Getenv("VERIF_SEED"), &seed)
	timeoutMs := 10000
	if *tier == "thorough" {
		timeoutMs = 60000
	}
	outDir := filepath.Join(*verif, "out", *prop+*outSuffix)
	os.RemoveAll(outDir)
	os.MkdirAll(outDir, 0o755)

	db := newContractDB()
	if err := db.loadRepoContracts(*repo, modulePrefix); err != nil {
		return engineFailure(*prop, outDir, "contracts: "+err.Error())
	}
	if err := db.loadExtContracts(filepath.Join(*verif, "contracts", "ext")); err != nil {
		return engineFailure(*prop, outDir, "ext contracts: "+err.Error())
	}
	// functions of this property
	var targets []*FuncContract
	pkgSet := map[string]bool{}
	for _, c := range db.Funcs {
		if c.Trusted {
			continue
		}
		for _, p := range c.Props {
			if p == *prop {
				if *only == "" || *only == c.Name {
					targets = append(targets, c)
					pkgSet[c.Pkg] = true
				}
			}
		}
	}
	sort.Slice(targets, func(i, j int) bool {
		if targets[i].Pkg != targets[j].Pkg {
			return targets[i].Pkg < targets[j].Pkg
		}
		return targets[i].Name < targets[j].Name
	})
	var lemmas []*Lemma
	for _, l := range db.Lemmas {
		for _, p := range l.Props {
			if p == *prop && *only == "" {
				lemmas = append(lemmas, l)
			}
		}
	}
	var luas []*LuaContract
	for _, lc := range db.Luas {
		for _, p := range lc.Props {
			if p == *prop && *only == "" {
				luas = append(luas, lc)
				pkgSet[lc.Pkg] = true
			}
		}
	}
	if len(targets) == 0 && len(lemmas) == 0 && len(luas) == 0 {
		return engineFailure(*prop, outDir, "no function or lemma under contract carries property "+*prop)
	}
	var patterns []string
	scratchLoaded := map[string]*Loaded{}
	for p := range pkgSet {
		if _, isScratch := scratchMods[p]; isScratch {
			sl, err := loadScratch(*repo, p)
			if err != nil {
				return engineFailure(*prop, outDir, "load (scratch module) "+p+": "+err.Error())
			}
			scratchLoaded[p] = sl
			continue
		}
		patterns = append(patterns, "./"+strings.TrimPrefix(strings.TrimPrefix(p, modulePrefix), "/"))
	}
	sort.Strings(patterns)
	var ld *Loaded
	if len(patterns) > 0 {
		var err error
		ld, err = loadPackages(*repo, patterns)
		if err != nil {
			return engineFailure(*prop, outDir, "load: "+err.Error())
		}
	}
	tLoad := time.Since(t0)

	type unit struct {
		x    *Exec
		c    *FuncContract
		obls []*Obligation
	}
	var units []*unit
	var engineErrs []string
	trusted := map[string]bool{}
	notes := map[string]bool{}
	nPaths := 0
	mainLd := ld
	for _, c := range targets {
		ld := mainLd
		if sl, ok := scratchLoaded[c.Pkg]; ok {
			ld = sl
		}
		if ld == nil {
			engineErrs = append(engineErrs, "package "+c.Pkg+" not loaded")
			continue
		}
		fn := ld.funcs[c.Pkg+"::"+c.Name]
		if fn == nil {
			engineErrs = append(engineErrs, fmt.Sprintf("binding: function %s.%s under contract (%s) not found in the current tree", pkgShort(c.Pkg), c.Name, c.Src))
			continue
		}
		x := newExec(ld.prog, ld.pkgs, db)
		x.ld = ld
		x.verifyFunc(fn, c)
		for _, e := range x.errs {
			engineErrs = append(engineErrs, e)
		}
		u := &unit{x: x, c: c}
		for _, n := range x.oblOrder {
			u.obls = append(u.obls, x.obls[n])
		}
		units = append(units, u)
		for k := range x.trusted {
			trusted[k] = true
		}
		for k := range x.sym.notes {
			notes[k] = true
		}
		nPaths += x.nPaths
	}
	// lemmas
	for _, l := range lemmas {
		x := newExec(nil, nil, db)
		if ld != nil {
			x.prog = ld.prog
		}
		o, err := x.lemmaObligation(l)
		if err != nil {
			engineErrs = append(engineErrs, err.Error())
			continue
		}
		units = append(units, &unit{x: x, obls: []*Obligation{o}})
	}
	for _, lc := range luas {
		pp := ld.pkgs[lc.Pkg]
		if pp == nil {
			engineErrs = append(engineErrs, "lua "+lc.Const+": package "+lc.Pkg+" not loaded")
			continue
		}
		x, obls, err := luaObligations(db, lc, pp.Types)
		if err != nil {
			engineErrs = append(engineErrs, err.Error())
			continue
		}
		units = append(units, &unit{x: x, obls: obls})
		trusted["Redis executes a script atomically; INCRBY/EXPIRE/GET/SETEX by their documented effect on one key; Lua numbers as reals"] = true
	}
	tGen := time.Since(t0) - tLoad

	var jobs []func() OblResult
	for _, u := range units {
		for _, o := range u.obls {
			u, o := u, o
			jobs = append(jobs, func() OblResult {
				r := u.x.discharge(o, outDir, timeoutMs, *tier == "thorough")
				r.Contract = u.c
				return r
			})
		}
	}
	results := dischargeAll(jobs, 16)
	tSolve := time.Since(t0) - tLoad - tGen

	known, _ := loadKnown(filepath.Join(*verif, "known_findings.txt"))
	violations := 0
	nObl, nDis := 0, 0
	var samples []interface{}
	var per []OblResult
	solverMs := int64(0)
	var knownHit []string
	var observations []string
	for _, r := range results {
		solverMs += r.Ms
		per = append(per, r)
		ok := r.Status == "proved" || r.Status == "covered"
		if !r.Counts {
			if !ok {
				observations = append(observations, r.Name+": "+r.Status)
			}
			continue
		}
		nObl++
		if ok {
			nDis++
			if !*keep && r.File != "" {
				os.Remove(r.File)
			}
			continue
		}
		// known finding?
		isKnown := false
		for _, k := range known {
			if k.Prop == *prop && k.Obligation == r.Name {
				fmt.Printf("KNOWN-FINDING: property=%s %s: %s\n", *prop, r.Name, k.Case)
				knownHit = append(knownHit, k.Line)
				isKnown = true
			}
		}
		if isKnown {
			nObl--
			continue
		}
		violations++
		rp := writeReplay(outDir, *prop, r)
		suffix := ""
		if !tryReplay(*verif, *repo, *prop, r, rp) {
			suffix = " no-failing-input-found"
		}
		fmt.Printf("VIOLATION property=%s replay=%s%s\n", *prop, rp, suffix)
		fmt.Printf("  obligation %s [%s] %s: %s (%s)\n", r.Name, r.Kind, r.Status, r.Text, r.Src)
	}
	for i, e := range engineErrs {
		violations++
		r := OblResult{Name: fmt.Sprintf("engine/binding#%d", i+1), Kind: "binding", Status: "unknown", Text: e}
		rp := writeReplay(outDir, *prop, r)
		fmt.Printf("VIOLATION property=%s replay=%s no-failing-input-found\n", *prop, rp)
		fmt.Printf("  %s\n", e)
		nObl++
	}
	bounded, bfail, brp := runBounded(*verif, *repo, *prop, *tier, outDir)
	if bfail != "" {
		violations++
		suffix := ""
		if strings.Contains(bfail, "did not run") {
			suffix = " no-failing-input-found"
		}
		fmt.Printf("VIOLATION property=%s replay=%s%s\n  %s\n", *prop, brp, suffix, bfail)
	}
	sort.Slice(per, func(i, j int) bool { return per[i].Name < per[j].Name })
	for i, r := range per {
		if i < 12 {
			samples = append(samples, map[string]interface{}{"obligation": r.Name, "kind": r.Kind, "clause": r.Text, "status": r.Status, "solver": r.Solver, "ms": r.Ms, "path_instances": r.Instances})
		}
	}
	var funcsUnder []string
	for _, c := range targets {
		funcsUnder = append(funcsUnder, pkgShort(c.Pkg)+"."+c.Name)
	}
	var lemmaNames []string
	for _, l := range lemmas {
		lemmaNames = append(lemmaNames, l.Name)
	}
	tb := []string{"govc (this VC generator: go/ssa symbolic execution -> SMT-LIB) and golang.org/x/tools/go/ssa v0.29.0", "SMT solvers: z3 5.1.0 (z3-new), z3 4.8.12, cvc5 1.0.3"}
	tb = append(tb, sortedKeys(trusted)...)
	assumptions := sortedKeys(notes)
	assumptions = append(assumptions, readNotApplicable(filepath.Join(*verif, "props", *prop+".notes"))...)
	ev := PropEvidence{PropertyID: *prop, Tier: *tier, Seed: seed, Level: "proof", WallS: time.Since(t0).Seconds(), Violations: violations, Assumptions: assumptions}
	ev.Coverage = map[string]interface{}{
		"obligations":              nObl,
		"discharged":               nDis,
		"checker_cmd":              fmt.Sprintf("/verif/bin/check %s --tier %s", *prop, *tier),
		"trusted_base":             tb,
		"samples":                  samples,
		"functions_under_contract": funcsUnder,
		"lemmas":                   lemmaNames,
		"per_obligation":           per,
		"paths_explored":           nPaths,
		"solver_time_s":            float64(solverMs) / 1000,
		"load_s":                   tLoad.Seconds(),
		"vcgen_s":                  tGen.Seconds(),
		"solve_wall_s":             tSolve.Seconds(),
		"known_findings_hit":       knownHit,
		"observations_outside_property": observations,
		"contract_files":           db.Files,
		"bounded":                  bounded,
		"arithmetic":               "Go integers are mathematical Int with type-range facts on every value read; see assumptions for per-function arith mode; float64 is Real",
	}
	if !*noEvidence {
		os.MkdirAll(filepath.Join(*verif, "evidence"), 0o755)
		b, _ := json.MarshalIndent(ev, "", " ")
		os.WriteFile(filepath.Join(*verif, "evidence", *prop+".json"), b, 0o644)
	}
	fmt.Printf("property %s: %d/%d obligations discharged over %d functions + %d lemmas, %d paths, load %.1fs vcgen %.1fs solve %.1fs\n",
		*prop, nDis, nObl, len(targets), len(lemmas), nPaths, tLoad.Seconds(), tGen.Seconds(), tSolve.Seconds())
	if violations > 0 {
		return 1
	}
	return 0
}

func sortedKeys(m map[string]bool) []string {
	var out []string
	for k := range m {
		out = append(out, k)
	}
	sort.Strings(out)
	return out
}

func readNotApplicable(path string) []string {
	b, err := os.ReadFile(path)
	if err != nil {
		return nil
	}
	var out []string
	for _, l := range strings.Split(string(b), "\n") {
		if l = strings.TrimSpace(l); l != "" && !strings.HasPrefix(l, "#") {
			out = append(out, l)
		}
	}
	return out
}

func engineFailure(prop, outDir, msg string) int {
	r := OblResult{Name: "engine/setup", Kind: "binding", Status: "unknown", Text: msg}
	rp := writeReplay(outDir, prop, r)
	fmt.Printf("VIOLATION property=%s replay=%s no-failing-input-found\n  %s\n", prop, rp, msg)
	return 1
}

func writeReplay(outDir, prop string, r OblResult) string {
	p := filepath.Join(outDir, sanitizeFile(r.Name)+".replay")
	var b strings.Builder
	fmt.Fprintf(&b, "property: %s\nobligation: %s\nkind: %s\nstatus: %s\nclause: %s\ncontract: %s\nsolver: %s\nquery: %s\n", prop, r.Name, r.Kind, r.Status, r.Text, r.Src, r.Solver, r.File)
	fmt.Fprintf(&b, "path: %s\n", strings.Join(r.FailTrail, " "))
	fmt.Fprintf(&b, "---- solver output ----\n%s\n---- model ----\n%s\n", r.Output, r.Model)
	os.WriteFile(p, []byte(b.String()), 0o644)
	return p
}
