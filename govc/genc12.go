// genc12 writes the forwarding contracts of lib/store/redis mechanically from the source of redis.go:
// for every method pair X / XCtx of *Redis in the canonical shape it emits
//   - X:      forwards to XCtx with context.Background() and the same arguments
//   - XCtx:   runs under the breaker with the package's `acceptable` predicate
//   - XCtx$1: issues exactly one go-redis command, with every wrapper parameter that is passed through
//             unchanged pinned to its argument position (go-redis variadic parameters are indexed inside
//             the packed slice), and nothing when no node is available
// Methods outside the shape are listed in a comment (not covered).
package main

import (
	"fmt"
	"go/ast"
	"go/types"
	"sort"
	"strings"
)

func cmdGenC12(args []string) int {
	repo := "/repo"
	if len(args) > 0 {
		repo = args[0]
	}
	ld, err := loadPackages(repo, []string{"./lib/store/redis"})
	if err != nil {
		fmt.Println("load:", err)
		return 2
	}
	pp := ld.pkgs[modulePrefix+"/lib/store/redis"]
	var f *ast.File
	for i, sf := range pp.Syntax {
		if strings.HasSuffix(pp.CompiledGoFiles[i], "/redis.go") {
			f = sf
		}
	}
	if f == nil {
		fmt.Println("redis.go not found")
		return 2
	}
	info := pp.TypesInfo
	methods := map[string]*ast.FuncDecl{}
	var names []string
	for _, d := range f.Decls {
		fd, ok := d.(*ast.FuncDecl)
		if !ok || fd.Recv == nil || len(fd.Recv.List) != 1 {
			continue
		}
		st, ok := fd.Recv.List[0].Type.(*ast.StarExpr)
		if !ok {
			continue
		}
		if id, ok := st.X.(*ast.Ident); !ok || id.Name != "Redis" {
			continue
		}
		methods[fd.Name.Name] = fd
		names = append(names, fd.Name.Name)
	}
	sort.Strings(names)
	var out, skipped []string
	params := func(fd *ast.FuncDecl) []string {
		var ps []string
		for _, fl := range fd.Type.Params.List {
			for _, n := range fl.Names {
				ps = append(ps, n.Name)
			}
		}
		return ps
	}
	for _, n := range names {
		fd := methods[n]
		if strings.HasSuffix(n, "Ctx") {
			continue
		}
		ctxm, ok := methods[n+"Ctx"]
		if !ok {
			continue
		}
		// X: single return of r.XCtx(context.Background(), params...)
		okShape := false
		if len(fd.Body.List) == 1 {
			if rs, ok := fd.Body.List[0].(*ast.ReturnStmt); ok && len(rs.Results) == 1 {
				if ce, ok := rs.Results[0].(*ast.CallExpr); ok {
					if se, ok := ce.Fun.(*ast.SelectorExpr); ok && se.Sel.Name == n+"Ctx" {
						okShape = true
						ps := params(fd)
						var cl []string
						for i, a := range ce.Args[1:] {
							if id, ok := a.(*ast.Ident); ok && i < len(ps) && id.Name == ps[i] {
								cl = append(cl, fmt.Sprintf("arg(%sCtx, %d) == %s", n, i+2, id.Name))
							}
						}
						res := "result == ret(" + n + "Ctx)"
						if fd.Type.Results != nil && fd.Type.Results.NumFields() == 2 {
							res = "result0 == ret(" + n + "Ctx, 0) && result1 == ret(" + n + "Ctx, 1)"
						}
						out = append(out, fmt.Sprintf("//@ func (*Redis).%s\n//@   prop C12\n//@   opaque %sCtx\n//@   requires r != nil\n//@   ensures [same-as-ctx-form] calls(r.%sCtx) == 1 && calls(context.Background) == 1 && arg(%sCtx, 1) == ret(context.Background) && %s%s",
							n, n, n, n, res, andAll(cl)))
					}
				}
			}
		}
		if !okShape {
			skipped = append(skipped, n+" (plain form not a direct forward)")
		}
		// XCtx: err = r.brk.DoWithAcceptable(func() error {...}, acceptable); return
		var lit *ast.FuncLit
		shape := false
		ast.Inspect(ctxm.Body, func(nd ast.Node) bool {
			ce, ok := nd.(*ast.CallExpr)
			if !ok {
				return true
			}
			se, ok := ce.Fun.(*ast.SelectorExpr)
			if !ok || se.Sel.Name != "DoWithAcceptable" || len(ce.Args) != 2 {
				return true
			}
			if id, ok := ce.Args[1].(*ast.Ident); ok && id.Name == "acceptable" {
				if fl, ok := ce.Args[0].(*ast.FuncLit); ok && lit == nil {
					lit = fl
					shape = true
				}
			}
			return true
		})
		if !shape {
			skipped = append(skipped, n+"Ctx (not of the breaker-closure shape)")
			continue
		}
		errName := "result"
		if k := ctxm.Type.Results.NumFields(); k > 1 {
			errName = fmt.Sprintf("result%d", k-1)
		}
		if lastIsNotError(ctxm) {
			skipped = append(skipped, n+"Ctx (does not return the breaker's error)")
			continue
		}
		out = append(out, fmt.Sprintf("//@ func (*Redis).%sCtx\n//@   prop C12\n//@   requires r != nil\n//@   ensures [under-breaker-with-acceptable] calls(r.brk.DoWithAcceptable) == 1 && arg(r.brk.DoWithAcceptable, 1) == acceptable && %s == ret(r.brk.DoWithAcceptable)", n, errName))
		// closure: find node.<Cmd>(args) calls
		type cmd struct {
			name     string
			args     []ast.Expr
			sig      *types.Signature
			ellipsis bool
		}
		var cmds []cmd
		ast.Inspect(lit.Body, func(nd ast.Node) bool {
			ce, ok := nd.(*ast.CallExpr)
			if !ok {
				return true
			}
			se, ok := ce.Fun.(*ast.SelectorExpr)
			if !ok {
				return true
			}
			if id, ok := se.X.(*ast.Ident); ok && (id.Name == "node" || id.Name == "conn") {
				var sig *types.Signature
				if sel, ok := info.Selections[se]; ok {
					sig, _ = sel.Type().(*types.Signature)
				}
				cmds = append(cmds, cmd{se.Sel.Name, ce.Args, sig, ce.Ellipsis.IsValid()})
			}
			return true
		})
		if !canonicalPrologue(lit) {
			skipped = append(skipped, n+"Ctx$1 (closure does not start with `node, err := getRedis(r); if err != nil { return err }`)")
			continue
		}
		if len(cmds) != 1 {
			skipped = append(skipped, fmt.Sprintf("%sCtx$1 (%d go-redis commands in the closure, expected 1)", n, len(cmds)))
			continue
		}
		c := cmds[0]
		ps := map[string]bool{}
		for _, p := range params(ctxm) {
			ps[p] = true
		}
		var cl []string
		nfixed, variadic, ellipsis := len(c.args), false, c.ellipsis
		if c.sig != nil {
			variadic = c.sig.Variadic()
			nfixed = c.sig.Params().Len()
			if variadic {
				nfixed--
			}
		}
		for i, a := range c.args {
			id, ok := a.(*ast.Ident)
			if !ok || !ps[id.Name] {
				continue
			}
			if variadic && i >= nfixed && !ellipsis {
				cl = append(cl, fmt.Sprintf("arg(node.%s, %d)[%d] == %s", c.name, nfixed, i-nfixed, id.Name))
			} else {
				cl = append(cl, fmt.Sprintf("arg(node.%s, %d) == %s", c.name, i, id.Name))
			}
		}
		out = append(out, fmt.Sprintf("//@ func (*Redis).%sCtx$1\n//@   prop C12\n//@   opaque getRedis\n//@   let node = ret(getRedis, 0)\n//@   ensures [no-node-no-command] ret(getRedis, 1) != nil ==> result == ret(getRedis, 1) && calls(%s) == 0\n//@   ensures [one-command-same-args] ret(getRedis, 1) == nil ==> calls(node.%s) == 1%s\n//@   ensures [asks-for-this-wrapper] calls(getRedis, r) == 1",
			n, c.name, c.name, andAll(cl)))
	}
	fmt.Println("// ---- generated by /verif/tools/genc12 from redis.go (do not edit by hand) ----")
	fmt.Println(strings.Join(out, "\n"))
	fmt.Println("// not covered by the forwarding contracts (outside the canonical shape):")
	for _, s := range skipped {
		fmt.Println("//   " + s)
	}
	return 0
}

func lastIsNotError(fd *ast.FuncDecl) bool {
	rs := fd.Type.Results
	if rs == nil || len(rs.List) == 0 {
		return true
	}
	last := rs.List[len(rs.List)-1]
	id, ok := last.Type.(*ast.Ident)
	return !ok || id.Name != "error"
}

// canonicalPrologue: node, err := getRedis(r); if err != nil { return err }
func canonicalPrologue(lit *ast.FuncLit) bool {
	if len(lit.Body.List) < 2 {
		return false
	}
	as, ok := lit.Body.List[0].(*ast.AssignStmt)
	if !ok || len(as.Rhs) != 1 {
		return false
	}
	ce, ok := as.Rhs[0].(*ast.CallExpr)
	if !ok {
		return false
	}
	if id, ok := ce.Fun.(*ast.Ident); !ok || id.Name != "getRedis" {
		return false
	}
	ifs, ok := lit.Body.List[1].(*ast.IfStmt)
	if !ok || len(ifs.Body.List) != 1 {
		return false
	}
	rs, ok := ifs.Body.List[0].(*ast.ReturnStmt)
	if !ok || len(rs.Results) != 1 {
		return false
	}
	id, ok := rs.Results[0].(*ast.Ident)
	return ok && id.Name == "err"
}

func andAll(cl []string) string {
	if len(cl) == 0 {
		return ""
	}
	return " && " + strings.Join(cl, " && ")
}

// cmdGenKV: forwarding contracts for the sharded kv store: every single-key method asks the dispatcher for the
// key's node and issues the same command with the same arguments on that node only.
func cmdGenKV(args []string) int {
	repo := "/repo"
	if len(args) > 0 {
		repo = args[0]
	}
	ld, err := loadPackages(repo, []string{"./lib/store/kv"})
	if err != nil {
		fmt.Println("load:", err)
		return 2
	}
	pp := ld.pkgs[modulePrefix+"/lib/store/kv"]
	var out, skipped []string
	for i, sf := range pp.Syntax {
		if !strings.HasSuffix(pp.CompiledGoFiles[i], "/store.go") {
			continue
		}
		for _, d := range sf.Decls {
			fd, ok := d.(*ast.FuncDecl)
			if !ok || fd.Recv == nil || !strings.HasSuffix(fd.Name.Name, "Ctx") {
				continue
			}
			if id, ok := fd.Recv.List[0].Type.(*ast.Ident); !ok || id.Name != "kvStore" {
				continue
			}
			n := fd.Name.Name
			b := fd.Body.List
			if len(b) != 3 {
				skipped = append(skipped, n+" (not of the getRedis-then-forward shape)")
				continue
			}
			as, ok := b[0].(*ast.AssignStmt)
			if !ok || len(as.Rhs) != 1 {
				skipped = append(skipped, n+" (first statement)")
				continue
			}
			gc, ok := as.Rhs[0].(*ast.CallExpr)
			if !ok || len(gc.Args) != 1 {
				skipped = append(skipped, n+" (first statement)")
				continue
			}
			se, ok := gc.Fun.(*ast.SelectorExpr)
			keyArg, ok2 := gc.Args[0].(*ast.Ident)
			if !ok || !ok2 || se.Sel.Name != "getRedis" {
				skipped = append(skipped, n+" (first statement)")
				continue
			}
			rs, ok := b[2].(*ast.ReturnStmt)
			if !ok || len(rs.Results) != 1 {
				skipped = append(skipped, n+" (last statement)")
				continue
			}
			ce, ok := rs.Results[0].(*ast.CallExpr)
			if !ok {
				skipped = append(skipped, n+" (last statement)")
				continue
			}
			cs, ok := ce.Fun.(*ast.SelectorExpr)
			if !ok {
				skipped = append(skipped, n+" (last statement)")
				continue
			}
			ps := map[string]bool{}
			for _, fl := range fd.Type.Params.List {
				for _, nm := range fl.Names {
					ps[nm.Name] = true
				}
			}
			var cl []string
			nfixed, variadic := len(ce.Args), false
			if sel, ok := pp.TypesInfo.Selections[cs]; ok {
				if sig, ok := sel.Type().(*types.Signature); ok {
					variadic = sig.Variadic()
					nfixed = sig.Params().Len()
					if variadic {
						nfixed--
					}
				}
			}
			for i, a := range ce.Args {
				id, ok := a.(*ast.Ident)
				if !ok || !ps[id.Name] {
					continue
				}
				if variadic && i >= nfixed && !ce.Ellipsis.IsValid() {
					cl = append(cl, fmt.Sprintf("arg(%s, %d)[%d] == %s", cs.Sel.Name, nfixed+1, i-nfixed, id.Name))
				} else {
					cl = append(cl, fmt.Sprintf("arg(%s, %d) == %s", cs.Sel.Name, i+1, id.Name))
				}
			}
			res := "result == ret(" + cs.Sel.Name + ")"
			k := fd.Type.Results.NumFields()
			if k > 1 {
				var rr []string
				for j := 0; j < k; j++ {
					rr = append(rr, fmt.Sprintf("result%d == ret(%s, %d)", j, cs.Sel.Name, j))
				}
				res = strings.Join(rr, " && ")
			}
			errRes := "result"
			if k > 1 {
				errRes = fmt.Sprintf("result%d", k-1)
			}
			out = append(out, fmt.Sprintf("//@ func (kvStore).%s\n//@   prop C12\n//@   opaque getRedis, %s\n//@   ensures [node-of-the-key] calls(s.getRedis, %s) == 1\n//@   ensures [no-node] ret(getRedis, 1) != nil ==> %s == ret(getRedis, 1) && calls(%s) == 0\n//@   ensures [same-command-on-that-node] ret(getRedis, 1) == nil ==> calls(ret(getRedis, 0).%s) == 1 && calls(%s) == 1 && %s%s",
				n, cs.Sel.Name, keyArg.Name, errRes, cs.Sel.Name, cs.Sel.Name, cs.Sel.Name, res, andAll(cl)))
		}
	}
	fmt.Println("// ---- generated by `govc genkv` from store.go (do not edit by hand) ----")
	fmt.Println(strings.Join(out, "\n"))
	fmt.Println("// not covered by the generated forwarding contracts:")
	for _, s := range skipped {
		fmt.Println("//   " + s)
	}
	return 0
}
