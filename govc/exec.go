package main

// Symbolic execution of go/ssa functions; generation of proof obligations.

import (
	"fmt"
	"go/ast"
	"go/constant"
	"go/token"
	"go/types"
	"math/big"
	"os"
	"sort"
	"strconv"
	"strings"

	"golang.org/x/tools/go/packages"
	"golang.org/x/tools/go/ssa"
)

const modulePrefix = "github.com/gotid/god"

type Observe struct {
	Name string
	T    Term
}

type OblInstance struct {
	PC       []Term
	Goal     Term
	Trail    []string
	Info     string
	Observes []Observe
	Small    []Term // extra constraints used only when asking for a (small) counterexample model
}

type Obligation struct {
	Name      string
	Kind      string
	Text      string
	Src       string
	Instances []OblInstance
	Counts    bool // counts towards the property (false: observation only)
}

type Exec struct {
	prog        *ssa.Program
	pkgs        map[string]*packages.Package
	sym         *Symbols
	db          *ContractDB
	closures    map[string]FuncV
	root        *ssa.Function
	rootC       *FuncContract
	obls        map[string]*Obligation
	oblOrder    []string
	nPaths      int
	nExits      int
	trusted     map[string]bool // names of assumed contracts / intrinsics / opaque calls used
	curCom      *ssa.CallCommon // the call being dispatched (for out-parameter havoc of opaque calls)
	nSummary    int             // loop summary events created
	initOnce    map[*ssa.Global]bool
	typeIDs     map[string]int
	typeByID    map[int]types.Type
	globalIDs   map[*ssa.Global]int
	loopInfo    map[*ssa.Function]*loopInfo
	maxPaths    int
	maxDepth    int
	callOrd     map[string]int
	errs        []string
	sentinels   map[string]int
	coverHits   map[string]bool
	ld          *Loaded
	lemmaName   string
	entailCache map[string]bool
	curObs      []Observe
	curSmall    []Term
}

func newExec(prog *ssa.Program, pkgs map[string]*packages.Package, db *ContractDB) *Exec {
	return &Exec{prog: prog, pkgs: pkgs, db: db, sym: newSymbols(), closures: map[string]FuncV{},
		obls: map[string]*Obligation{}, trusted: map[string]bool{}, typeIDs: map[string]int{}, typeByID: map[int]types.Type{},
		globalIDs: map[*ssa.Global]int{}, loopInfo: map[*ssa.Function]*loopInfo{}, maxPaths: 4096, maxDepth: 6,
		callOrd: map[string]int{}, sentinels: map[string]int{}, coverHits: map[string]bool{}}
}

func relName(fn *ssa.Function) string {
	if fn == nil {
		return "lemma"
	}
	if fn.Pkg != nil {
		return fn.RelString(fn.Pkg.Pkg)
	}
	if p := fn.Parent(); p != nil && p.Pkg != nil {
		return fn.RelString(p.Pkg.Pkg)
	}
	return fn.String()
}

func pkgPathOf(fn *ssa.Function) string {
	if fn.Pkg != nil {
		return fn.Pkg.Pkg.Path()
	}
	if p := fn.Parent(); p != nil {
		return pkgPathOf(p)
	}
	// synthetic wrappers / instantiations
	if o := fn.Object(); o != nil && o.Pkg() != nil {
		return o.Pkg().Path()
	}
	if fn.Signature.Recv() != nil {
		t := fn.Signature.Recv().Type()
		if p, ok := t.(*types.Pointer); ok {
			t = p.Elem()
		}
		if n, ok := t.(*types.Named); ok && n.Obj().Pkg() != nil {
			return n.Obj().Pkg().Path()
		}
	}
	return ""
}

func (x *Exec) contractOf(fn *ssa.Function) *FuncContract {
	if fn == nil {
		return nil
	}
	name := relName(fn)
	if fn.Pkg == nil && fn.Parent() == nil {
		// method of a type from another package, e.g. (*sync.Mutex).Lock rendered with qualifier
		if o := fn.Object(); o != nil && o.Pkg() != nil {
			name = fn.RelString(o.Pkg())
		}
	}
	return x.db.lookup(pkgPathOf(fn), name)
}

func (x *Exec) typeID(t types.Type) int {
	k := typeKey(t)
	if id, ok := x.typeIDs[k]; ok {
		return id
	}
	id := len(x.typeIDs) + 1
	x.typeIDs[k] = id
	x.typeByID[id] = t
	return id
}

func (x *Exec) oblName(kind string, ord int, label string) string {
	base := pkgShort(pkgPathOf(x.root)) + "." + relName(x.root) + "/" + kind
	if label != "" {
		return base + "[" + label + "]"
	}
	if ord > 0 {
		return fmt.Sprintf("%s#%d", base, ord)
	}
	return base
}

func pkgShort(p string) string {
	p = strings.TrimPrefix(p, modulePrefix+"/")
	return p
}

// assert records a proof obligation instance and then assumes the goal.
func (x *Exec) assert(st *State, name, kind, text, src string, goal Term, counts bool) {
	o := x.obls[name]
	if o == nil {
		o = &Obligation{Name: name, Kind: kind, Text: text, Src: src, Counts: counts}
		x.obls[name] = o
		x.oblOrder = append(x.oblOrder, name)
	}
	if goal.S != "true" {
		o.Instances = append(o.Instances, OblInstance{PC: append([]Term(nil), st.pc...), Goal: goal, Trail: append([]string(nil), st.trail...), Observes: x.curObs, Small: x.curSmall})
	} else if len(o.Instances) == 0 {
		// keep a trivially-true instance so the obligation is known to be reachable
		o.Instances = append(o.Instances, OblInstance{PC: nil, Goal: tTrue})
	}
	st.assume(goal)
}

// ---------- loops ----------

type loopInfo struct {
	headers map[*ssa.BasicBlock]int               // header -> ordinal (1-based, by block index)
	body    map[*ssa.BasicBlock][]*ssa.BasicBlock // header -> blocks of the natural loop
}

func (x *Exec) loops(fn *ssa.Function) *loopInfo {
	if li, ok := x.loopInfo[fn]; ok {
		return li
	}
	li := &loopInfo{headers: map[*ssa.BasicBlock]int{}, body: map[*ssa.BasicBlock][]*ssa.BasicBlock{}}
	var hs []*ssa.BasicBlock
	for _, b := range fn.Blocks {
		for _, s := range b.Succs {
			if s.Dominates(b) { // back edge b -> s
				if _, ok := li.body[s]; !ok {
					hs = append(hs, s)
					li.body[s] = nil
				}
				// natural loop: s plus all nodes that reach b without passing s
				seen := map[*ssa.BasicBlock]bool{s: true}
				var stack []*ssa.BasicBlock
				if !seen[b] {
					seen[b] = true
					stack = append(stack, b)
				}
				for len(stack) > 0 {
					n := stack[len(stack)-1]
					stack = stack[:len(stack)-1]
					for _, p := range n.Preds {
						if !seen[p] {
							seen[p] = true
							stack = append(stack, p)
						}
					}
				}
				have := map[*ssa.BasicBlock]bool{}
				for _, bb := range li.body[s] {
					have[bb] = true
				}
				for bb := range seen {
					if !have[bb] {
						li.body[s] = append(li.body[s], bb)
					}
				}
			}
		}
	}
	sort.Slice(hs, func(i, j int) bool { return hs[i].Index < hs[j].Index })
	for i, h := range hs {
		li.headers[h] = i + 1
		sort.Slice(li.body[h], func(a, b int) bool { return li.body[h][a].Index < li.body[h][b].Index })
	}
	x.loopInfo[fn] = li
	return li
}

// ---------- values of SSA operands ----------

func (x *Exec) val(st *State, fr *Frame, v ssa.Value) Value {
	switch v := v.(type) {
	case *ssa.Const:
		return x.constVal(v)
	case *ssa.Global:
		return x.globalPtr(v)
	case *ssa.Function:
		return x.funcValue(v, nil)
	case *ssa.Builtin:
		return FuncV{ID: Term{"0", SInt}, Typ: v.Type()}
	}
	if r, ok := fr.regs[v]; ok {
		return r
	}
	panic(engineErr("no value for %s (%T) in %s", v.Name(), v, fr.fn))
}

func (x *Exec) funcValue(fn *ssa.Function, bind []Value) FuncV {
	name := "fn_" + sanitize(fn.String())
	if len(bind) > 0 {
		x.sym.counter++
		name = fmt.Sprintf("%s!c%d", name, x.sym.counter)
	}
	id := x.sym.declareConst(name, SInt)
	fv := FuncV{ID: id, Fn: fn, Bind: bind, Typ: fn.Signature}
	x.closures[id.S] = fv
	return fv
}

func (x *Exec) globalPtr(g *ssa.Global) PtrV {
	id, ok := x.globalIDs[g]
	if !ok {
		id = len(x.globalIDs) + 1
		x.globalIDs[g] = id
	}
	elem := g.Type().(*types.Pointer).Elem()
	return PtrV{Base: intLit(int64(-id)), Root: elem, Typ: g.Type()}
}

func (x *Exec) constVal(c *ssa.Const) Value {
	t := c.Type()
	if c.Value == nil {
		return x.zeroValue(t)
	}
	switch u := t.Underlying().(type) {
	case *types.Basic:
		switch {
		case u.Info()&types.IsBoolean != 0:
			return Scalar{boolLit(constant.BoolVal(c.Value)), t}
		case u.Info()&types.IsInteger != 0:
			iv := constant.ToInt(c.Value)
			if i64, ok := constant.Int64Val(iv); ok {
				return Scalar{intLit(i64), t}
			}
			b, _ := new(big.Int).SetString(iv.ExactString(), 10)
			return Scalar{bigLit(b), t}
		case u.Info()&types.IsFloat != 0:
			r, ok := new(big.Rat).SetString(constant.ToFloat(c.Value).ExactString())
			if !ok {
				panic(engineErr("float const %s", c.Value))
			}
			// the compiled code holds the nearest float64 (float32), not the exact decimal
			if u.Kind() == types.Float32 {
				f := new(big.Float).SetPrec(24).SetMode(big.ToNearestEven).SetRat(r)
				if rr, _ := f.Rat(nil); rr != nil {
					r = rr
				}
			} else {
				r = roundToFloat64(r)
			}
			return Scalar{realLitRat(r), t}
		case u.Info()&types.IsString != 0:
			return Scalar{x.sym.strConst(constant.StringVal(c.Value)), t}
		}
	}
	panic(engineErr("unsupported constant %s of type %s", c.Value, t))
}

// ---------- driver for one function ----------

func (x *Exec) fail(msg string) {
	x.errs = append(x.errs, msg)
}

// verifyFunc symbolically executes fn against its contract c.
func (x *Exec) verifyFunc(fn *ssa.Function, c *FuncContract) {
	x.root, x.rootC = fn, c
	defer func() {
		if r := recover(); r != nil {
			if ee, ok := r.(engineError); ok {
				x.fail(fmt.Sprintf("%s: engine: %s", relName(fn), ee.msg))
				return
			}
			panic(r)
		}
	}()
	if fn.Blocks == nil {
		x.fail(relName(fn) + ": no body")
		return
	}
	// dynamic types the function itself tells apart or boxes: known up front, so that what is assumed about "does this
	// dynamic type implement that interface" does not depend on the order in which paths are explored
	for _, b := range fn.Blocks {
		for _, in := range b.Instrs {
			switch v := in.(type) {
			case *ssa.TypeAssert:
				if _, isIface := v.AssertedType.Underlying().(*types.Interface); !isIface {
					x.typeID(v.AssertedType)
				}
			case *ssa.MakeInterface:
				if _, isIface := v.X.Type().Underlying().(*types.Interface); !isIface {
					x.typeID(v.X.Type())
				}
			}
		}
	}
	// a `let` named like a parameter would be ambiguous in every clause: refuse it (a `let` named like a local is
	// allowed and shadows the local, see lookupVar)
	if c != nil && len(c.Lets) > 0 {
		names := map[string]bool{}
		for _, p := range fn.Params {
			names[p.Name()] = true
		}
		for _, p := range fn.FreeVars {
			names[p.Name()] = true
		}
		for _, l := range c.Lets {
			if names[l.Label] {
				panic(engineErr("let %s has the name of a parameter of the function: rename it (%s)", l.Label, l.Src))
			}
		}
	}
	st := newState()
	fr := &Frame{fn: fn, regs: map[ssa.Value]Value{}, env: map[string]envEntry{}, loopSeen: map[*ssa.BasicBlock]bool{}}
	params := map[string]Value{}
	addrParams := map[string]PtrV{}
	for _, p := range fn.Params {
		v := x.namedValue(st, "p_"+p.Name(), p.Type())
		fr.regs[p] = v
		params[p.Name()] = v
		fr.env[p.Name()] = envEntry{v: v}
	}
	for _, fv := range fn.FreeVars {
		v := x.namedValue(st, "fv_"+fv.Name(), fv.Type())
		fr.regs[fv] = v
		// free variables are pointers to the captured variables
		if pv, ok := v.(PtrV); ok {
			addrParams[fv.Name()] = pv
			st.assume(not(eq(pv.Base, intLit(0))))
		}
		fr.env[fv.Name()] = envEntry{v: v, isAddr: true}
	}
	// calls(f) counts the calls made through parameter f: distinct function-typed parameters are
	// treated as distinct functions (origin-based accounting)
	{
		var ids []Term
		for _, p := range fn.Params {
			if fv, ok := params[p.Name()].(FuncV); ok {
				ids = append(ids, fv.ID)
			}
		}
		for i := 0; i < len(ids); i++ {
			for j := i + 1; j < len(ids); j++ {
				st.assume(not(eq(ids[i], ids[j])))
			}
		}
		if len(ids) > 1 {
			x.sym.note("distinct function-typed parameters are treated as distinct functions when counting calls")
		}
	}
	// captured variables are distinct variables, hence distinct cells
	{
		var names []string
		for n := range addrParams {
			names = append(names, n)
		}
		sort.Strings(names)
		for i := 0; i < len(names); i++ {
			for j := i + 1; j < len(names); j++ {
				a, b := addrParams[names[i]], addrParams[names[j]]
				if typeKey(a.Root) == typeKey(b.Root) {
					st.assume(not(eq(a.Base, b.Base)))
				}
			}
		}
	}
	st.frames = []*Frame{fr}
	fr.block = fn.Blocks[0]
	// lets and requires in the pre-state
	sc := x.specCtxFor(st, fr, nil)
	sc.addrVars = addrParams
	for _, r := range c.Requires {
		st.assume(x.evalBool(sc, r.Expr))
	}
	for _, a := range c.Assumes {
		st.assume(x.evalBool(sc, a.Expr))
		x.trusted["assume in "+relName(fn)+": "+a.Text] = true
	}
	fr.pre = &preSnap{heap: copyHeap(st.heap), params: params, nEvent: 0, addrParams: addrParams}
	// vacuity: the precondition must be satisfiable
	x.addCover(x.oblName("requires-sat", 0, ""), st)
	x.explore(st)
}

func copyLets(m map[string]Value) map[string]Value {
	n := make(map[string]Value, len(m)+1)
	for k, v := range m {
		n[k] = v
	}
	return n
}

func copyHeap(h map[string]Term) map[string]Term {
	n := make(map[string]Term, len(h))
	for k, v := range h {
		n[k] = v
	}
	return n
}

// addCover registers a satisfiability (non-vacuity) query: the path condition must be sat.
func (x *Exec) addCover(name string, st *State) {
	o := x.obls[name]
	if o == nil {
		o = &Obligation{Name: name, Kind: "cover", Counts: true}
		x.obls[name] = o
		x.oblOrder = append(x.oblOrder, name)
	}
	o.Instances = append(o.Instances, OblInstance{PC: append([]Term(nil), st.pc...), Goal: tFalse, Trail: append([]string(nil), st.trail...)})
}

// addCoverAny: at least one of the registered path conditions must be satisfiable (some normal exit of the
// function is reachable under its precondition and the assumed callee contracts: guards against assumptions
// that silently kill every path).
func (x *Exec) addCoverAny(name string, st *State) {
	o := x.registerCoverAny(name, "some normal exit is reachable (non-vacuity)")
	o.Instances = append(o.Instances, OblInstance{PC: append([]Term(nil), st.pc...), Goal: tFalse, Trail: append([]string(nil), st.trail...)})
}

// registerCoverAny creates the cover obligation without an instance: if no path ever adds one, it fails as vacuous.
func (x *Exec) registerCoverAny(name, text string) *Obligation {
	o := x.obls[name]
	if o == nil {
		o = &Obligation{Name: name, Kind: "cover-any", Counts: true, Text: text}
		x.obls[name] = o
		x.oblOrder = append(x.oblOrder, name)
	}
	return o
}

// coverAntecedent: a clause `A ==> B` says nothing where A cannot hold. For every such clause the obligation
// `<clause>/antecedent-reachable` requires A to be satisfiable at some exit (or back edge) where it is defined.
func (x *Exec) coverAntecedent(st *State, sc *specCtx, name string, e ast.Expr) {
	ce, ok := e.(*ast.CallExpr)
	if !ok {
		return
	}
	id, ok := ce.Fun.(*ast.Ident)
	if !ok || id.Name != "implies" || len(ce.Args) != 2 {
		return
	}
	if strings.Contains(name, "[alt-") {
		// a clause labelled alt-...: it speaks about an alternative way of doing the same thing that the code need not
		// take (e.g. encoding with an Encoder instead of Marshal), so an unreachable guard is not a vacuity alarm
		return
	}
	cname := name + "/antecedent-reachable"
	o := x.registerCoverAny(cname, "the clause's antecedent can hold (the clause is not vacuous)")
	var a Term
	func() {
		defer func() {
			if r := recover(); r != nil {
				if _, isPoison := r.(poisonSignal); isPoison {
					a = tFalse
					return
				}
				panic(r)
			}
		}()
		v := x.evalSpec(sc, ce.Args[0])
		if isPoison(v) {
			a = tFalse
			return
		}
		a = v.(Scalar).T
	}()
	if a.S == "false" || strings.Contains(a.S, "undefined!") {
		return // not defined on this path (a ghost query without answer): does not count as reachable
	}
	pc := append(append([]Term(nil), st.pc...), a)
	o.Instances = append(o.Instances, OblInstance{PC: pc, Goal: tFalse, Trail: append([]string(nil), st.trail...)})
}

func (x *Exec) explore(st0 *State) {
	work := []*State{st0}
	for len(work) > 0 {
		st := work[len(work)-1]
		work = work[:len(work)-1]
		x.nPaths++
		if x.nPaths > x.maxPaths {
			panic(engineErr("path limit %d exceeded", x.maxPaths))
		}
		for !st.dead && len(st.frames) > 0 {
			forks := x.step(st)
			if len(forks) > 0 {
				work = append(work, forks...)
			}
		}
	}
}

// step executes one instruction of the top frame. It may return forked states.
func (x *Exec) step(st *State) []*State {
	fr := st.top()
	if fr.unwinding {
		return x.unwind(st, fr)
	}
	if fr.idx >= len(fr.block.Instrs) {
		panic(engineErr("fell off block %d of %s", fr.block.Index, fr.fn))
	}
	instr := fr.block.Instrs[fr.idx]
	fr.idx++
	switch in := instr.(type) {
	case *ssa.DebugRef:
		x.debugRef(st, fr, in)
	case *ssa.Alloc:
		fr.regs[in] = x.alloc(st, in.Type().(*types.Pointer).Elem(), in.Type())
		if in.Comment != "" {
			fr.env[in.Comment] = envEntry{v: fr.regs[in], isAddr: true, pos: in.Pos()}
		}
	case *ssa.Phi:
		// handled at block entry
	case *ssa.BinOp:
		fr.regs[in] = x.binop(st, fr, in.Op, x.val(st, fr, in.X), x.val(st, fr, in.Y), in.Type())
	case *ssa.UnOp:
		return x.unop(st, fr, in)
	case *ssa.Call:
		return x.call(st, fr, in, in.Common())
	case *ssa.ChangeInterface:
		v := x.val(st, fr, in.X).(IfaceV)
		v.Typ = in.Type()
		fr.regs[in] = v
	case *ssa.ChangeType:
		fr.regs[in] = retype(x.val(st, fr, in.X), in.Type())
	case *ssa.Convert:
		fr.regs[in] = x.convert(st, x.val(st, fr, in.X), in.Type())
	case *ssa.MakeInterface:
		fr.regs[in] = x.makeIface(st, x.val(st, fr, in.X), in.X.Type(), in.Type())
	case *ssa.MakeClosure:
		bind := make([]Value, len(in.Bindings))
		for i, b := range in.Bindings {
			bind[i] = x.val(st, fr, b)
		}
		fr.regs[in] = x.funcValue(in.Fn.(*ssa.Function), bind)
		x.checkClosureRequires(st, fr, in, bind)
	case *ssa.Extract:
		fr.regs[in] = x.val(st, fr, in.Tuple).(TupleV).Elems[in.Index]
	case *ssa.Field:
		fr.regs[in] = x.val(st, fr, in.X).(StructV).Fields[in.Field]
	case *ssa.FieldAddr:
		p := x.val(st, fr, in.X).(PtrV)
		x.nilCheck(st, p, "field address "+in.Name())
		np := PtrV{Base: p.Base, Root: p.Root, Path: append(append([]int(nil), p.Path...), in.Field), Typ: in.Type(), Elem: p.Elem, Idx: p.Idx}
		fr.regs[in] = np
	case *ssa.Store:
		p := x.val(st, fr, in.Addr).(PtrV)
		x.nilCheck(st, p, "store")
		x.storeP(st, p, x.val(st, fr, in.Val))
	case *ssa.If:
		return x.branch(st, fr, in)
	case *ssa.Jump:
		x.enterBlock(st, fr, fr.block.Succs[0])
	case *ssa.Return:
		res := make([]Value, len(in.Results))
		for i, r := range in.Results {
			res[i] = x.val(st, fr, r)
		}
		x.doReturn(st, fr, res)
	case *ssa.RunDefers:
		if len(fr.defers) > 0 {
			d := fr.defers[len(fr.defers)-1]
			fr.defers = fr.defers[:len(fr.defers)-1]
			fr.idx-- // come back here
			return x.invokeDeferred(st, fr, d)
		}
	case *ssa.Defer:
		x.pushDefer(st, fr, in)
	case *ssa.Panic:
		x.startPanic(st, fr, x.val(st, fr, in.X))
	case *ssa.TypeAssert:
		return x.typeAssert(st, fr, in)
	case *ssa.IndexAddr:
		x.indexAddr(st, fr, in)
	case *ssa.Index:
		x.index(st, fr, in)
	case *ssa.Slice:
		x.sliceOp(st, fr, in)
	case *ssa.MakeSlice:
		x.makeSlice(st, fr, in)
	case *ssa.MakeMap:
		x.makeMap(st, fr, in)
	case *ssa.MakeChan:
		ref := x.allocRef(st)
		fr.regs[in] = Scalar{ref, in.Type()}
		capv := x.val(st, fr, in.Size).(Scalar).T
		arr := x.heapArr(st, "CHANCAP", arrSort(SInt, SInt))
		x.setHeap(st, "CHANCAP", sto(arr, ref, capv))
	case *ssa.Lookup:
		x.lookup(st, fr, in)
	case *ssa.MapUpdate:
		x.mapUpdate(st, fr, in)
	case *ssa.Range:
		x.rangeOp(st, fr, in)
	case *ssa.Next:
		return x.nextOp(st, fr, in)
	case *ssa.Go:
		x.goStmt(st, fr, in)
	case *ssa.Send:
		ch := x.val(st, fr, in.Chan)
		v := x.val(st, fr, in.X)
		x.chanEvent(st, "send", ch, []Value{v}, nil)
	case *ssa.Select:
		return x.selectOp(st, fr, in)
	default:
		panic(engineErr("unsupported instruction %T: %s", instr, instr))
	}
	return nil
}

func retype(v Value, t types.Type) Value {
	switch v := v.(type) {
	case Scalar:
		v.Typ = t
		return v
	case PtrV:
		v.Typ = t
		// a conversion between pointer types with identical underlying pointee (e.g. (*int64)(d) for
		// d *AtomicDuration) keeps designating the same object: the heap key stays that of the origin type
		if p, ok := t.Underlying().(*types.Pointer); ok && len(v.Path) == 0 && !v.Elem && !types.Identical(p.Elem().Underlying(), v.Root.Underlying()) {
			v.Root = p.Elem()
		}
		return v
	case SliceV:
		v.Typ = t
		return v
	case IfaceV:
		v.Typ = t
		return v
	case StructV:
		v.Typ = t
		return v
	case FuncV:
		v.Typ = t
		return v
	}
	return v
}

func (x *Exec) debugRef(st *State, fr *Frame, in *ssa.DebugRef) {
	id, ok := in.Expr.(*ast.Ident)
	if !ok || in.X == nil {
		return
	}
	if _, isFn := in.X.(*ssa.Function); isFn {
		return
	}
	if _, isB := in.X.(*ssa.Builtin); isB {
		return
	}
	if obj, ok := in.Object().(*types.Var); !ok || obj.IsField() {
		return // only variables: field selectors also get DebugRefs
	}
	v, ok2 := fr.regs[in.X]
	if !ok2 {
		switch in.X.(type) {
		case *ssa.Const, *ssa.Global:
			v = x.val(st, fr, in.X)
		default:
			return
		}
	}
	if old, ok := fr.env[id.Name]; ok && old.isAddr && !in.IsAddr {
		// the variable lives in a heap cell (captured / address taken): value snapshots at single reads
		// must not replace the address binding - unless this is a different variable of the same name
		// (e.g. the `kv` of a later loop), which then becomes the current meaning of the name
		if old.pos == token.NoPos || old.pos == in.Object().Pos() {
			return
		}
	}
	fr.env[id.Name] = envEntry{v: v, isAddr: in.IsAddr, pos: in.Object().Pos()}
}

func (x *Exec) safetyOn() bool { return x.rootC != nil && x.rootC.Safety }

// safetyKind: is this kind of run-time check a proof obligation in the function under verification?
func (x *Exec) safetyKind(kind string) bool {
	if x.rootC == nil || x.rootC.SafetyOff {
		return false
	}
	if x.rootC.Safety || x.rootC.SafetyKinds[kind] {
		return true
	}
	if x.rootC.SafetyKinds["-"+kind] {
		return false // `safety -divzero`: a default kind declared out of scope for this function (with the reason)
	}
	return defaultSafety[kind]
}

// run-time checks proved in every function under contract unless its contract says otherwise: index / slice
// bounds, integer division by zero, writes to nil maps and make() sizes (GOVC_SAFETY overrides the list; nil
// dereference and type assertions are opt-in per contract with `safety <kinds>` / `safety on`; `safety -kind`
// takes a default kind out for one function)
var defaultSafety = func() map[string]bool {
	m := map[string]bool{}
	list, set := os.LookupEnv("GOVC_SAFETY")
	if !set {
		list = "bounds divzero nilmap makeslice"
	}
	for _, k := range strings.Fields(strings.ReplaceAll(list, ",", " ")) {
		m[k] = true
	}
	return m
}()

func (x *Exec) nilCheck(st *State, p PtrV, what string) {
	if p.Elem || isLiteral(p.Base.S) || strings.HasPrefix(p.Base.S, "(+ ALLOC0") {
		return
	}
	nz := not(eq(p.Base, intLit(0)))
	if x.safetyKind("nil") {
		x.safety(st, "nil", what, nz)
	} else {
		st.assume(nz)
	}
}

func (x *Exec) safety(st *State, kind, what string, goal Term) {
	x.callOrd["safety:"+kind]++
	// stable name: kind + the top frame's function + instruction ordinal of that kind in that function
	fr := st.top()
	name := x.oblName("safety", 0, fmt.Sprintf("%s:%s@%s.b%d.%d", kind, what, relName(fr.fn), fr.block.Index, fr.idx))
	// the values a replay needs, as far as they are defined at this point of the path
	if x.rootC != nil && len(x.rootC.Observes) > 0 && x.curObs == nil {
		root := st.frames[0]
		sc := x.specCtxFor(st, root, root.pre)
		for _, ob := range x.rootC.Observes {
			func() {
				defer func() {
					if r := recover(); r != nil {
						if _, ok := r.(poisonSignal); ok {
							return
						}
						panic(r)
					}
				}()
				x.evalObserve(sc, ob)
			}()
		}
		defer func() { x.curObs = nil }()
	}
	x.assert(st, name, "safety", what, "", goal, true)
}

func (x *Exec) storeP(st *State, p PtrV, v Value) {
	if p.AIdx != nil {
		q := p
		q.AIdx, q.AElem = nil, nil
		whole := x.loadP(st, q).(Scalar)
		ts := x.flatten(v)
		if len(ts) != 1 {
			panic(engineErr("array field element of composite type unsupported"))
		}
		x.storeP(st, q, Scalar{sto(whole.T, *p.AIdx, ts[0]), whole.Typ})
		return
	}
	if p.Elem {
		x.storeElem(st, p, v)
		return
	}
	x.store(st, p, v)
}

func (x *Exec) loadP(st *State, p PtrV) Value {
	if p.AIdx != nil {
		q := p
		q.AIdx, q.AElem = nil, nil
		whole := x.loadP(st, q).(Scalar)
		v, _ := x.unflatten(p.AElem, []Term{sel(whole.T, *p.AIdx)})
		x.assumeWellTyped(st, v)
		return v
	}
	if p.Elem {
		return x.loadElem(st, p)
	}
	return x.load(st, p)
}

// ---------- control flow ----------

func (x *Exec) branch(st *State, fr *Frame, in *ssa.If) []*State {
	c := x.val(st, fr, in.Cond).(Scalar).T
	tb, fb := fr.block.Succs[0], fr.block.Succs[1]
	if c.S == "true" {
		x.enterBlock(st, fr, tb)
		return nil
	}
	if c.S == "false" {
		x.enterBlock(st, fr, fb)
		return nil
	}
	other := st.clone()
	ofr := other.top()
	desc := fmt.Sprintf("%s.b%d", relName(fr.fn), fr.block.Index)
	st.assume(c)
	st.trail = append(st.trail, desc+":T")
	x.enterBlock(st, fr, tb)
	other.assume(not(c))
	other.trail = append(other.trail, desc+":F")
	x.enterBlock(other, ofr, fb)
	return []*State{other}
}

func (x *Exec) enterBlock(st *State, fr *Frame, target *ssa.BasicBlock) {
	from := fr.block
	fr.prev = from
	fr.block = target
	fr.idx = 0
	// phis
	edge := -1
	for i, p := range target.Preds {
		if p == from {
			edge = i
			break
		}
	}
	var phis []*ssa.Phi
	for _, instr := range target.Instrs {
		phi, ok := instr.(*ssa.Phi)
		if !ok {
			break
		}
		phis = append(phis, phi)
	}
	vals := make([]Value, len(phis))
	for i, phi := range phis {
		vals[i] = x.val(st, fr, phi.Edges[edge])
	}
	for i, phi := range phis {
		fr.regs[phi] = vals[i]
		if phi.Comment != "" {
			fr.env[phi.Comment] = envEntry{v: vals[i]}
		}
	}
	fr.idx = len(phis)
	li := x.loops(fr.fn)
	ord, isHeader := li.headers[target]
	if !isHeader {
		return
	}
	x.loopHeader(st, fr, target, ord, phis, li)
}

func (x *Exec) loopSpecFor(fn *ssa.Function, ord int) *LoopSpec {
	c := x.contractOf(fn)
	if fn == x.root {
		c = x.rootC
	}
	if c == nil {
		return nil
	}
	return c.Loops[ord]
}

func (x *Exec) loopHeader(st *State, fr *Frame, h *ssa.BasicBlock, ord int, phis []*ssa.Phi, li *loopInfo) {
	spec := x.loopSpecFor(fr.fn, ord)
	fname := relName(fr.fn)
	kindPrefix := fmt.Sprintf("loop%d", ord)
	if fr.fn != x.root {
		kindPrefix = fmt.Sprintf("%s.loop%d", fname, ord)
	}
	sc := x.specCtxFor(st, fr, fr.pre)
	sc.preferEnv = true
	if fr.loopSeen[h] {
		// back edge: invariant must be re-established; path ends
		if spec != nil {
			for i, inv := range spec.Invariants {
				x.assert(st, x.oblName(kindPrefix+"/step", i+1, inv.Label), "invariant-step", inv.Text, inv.Src, x.evalBool(sc, inv.Expr), true)
			}
			if len(spec.IterEnsures) > 0 {
				x.addCoverAny(x.oblName(kindPrefix+"/iteration-reachable", 0, ""), st)
				isc := x.specCtxFor(st, fr, fr.pre)
				isc.preferEnv = true
				isc.evFrom = fr.loopEv[h]
				isc.head = fr.loopSnap[h]
				for i, ie := range spec.IterEnsures {
					x.coverAntecedent(st, isc, x.oblName(kindPrefix+"/iteration", i+1, ie.Label), ie.Expr)
					x.assert(st, x.oblName(kindPrefix+"/iteration", i+1, ie.Label), "iteration-ensures", ie.Text, ie.Src, x.evalBool(isc, ie.Expr), true)
				}
			}
		}
		st.dead = true
		return
	}
	fr.loopSeen[h] = true
	if fr.loopEv == nil {
		fr.loopEv = map[*ssa.BasicBlock]int{}
	} else {
		m := make(map[*ssa.BasicBlock]int, len(fr.loopEv)+1)
		for k, v := range fr.loopEv {
			m[k] = v
		}
		fr.loopEv = m
	}
	fr.loopEv[h] = len(st.events)
	if spec != nil && len(spec.IterEnsures) > 0 {
		x.registerCoverAny(x.oblName(kindPrefix+"/iteration-reachable", 0, ""), "some complete iteration of the loop is reachable (the per-iteration clauses are not vacuous)")
	}
	if spec != nil {
		for i, en := range spec.Entry {
			x.assert(st, x.oblName(kindPrefix+"/entry", i+1, en.Label), "loop-entry", en.Text, en.Src, x.evalBool(sc, en.Expr), true)
		}
		for i, inv := range spec.Invariants {
			x.assert(st, x.oblName(kindPrefix+"/init", i+1, inv.Label), "invariant-init", inv.Text, inv.Src, x.evalBool(sc, inv.Expr), true)
		}
	} else {
		x.sym.note(fmt.Sprintf("loop %d of %s has no invariant: its effects are havocked", ord, fname))
	}
	// havoc: phis and heap locations assigned in the loop
	for _, phi := range phis {
		nv := x.freshValue(st, "loop_"+phi.Comment, phi.Type())
		fr.regs[phi] = nv
		if phi.Comment != "" {
			fr.env[phi.Comment] = envEntry{v: nv}
		}
		if phi.Comment == "rangeindex" {
			// the hidden index of a `range` loop over a slice / array / integer starts at -1 and only ever grows by
			// one per iteration (go/ssa's lowering): -1 <= index is an invariant by construction
			if sv, ok := nv.(Scalar); ok && isRangeIndexPhi(phi) {
				st.assume(mk(SBool, "<=", intLit(-1), sv.T))
			}
		}
	}
	// map iterators advanced inside the loop: after an arbitrary number of iterations an arbitrary set of keys
	// has been visited
	for _, b := range li.body[h] {
		for _, instr := range b.Instrs {
			if nx, ok := instr.(*ssa.Next); ok {
				if it, ok := fr.regs[nx.Iter].(IterV); ok && (it.MT != nil || it.Str) {
					it.Visited = x.sym.fresh("visited", it.Visited.Sort)
					fr.regs[nx.Iter] = it
				}
			}
		}
	}
	if spec != nil && spec.HasMod {
		x.havocItems(st, sc, spec.Modifies)
	} else {
		x.havocLoopWrites(st, fr, li.body[h])
	}
	// the events of the iterations already run: an unknown number of each kind the body can emit
	toks, wild, dyn := x.loopEventTokens(fr.fn, li.body[h], fr.fn != x.root)
	x.nSummary++
	st.events = append(st.events, &Event{Kind: "loop-summary", Name: fmt.Sprintf("loop-summary#%d", x.nSummary), Index: len(st.events), Tokens: toks, Wild: wild, Dyn: dyn, ID: x.nSummary, Root: fr.fn == x.root, LoopOrd: li.headers[h]})
	fr.loopEv[h] = len(st.events)
	if spec != nil {
		sc2 := x.specCtxFor(st, fr, fr.pre)
		sc2.preferEnv = true
		for _, inv := range spec.Invariants {
			st.assume(x.evalBool(sc2, inv.Expr))
		}
	}
	snap := &headSnap{heap: copyHeap(st.heap), env: make(map[string]envEntry, len(fr.env)), allocN: st.allocN}
	for k, v := range fr.env {
		snap.env[k] = v
	}
	ns := make(map[*ssa.BasicBlock]*headSnap, len(fr.loopSnap)+1)
	for k, v := range fr.loopSnap {
		ns[k] = v
	}
	ns[h] = snap
	fr.loopSnap = ns
}

// loopEventTokens: names of the events the loop body can emit (its own operations and those of the callees that
// are executed inline), syntactically. wild: something was called whose events cannot be named; dyn: a call
// through a function value.
func (x *Exec) loopEventTokens(fn *ssa.Function, body []*ssa.BasicBlock, inlined bool) (map[string]bool, bool, bool) {
	toks := map[string]bool{}
	wild, dyn := false, false
	seen := map[*ssa.Function]bool{fn: true}
	var scanBlocks func(bs []*ssa.BasicBlock, depth int, inl bool)
	scanBlocks = func(bs []*ssa.BasicBlock, depth int, inl bool) {
		for _, b := range bs {
			for _, instr := range b.Instrs {
				switch in := instr.(type) {
				case *ssa.Send:
					toks["send"] = true
				case *ssa.UnOp:
					if in.Op == token.ARROW {
						toks["recv"] = true
					}
				case *ssa.Select:
					toks["poll"], toks["send"], toks["recv"] = true, true, true
				case *ssa.Panic:
					toks["panic"] = true
				case ssa.CallInstruction:
					com := in.Common()
					_, isGo := instr.(*ssa.Go)
					if isGo {
						toks["go"] = true
					}
					if bi, ok := com.Value.(*ssa.Builtin); ok {
						toks[bi.Name()] = true
						continue
					}
					if com.IsInvoke() {
						toks[com.Method.Name()] = true
						if isGo {
							toks["go "+com.Method.Name()] = true
						}
						if _, ok := com.Value.(*ssa.MakeInterface); ok {
							wild = true // dispatched statically to a method body whose events are not named here
						}
						continue
					}
					var callee *ssa.Function
					switch cv := com.Value.(type) {
					case *ssa.Function:
						callee = cv
					case *ssa.MakeClosure:
						callee = cv.Fn.(*ssa.Function)
					}
					if callee == nil {
						toks[funcValueName(com.Value)] = true
						toks[com.Value.Name()] = true
						if inl {
							wild = true // the function value may be a known closure of the caller, run inline
						} else {
							dyn = true
						}
						continue
					}
					rn := relName(callee)
					toks[callee.Name()], toks[rn], toks[callee.String()] = true, true, true
					if isGo {
						toks["go "+rn] = true
						continue // the goroutine's own events are not part of this thread's trace
					}
					if name := intrinsicName(callee); name != "" {
						toks[name] = true
						m := name[strings.LastIndex(name, ".")+1:]
						switch {
						case strings.Contains(name, "Mutex)."):
							toks["lock"], toks["unlock"] = true, true
						case strings.Contains(name, "WaitGroup)."):
							toks["wg"], toks["wg."+m] = true, true
						case strings.HasPrefix(name, "sync/atomic."):
							toks["atomic"], toks["atomic."+m] = true, true
						case strings.HasPrefix(name, "timex."), strings.Contains(name, "timex."):
							toks["timex.Now"], toks["Now"] = true, true
						}
						toks[m] = true
						continue
					}
					if x.rootC != nil && (x.rootC.Opaque[rn] || x.rootC.Opaque[callee.Name()]) {
						continue
					}
					if x.rootC != nil && x.rootC.Folds != nil {
						if _, ok := x.rootC.Folds[callee.Name()]; ok {
							wild = true
							continue
						}
					}
					if c := x.contractOf(callee); c != nil && !c.InlineAlways {
						continue
					}
					if callee.Blocks == nil || !(x.isModuleFunc(callee) || inlineStd[callee.String()]) {
						continue
					}
					if seen[callee] {
						continue
					}
					if depth >= 8 {
						wild = true
						continue
					}
					seen[callee] = true
					scanBlocks(callee.Blocks, depth+1, true)
				}
			}
		}
	}
	scanBlocks(body, 0, inlined)
	return toks, wild, dyn
}

// isRangeIndexPhi: phi(-1, phi + 1), the shape go/ssa gives the index of a range loop.
func isRangeIndexPhi(phi *ssa.Phi) bool {
	okInit, okStep := false, false
	for _, e := range phi.Edges {
		switch v := e.(type) {
		case *ssa.Const:
			if v.Value == nil || v.Value.ExactString() != "-1" || okInit {
				return false
			}
			okInit = true
		case *ssa.BinOp:
			c, isC := v.Y.(*ssa.Const)
			if v.Op != token.ADD || v.X != ssa.Value(phi) || !isC || c.Value == nil || c.Value.ExactString() != "1" {
				return false
			}
			okStep = true
		default:
			return false
		}
	}
	return okInit && okStep
}

// havocLoopWrites havocs every heap location that the loop body may assign (syntactic over-approximation).
func (x *Exec) havocLoopWrites(st *State, fr *Frame, body []*ssa.BasicBlock) {
	inLoop := map[*ssa.BasicBlock]bool{}
	for _, b := range body {
		inLoop[b] = true
	}
	scanInstr, _ := x.writeScanner(st, fr, inLoop, false)
	for _, b := range body {
		for _, instr := range b.Instrs {
			scanInstr(instr, true, 0)
		}
	}
}

// concurrentWrites: the heap arrays (by static type of the written location) that a goroutine running fn may
// write: its own stores and those of the functions it calls; a call it makes through an interface or a function
// value may write every field of the structs it is handed a pointer to.
func (x *Exec) concurrentWrites(fn *ssa.Function) map[string]Sort {
	tmp := newState()
	_, scanFn := x.writeScanner(tmp, nil, nil, true)
	scanFn(fn, 0)
	out := map[string]Sort{}
	for k := range tmp.written {
		out[k] = tmp.heap[k].Sort
	}
	return out
}

func (x *Exec) writeScanner(st *State, fr *Frame, inLoop map[*ssa.BasicBlock]bool, conc bool) (func(instr ssa.Instruction, local bool, depth int), func(fn *ssa.Function, depth int)) {
	seenFn := map[*ssa.Function]bool{}
	var scanFn func(fn *ssa.Function, depth int)
	havocAddr := func(addr ssa.Value, local bool) {
		// precise when the address is a register computed before the loop
		if local {
			if v, ok := fr.regs[addr]; ok {
				if instr, ok2 := addr.(ssa.Instruction); ok2 && !inLoop[instr.Block()] {
					if p, ok3 := v.(PtrV); ok3 && !p.Elem {
						nv := x.freshValue(st, "loopw", pointee(p))
						x.store(st, p, nv)
						return
					}
				}
				if _, isParam := addr.(*ssa.Parameter); isParam {
					if p, ok3 := v.(PtrV); ok3 && !p.Elem {
						x.store(st, p, x.freshValue(st, "loopw", pointee(p)))
						return
					}
				}
				if _, isFV := addr.(*ssa.FreeVar); isFV {
					if p, ok3 := v.(PtrV); ok3 && !p.Elem {
						x.store(st, p, x.freshValue(st, "loopw", pointee(p)))
						return
					}
				}
			}
		}
		x.havocByAddrType(st, addr)
	}
	scanInstr := func(instr ssa.Instruction, local bool, depth int) {
		switch in := instr.(type) {
		case *ssa.Store:
			if conc && ownAllocation(in.Addr) {
				return // initialisation of an object the goroutine itself created
			}
			havocAddr(in.Addr, local)
		case *ssa.MapUpdate:
			mt := in.Map.Type().Underlying().(*types.Map)
			x.havocMap(st, mt)
		case ssa.CallInstruction:
			com := in.Common()
			if b, ok := com.Value.(*ssa.Builtin); ok {
				switch b.Name() {
				case "delete":
					x.havocMap(st, com.Args[0].Type().Underlying().(*types.Map))
				case "append", "copy":
					if sl, ok := com.Args[0].Type().Underlying().(*types.Slice); ok {
						x.havocElems(st, sl.Elem())
					}
				}
				return
			}
			var callee *ssa.Function
			switch cv := com.Value.(type) {
			case *ssa.Function:
				callee = cv
			case *ssa.MakeClosure:
				callee = cv.Fn.(*ssa.Function)
			}
			if callee == nil && !conc && local && !com.IsInvoke() {
				// a call through a function value inside the loop that is handed the address of a local variable
				// (the functional-options idiom `opt(&options)`): that variable is unknown after the loop
				for _, a := range com.Args {
					if al, ok := a.(*ssa.Alloc); ok {
						if _, isStruct := al.Type().Underlying().(*types.Pointer).Elem().Underlying().(*types.Struct); isStruct {
							havocAddr(al, true)
						}
					}
				}
				return
			}
			if callee == nil || (conc && callee.Blocks == nil && intrinsicName(callee) == "") {
				if conc {
					// unknown code run by the goroutine: it may write the structs it is handed
					args := com.Args
					if com.IsInvoke() {
						args = append([]ssa.Value{com.Value}, args...)
					}
					for _, a := range args {
						if mi, ok := a.(*ssa.MakeInterface); ok {
							a = mi.X // a pointer handed over inside an interface value
						}
						if pt, ok := a.Type().Underlying().(*types.Pointer); ok {
							if _, isStruct := pt.Elem().Underlying().(*types.Struct); isStruct {
								for _, l := range leavesOf(pt.Elem()) {
									x.havocKey(st, heapKeyField(pt.Elem(), l.path), arrSort(SInt, l.sort))
								}
							}
						}
					}
				}
				return
			}
			if name := intrinsicName(callee); name != "" {
				if strings.HasPrefix(name, "sync/atomic.") && len(com.Args) > 0 {
					havocAddr(com.Args[0], local)
				}
				return
			}
			if !conc && x.rootC != nil && (x.rootC.Opaque[relName(callee)] || x.rootC.Opaque[callee.Name()]) {
				// declared opaque in the function under verification: its heap effect is what `havoc-on` names
				// (applied when the call is executed), consistently with how the call itself is treated
				return
			}
			if c := x.contractOf(callee); c != nil && !c.InlineAlways {
				// effect given by its modifies clause: evaluated with receivers unknown -> whole keys
				for _, it := range c.Modifies {
					x.havocItemCoarse(st, callee, it)
				}
				return
			}
			if callee.Blocks != nil && depth < 4 {
				scanFn(callee, depth+1)
			}
		}
	}
	scanFn = func(fn *ssa.Function, depth int) {
		if seenFn[fn] {
			return
		}
		seenFn[fn] = true
		for _, b := range fn.Blocks {
			for _, instr := range b.Instrs {
				scanInstr(instr, false, depth)
			}
		}
		for _, af := range fn.AnonFuncs {
			scanFn(af, depth+1)
		}
	}
	return scanInstr, scanFn
}

// ownAllocation: the address is (a field of) an object allocated by the same function.
func ownAllocation(addr ssa.Value) bool {
	for {
		switch a := addr.(type) {
		case *ssa.Alloc:
			return true
		case *ssa.FieldAddr:
			addr = a.X
		case *ssa.IndexAddr:
			if _, isPtr := a.X.Type().Underlying().(*types.Pointer); !isPtr {
				return false
			}
			addr = a.X
		default:
			return false
		}
	}
}

func pointee(p PtrV) types.Type {
	_, t := subLeaves(p.Root, p.Path)
	return t
}

// havocByAddrType havocs all heap arrays that a store through an address of this static type may touch.
func (x *Exec) havocByAddrType(st *State, addr ssa.Value) {
	switch a := addr.(type) {
	case *ssa.FieldAddr:
		root := a.X.Type().Underlying().(*types.Pointer).Elem()
		// walk up through nested FieldAddr chains
		path := []int{a.Field}
		cur := a.X
		for {
			fa, ok := cur.(*ssa.FieldAddr)
			if !ok {
				break
			}
			path = append([]int{fa.Field}, path...)
			root = fa.X.Type().Underlying().(*types.Pointer).Elem()
			cur = fa.X
		}
		ls, _ := subLeaves(root, path)
		for _, l := range ls {
			x.havocKey(st, heapKeyField(root, l.path), arrSort(SInt, l.sort))
		}
		return
	case *ssa.IndexAddr:
		if sl, ok := a.X.Type().Underlying().(*types.Slice); ok {
			x.havocElems(st, sl.Elem())
			return
		}
	}
	pt, ok := addr.Type().Underlying().(*types.Pointer)
	if !ok {
		return
	}
	for _, l := range leavesOf(pt.Elem()) {
		x.havocKey(st, heapKeyField(pt.Elem(), l.path), arrSort(SInt, l.sort))
	}
}

func (x *Exec) havocElems(st *State, elem types.Type) {
	for _, l := range leavesOf(elem) {
		x.havocKey(st, heapKeyElem(elem, l.path), arrSort(SInt, arrSort(SInt, l.sort)))
	}
}

func (x *Exec) havocMap(st *State, mt *types.Map) {
	ks := x.mapKeySort(mt)
	x.havocKey(st, heapKeyMapDom(mt), arrSort(SInt, arrSort(ks, SBool)))
	for _, l := range leavesOf(mt.Elem()) {
		x.havocKey(st, heapKeyMapVal(mt, l.path), arrSort(SInt, arrSort(ks, l.sort)))
	}
}

// ---------- return / panic / defer ----------

func (x *Exec) doReturn(st *State, fr *Frame, res []Value) {
	if len(st.frames) == 1 {
		x.checkExit(st, fr, res, false)
		st.frames = nil
		return
	}
	st.frames = st.frames[:len(st.frames)-1]
	parent := st.top()
	if fr.fold != nil {
		x.foldCheckNow(st, parent, fr.fold)
		st.dead = true
		return
	}
	if fr.isDefer {
		// result of deferred call is discarded; parent continues (RunDefers re-executes or unwinding resumes)
		return
	}
	x.bindResult(st, parent, fr.callInstr, res)
}

func (x *Exec) bindResult(st *State, fr *Frame, instr ssa.Instruction, res []Value) {
	v, ok := instr.(ssa.Value)
	if !ok {
		return
	}
	switch len(res) {
	case 0:
	case 1:
		fr.regs[v] = res[0]
	default:
		fr.regs[v] = TupleV{res}
	}
}

// panicNilPossible: can recover() return nil although a panic is in flight? Before Go 1.21 `panic(nil)` (and a
// panic with a nil interface value) made recover() return nil, so every `if r := recover(); r != nil` guard missed
// it; from the language version go1.21 on the runtime substitutes a *runtime.PanicNilError. The language version
// is the `go` line of the module of the function under verification (which is also a lower bound for every
// module that imports it).
func (x *Exec) panicNilPossible() bool {
	if x.root == nil || x.root.Pkg == nil || x.root.Pkg.Pkg == nil {
		return true
	}
	v := strings.TrimPrefix(x.root.Pkg.Pkg.GoVersion(), "go")
	parts := strings.SplitN(v, ".", 3)
	if len(parts) < 2 {
		return true
	}
	maj, err1 := strconv.Atoi(parts[0])
	min, err2 := strconv.Atoi(parts[1])
	if err1 != nil || err2 != nil {
		return true
	}
	possible := maj < 1 || (maj == 1 && min < 21)
	if possible {
		x.sym.note("language version " + x.root.Pkg.Pkg.GoVersion() + " (< go1.21): recover() may return nil while a panic is in flight (panic(nil))")
	}
	return possible
}

func (x *Exec) startPanic(st *State, fr *Frame, val Value) {
	fr.panicking = true
	fr.panicVal = val
	fr.unwinding = true
}

// unwind runs the deferred calls of a panicking frame.
func (x *Exec) unwind(st *State, fr *Frame) []*State {
	if !fr.panicking {
		// recovered: resume in the Recover block
		fr.unwinding = false
		if len(fr.defers) > 0 {
			// remaining defers still run (Go runs them before returning from the recovered function)
			d := fr.defers[len(fr.defers)-1]
			fr.defers = fr.defers[:len(fr.defers)-1]
			fr.unwinding = true
			return x.invokeDeferred(st, fr, d)
		}
		if fr.fn.Recover != nil {
			fr.prev = fr.block
			fr.block = fr.fn.Recover
			fr.idx = 0
			return nil
		}
		// no named results: return zero values
		var res []Value
		rs := fr.fn.Signature.Results()
		for i := 0; i < rs.Len(); i++ {
			res = append(res, x.zeroValue(rs.At(i).Type()))
		}
		x.doReturn(st, fr, res)
		return nil
	}
	if len(fr.defers) > 0 {
		d := fr.defers[len(fr.defers)-1]
		fr.defers = fr.defers[:len(fr.defers)-1]
		return x.invokeDeferred(st, fr, d)
	}
	// propagate to caller
	if len(st.frames) == 1 {
		x.checkExit(st, fr, nil, true)
		st.frames = nil
		return nil
	}
	st.frames = st.frames[:len(st.frames)-1]
	parent := st.top()
	if fr.isDefer {
		// a deferred function panicked: replaces the parent's panic
		parent.panicking = true
		parent.panicVal = fr.panicVal
		parent.unwinding = true
		return nil
	}
	x.startPanic(st, parent, fr.panicVal)
	return nil
}

func (x *Exec) pushDefer(st *State, fr *Frame, in *ssa.Defer) {
	com := in.Common()
	d := deferred{call: com}
	if com.IsInvoke() {
		d.recv = x.val(st, fr, com.Value)
	} else {
		if _, isB := com.Value.(*ssa.Builtin); !isB {
			d.fn = x.val(st, fr, com.Value)
		}
	}
	for _, a := range com.Args {
		d.args = append(d.args, x.val(st, fr, a))
	}
	fr.defers = append(fr.defers, d)
}

func (x *Exec) invokeDeferred(st *State, fr *Frame, d deferred) []*State {
	return x.callResolved(st, fr, nil, d.call, d.fn, d.recv, d.args, true)
}

// checkExit: postconditions at the end of the root function.
func (x *Exec) checkExit(st *State, fr *Frame, res []Value, panicking bool) {
	x.nExits++
	c := x.rootC
	if os.Getenv("GOVC_DEBUG") != "" {
		fmt.Fprintf(os.Stderr, "EXIT %s panicking=%v trail=%v\n", relName(fr.fn), panicking, st.trail)
		for _, ev := range st.events {
			fmt.Fprintf(os.Stderr, "   event %d kind=%s name=%q method=%q nargs=%d panicked=%v\n", ev.Index, ev.Kind, ev.Name, ev.Method, len(ev.Args), ev.Panicked)
		}
	}
	sc := x.specCtxFor(st, fr, fr.pre)
	sc.atExit = true
	x.curObs = nil
	defer func() { x.curObs = nil }()
	if !panicking {
		rs := fr.fn.Signature.Results()
		for i := 0; i < rs.Len() && i < len(res); i++ {
			if n := rs.At(i).Name(); n != "" && n != "_" {
				sc.vars[n] = res[i]
			}
			sc.vars[fmt.Sprintf("result%d", i)] = res[i]
		}
		if len(res) >= 1 {
			sc.vars["result"] = res[0]
		}
	}
	sc.panicking = panicking
	for _, ob := range c.Observes {
		x.evalObserve(sc, ob)
	}
	x.curSmall = nil
	defer func() { x.curSmall = nil }()
	for _, ra := range c.ReplayAssume {
		func() {
			defer func() {
				if r := recover(); r != nil {
					if _, ok := r.(engineError); !ok {
						panic(r)
					}
				}
			}()
			x.curSmall = append(x.curSmall, x.evalBool(sc, ra.Expr))
		}()
	}
	if panicking {
		sc.panicking = true
		if c.NoPanic {
			x.assert(st, x.oblName("nopanic", 0, ""), "nopanic", "function never panics", c.Src, tFalse, true)
		}
		for i, e := range c.PanicEnsures {
			x.assert(st, x.oblName("panic-ensures", i+1, e.Label), "panic-ensures", e.Text, e.Src, x.evalBool(sc, e.Expr), true)
		}
		return
	}
	x.addCoverAny(x.oblName("exit-reachable", 0, ""), st)
	// every loop this path went through: some exit after it must be feasible (invariants plus the exit
	// condition that contradict each other would make everything after the loop vacuously true)
	if fr.fn == x.root {
		li := x.loops(fr.fn)
		for h, seen := range fr.loopSeen {
			if ord, ok := li.headers[h]; ok && seen {
				x.addCoverAny(x.oblName(fmt.Sprintf("loop%d/exit-reachable", ord), 0, ""), st)
			}
		}
	}
	// results
	rs := fr.fn.Signature.Results()
	for i := 0; i < rs.Len() && i < len(res); i++ {
		n := rs.At(i).Name()
		if n != "" && n != "_" {
			sc.vars[n] = res[i]
		}
		sc.vars[fmt.Sprintf("result%d", i)] = res[i]
	}
	if len(res) >= 1 {
		sc.vars["result"] = res[0]
	}
	for i, e := range c.Ensures {
		x.coverAntecedent(st, sc, x.oblName("ensures", i+1, e.Label), e.Expr)
		x.assert(st, x.oblName("ensures", i+1, e.Label), "ensures", e.Text, e.Src, x.evalBool(sc, e.Expr), true)
	}
	if c.HasMod {
		x.checkFrame(st, fr, sc)
	}
}

// ---------- calls ----------

func (x *Exec) call(st *State, fr *Frame, instr ssa.CallInstruction, com *ssa.CallCommon) []*State {
	var fnv, recv Value
	if com.IsInvoke() {
		recv = x.val(st, fr, com.Value)
	} else if _, isB := com.Value.(*ssa.Builtin); !isB {
		fnv = x.val(st, fr, com.Value)
	}
	args := make([]Value, len(com.Args))
	for i, a := range com.Args {
		args[i] = x.val(st, fr, a)
	}
	return x.callResolved(st, fr, instr, com, fnv, recv, args, false)
}

// callResolved performs a call whose operands are already evaluated. instr is nil for deferred calls.
func (x *Exec) callResolved(st *State, fr *Frame, instr ssa.CallInstruction, com *ssa.CallCommon, fnv, recv Value, args []Value, isDefer bool) []*State {
	var resInstr ssa.Instruction
	if instr != nil {
		resInstr = instr
	}
	x.curCom = com
	defer func() { x.curCom = nil }()
	if com.IsInvoke() {
		iv := recv.(IfaceV)
		// concrete dispatch when the dynamic type is known
		if isLiteral(iv.Tag.S) && iv.Tag.S != "0" {
			var id int
			fmt.Sscan(iv.Tag.S, &id)
			if T, ok := x.typeByID[id]; ok && x.prog.MethodSets.MethodSet(T).Lookup(com.Method.Pkg(), com.Method.Name()) != nil {
				if m := x.prog.LookupMethod(T, com.Method.Pkg(), com.Method.Name()); m != nil {
					rv := x.unbox(st, iv, T)
					return x.callStatic(st, fr, resInstr, m, nil, append([]Value{rv}, args...), isDefer, com)
				}
			}
		}
		name := fmt.Sprintf("(%s).%s", typeShort(com.Value.Type()), com.Method.Name())
		forks := x.opaqueCall(st, fr, resInstr, name, iv, com.Method.Name(), args, com.Signature().Results(), isDefer)
		x.assumeIfaceContract(st, fr, com, iv, args)
		return forks
	}
	if b, ok := com.Value.(*ssa.Builtin); ok {
		return x.builtin(st, fr, resInstr, b, args, com, isDefer)
	}
	fv, ok := fnv.(FuncV)
	if !ok {
		panic(engineErr("call of non-function value %T", fnv))
	}
	if fv.Fn != nil {
		return x.callStatic(st, fr, resInstr, fv.Fn, fv.Bind, args, isDefer, com)
	}
	// unknown function value: name it after the expression it came from, if it is a parameter
	name := funcValueName(com.Value)
	return x.opaqueCall(st, fr, resInstr, name, fv, "", args, com.Signature().Results(), isDefer)
}

// checkClosureRequires: a closure's contract may assume facts about the variables it captures as they are when it is
// created (`captured-requires 0 <= i && i < len(route)`); such a clause is an obligation of the function that creates
// the closure, checked at the MakeClosure with the captured variables' values of that moment. (A plain `requires`
// of a closure speaks about the state when it is called and is checked at call sites that use its contract.)
func (x *Exec) checkClosureRequires(st *State, fr *Frame, in *ssa.MakeClosure, bind []Value) {
	fn := in.Fn.(*ssa.Function)
	c := x.contractOf(fn)
	if c == nil || len(c.Requires) == 0 || fr.fn != x.root {
		return
	}
	params := map[string]bool{}
	for _, p := range fn.Params {
		params[p.Name()] = true
	}
	vars := map[string]Value{}
	addr := map[string]PtrV{}
	for i, fv := range fn.FreeVars {
		if i >= len(bind) {
			continue
		}
		if pv, ok := bind[i].(PtrV); ok {
			if _, isPtr := fv.Type().Underlying().(*types.Pointer); isPtr {
				addr[fv.Name()] = pv
				vars[fv.Name()] = x.loadP(st, pv)
				continue
			}
		}
		vars[fv.Name()] = bind[i]
	}
	for i, r := range c.Requires {
		if !r.AtCreation {
			continue
		}
		mentionsParam := false
		ast.Inspect(r.Expr, func(n ast.Node) bool {
			if id, ok := n.(*ast.Ident); ok && params[id.Name] {
				mentionsParam = true
			}
			return true
		})
		if mentionsParam {
			panic(engineErr("captured-requires of %s mentions a parameter", relName(fn)))
		}
		sc := &specCtx{x: x, st: st, vars: vars, pkg: fnPkg(fn), fn: fn, heap: st.heap, lets: map[string]Value{}, noGhost: true, addrVars: addr}
		lbl := r.Label
		if lbl == "" {
			lbl = fmt.Sprint(i + 1)
		}
		site := fmt.Sprintf("%s@%s.b%d.%d", relName(fn), relName(fr.fn), fr.block.Index, fr.idx)
		x.assert(st, x.oblName("closure-requires", 0, site+":"+lbl), "closure-requires", r.Text, r.Src, x.evalBool(sc, r.Expr), true)
	}
}

// assumeIfaceContract: an assumed (ext) contract on an interface method, e.g. (reflect.Type).Kind being a pure
// function of the type value: its ensures clauses are assumed for the call just recorded (receiver: recv).
func (x *Exec) assumeIfaceContract(st *State, fr *Frame, com *ssa.CallCommon, recv IfaceV, args []Value) {
	nt, ok := com.Value.Type().(*types.Named)
	if !ok || nt.Obj().Pkg() == nil {
		return
	}
	c := x.db.lookup(nt.Obj().Pkg().Path(), fmt.Sprintf("(%s).%s", nt.Obj().Name(), com.Method.Name()))
	if c == nil || len(st.events) == 0 {
		return
	}
	ev := st.events[len(st.events)-1]
	x.trusted["assumed contract: "+nt.Obj().Pkg().Name()+"."+c.Name+" ("+c.Src+")"] = true
	vars := map[string]Value{"recv": recv}
	sig := com.Signature()
	for i := 0; i < sig.Params().Len() && i < len(args); i++ {
		if n := sig.Params().At(i).Name(); n != "" && n != "_" {
			vars[n] = args[i]
		}
	}
	for i, r := range ev.Results {
		vars[fmt.Sprintf("result%d", i)] = r
	}
	if len(ev.Results) > 0 {
		vars["result"] = ev.Results[0]
	}
	sc := &specCtx{x: x, st: st, vars: vars, pkg: fnPkg(fr.fn), fn: fr.fn, heap: st.heap, lets: map[string]Value{}, noGhost: true, atExit: true}
	for _, e := range c.Ensures {
		st.assume(x.evalBool(sc, e.Expr))
	}
}

func typeShort(t types.Type) string {
	return types.TypeString(t, func(p *types.Package) string { return p.Name() })
}

func (x *Exec) isModuleFunc(fn *ssa.Function) bool {
	return strings.HasPrefix(pkgPathOf(fn), modulePrefix)
}

func (x *Exec) callStatic(st *State, fr *Frame, resInstr ssa.Instruction, fn *ssa.Function, bind []Value, args []Value, isDefer bool, com *ssa.CallCommon) []*State {
	if name := intrinsicName(fn); name != "" {
		if forks, ok := x.intrinsic(st, fr, resInstr, name, fn, args, isDefer); ok {
			return forks
		}
	}
	if x.ld != nil {
		x.ld.ensureBuilt(fn)
	}
	rn := relName(fn)
	if x.rootC != nil && x.rootC.Folds != nil {
		if invs, ok := x.rootC.Folds[fn.Name()]; ok {
			return x.foldCall(st, fr, resInstr, fn, invs, args, isDefer)
		}
	}
	if x.rootC != nil && (x.rootC.Opaque[rn] || x.rootC.Opaque[fn.Name()]) {
		forks := x.opaqueCall(st, fr, resInstr, rn, x.funcValue(fn, nil), "", args, fn.Signature.Results(), isDefer)
		// an opaque callee that has a contract of its own still writes what its `modifies` clause says
		if c := x.contractOf(fn); c != nil && len(c.Modifies) > 0 && len(args) == len(fn.Params) && os.Getenv("GOVC_NO_OPAQUE_FRAME") == "" {
			vars := map[string]Value{}
			for i, p := range fn.Params {
				vars[p.Name()] = args[i]
			}
			sc := &specCtx{x: x, st: st, vars: vars, pkg: fnPkg(fn), fn: fn, heap: st.heap, letExprs: letMap(c), noGhost: true, lets: map[string]Value{}}
			func() {
				defer func() {
					if r := recover(); r != nil {
						if _, ok := r.(poisonSignal); ok {
							return
						}
						panic(r)
					}
				}()
				x.havocItems(st, sc, c.Modifies)
			}()
		}
		return forks
	}
	c := x.contractOf(fn)
	if c != nil && !c.InlineAlways && !(fn == x.root && false) {
		return x.callContract(st, fr, resInstr, fn, c, args, isDefer, bind)
	}
	if fn.Blocks != nil && (x.isModuleFunc(fn) || inlineStd[fn.String()]) {
		depth := len(st.frames)
		if depth > x.maxDepth+4 {
			panic(engineErr("inline depth exceeded at %s", fn))
		}
		for _, f := range st.frames {
			if f.fn == fn {
				panic(engineErr("recursive call of %s needs a contract", fn))
			}
		}
		nf := &Frame{fn: fn, regs: map[ssa.Value]Value{}, env: map[string]envEntry{}, loopSeen: map[*ssa.BasicBlock]bool{}, callInstr: resInstr, isDefer: isDefer, depth: depth}
		if len(args) != len(fn.Params) {
			panic(engineErr("arity mismatch calling %s", fn))
		}
		pparams := map[string]Value{}
		paddr := map[string]PtrV{}
		for i, p := range fn.Params {
			nf.regs[p] = args[i]
			nf.env[p.Name()] = envEntry{v: args[i]}
			pparams[p.Name()] = args[i]
		}
		for i, fv := range fn.FreeVars {
			nf.regs[fv] = bind[i]
			nf.env[fv.Name()] = envEntry{v: bind[i], isAddr: true}
			if pv, ok := bind[i].(PtrV); ok {
				paddr[fv.Name()] = pv
			}
		}
		// entry snapshot of the inlined callee: its loop invariants may speak about old(...)
		if c := x.contractOf(fn); c != nil && len(c.Loops) > 0 {
			nf.pre = &preSnap{heap: copyHeap(st.heap), params: pparams, addrParams: paddr, nEvent: len(st.events)}
		}
		nf.block = fn.Blocks[0]
		st.frames = append(st.frames, nf)
		return nil
	}
	// external function without contract: opaque, unconstrained results
	x.trusted["opaque external call "+fn.String()+" (results unconstrained, modelled heap unchanged except caller locals whose address is passed)"] = true
	return x.opaqueCall(st, fr, resInstr, fn.String(), x.funcValue(fn, nil), "", args, fn.Signature.Results(), isDefer)
}

// small pure standard-library functions that are executed from their source rather than treated as opaque
var inlineStd = map[string]bool{
	"(time.Duration).Seconds":      true,
	"(time.Duration).Milliseconds": true,
	"(time.Duration).Nanoseconds":  true,
}

// opaqueCall: the call is an event; results are fresh; may fork a panicking path if declared.
func (x *Exec) opaqueCall(st *State, fr *Frame, resInstr ssa.Instruction, name string, callee Value, method string, args []Value, results *types.Tuple, isDefer bool) []*State {
	ev := &Event{Kind: "call", Name: name, Callee: callee, Method: method, Args: args, Index: len(st.events)}
	var forks []*State
	mayPanic := x.rootC != nil && (x.rootC.MayPanic[name] || (method != "" && x.rootC.MayPanic[method]))
	if mayPanic {
		other := st.clone()
		ofr := other.top()
		pev := *ev
		pev.Panicked = true
		pv := x.freshValue(other, "panicval", types.NewInterfaceType(nil, nil))
		pev.PanicVal = pv
		other.events = append(other.events, &pev)
		other.trail = append(other.trail, "panic in "+name)
		if !x.panicNilPossible() {
			other.assume(not(eq(pv.(IfaceV).Tag, intLit(0))))
		}
		x.havocFor(other, ofr, name)
		x.startPanic(other, ofr, pv)
		forks = append(forks, other)
	}
	var res []Value
	for i := 0; i < results.Len(); i++ {
		res = append(res, x.freshValue(st, "ret_"+sanitize(name), results.At(i).Type()))
	}
	ev.Results = res
	ev.Heap = copyHeap(st.heap) // the heap the callee saw (for at(call, e))
	st.events = append(st.events, ev)
	x.havocFor(st, fr, name)
	x.havocOutParams(st, fr, name)
	ev.HeapPost = copyHeap(st.heap) // the heap the callee left (for after(call, e))
	if !isDefer && resInstr != nil {
		x.bindResult(st, fr, resInstr, res)
	}
	return forks
}

// havocOutParams: an opaque callee that is handed the address of a local variable of the caller inside an
// interface value (the decoder idiom `Unmarshal(data, &v)`) may write it; the variable is unknown afterwards.
func (x *Exec) havocOutParams(st *State, fr *Frame, name string) {
	com := x.curCom
	if com == nil || fr == nil || retainsOnly[shortCallee(name)] {
		return
	}
	for _, a := range com.Args {
		mi, ok := a.(*ssa.MakeInterface)
		if !ok {
			continue // a plain pointer argument: the callee's effect is what its contract / `havoc-on` says
		}
		a = mi.X
		if _, isPtr := a.Type().Underlying().(*types.Pointer); !isPtr || !ownAllocation(a) {
			continue
		}
		if al, ok := a.(*ssa.Alloc); ok && al.Comment == "complit" {
			continue // a freshly built literal handed over, not an out-parameter
		}
		v, ok := fr.regs[a]
		if !ok {
			continue
		}
		if p, ok := v.(PtrV); ok && !p.Elem {
			x.store(st, p, x.freshValue(st, "outp", pointee(p)))
		}
	}
}

// callees that keep the pointer they are given in an `any` parameter without writing through it
var retainsOnly = map[string]bool{"Store": true, "LoadOrStore": true, "Swap": true, "PushBack": true, "PushFront": true,
	"WithValue": true, "Put": true, "Set": true, "Add": true}

func shortCallee(name string) string {
	if i := strings.LastIndex(name, "."); i >= 0 {
		return name[i+1:]
	}
	return name
}

// havocFor applies the `havoc-on <callee>: items` declarations of the root contract.
func (x *Exec) havocFor(st *State, fr *Frame, name string) {
	if x.rootC == nil {
		return
	}
	items := x.rootC.Havocs[name]
	if len(items) == 0 {
		// `havoc-on ServeHTTP: ...` also names "(http.Handler).ServeHTTP"
		for k, v := range x.rootC.Havocs {
			if nameMatches(name, k) {
				items = append(items, v...)
			}
		}
	}
	if len(items) == 0 {
		return
	}
	root := st.frames[0]
	sc := x.specCtxFor(st, root, root.pre)
	x.havocItems(st, sc, items)
}

// callContract: modular call. Requires are asserted, the frame is havocked, ensures assumed.
func (x *Exec) callContract(st *State, fr *Frame, resInstr ssa.Instruction, fn *ssa.Function, c *FuncContract, args []Value, isDefer bool, bind []Value) []*State {
	rn := relName(fn)
	if c.Trusted {
		x.trusted["assumed contract: "+pkgShort(c.Pkg)+"."+c.Name+" ("+c.Src+")"] = true
	}
	vars := map[string]Value{}
	if len(args) != len(fn.Params) {
		panic(engineErr("arity mismatch calling %s (contract)", fn))
	}
	for i, p := range fn.Params {
		vars[p.Name()] = args[i]
	}
	sc := &specCtx{x: x, st: st, vars: vars, pkg: fnPkg(fn), fn: fn, heap: st.heap, letExprs: letMap(c), noGhost: true}
	sc.lets = map[string]Value{}
	addrVars := map[string]PtrV{}
	for i, fv := range fn.FreeVars {
		if i < len(bind) {
			if pv, ok := bind[i].(PtrV); ok {
				addrVars[fv.Name()] = pv
			}
		}
	}
	sc.addrVars = addrVars
	x.callOrd["call:"+rn]++
	site := fmt.Sprintf("%s@%s.b%d.%d", rn, relName(fr.fn), fr.block.Index, fr.idx)
	for i, r := range c.Requires {
		lbl := r.Label
		if lbl == "" {
			lbl = fmt.Sprint(i + 1)
		}
		x.assert(st, x.oblName("call-requires", 0, site+":"+lbl), "call-requires", r.Text, r.Src, x.evalBool(sc, r.Expr), true)
	}
	pre := &preSnap{heap: copyHeap(st.heap), params: vars, nEvent: len(st.events), addrParams: addrVars}
	ev := &Event{Kind: "call", Name: rn, Callee: x.funcValue(fn, nil), Args: args, Index: len(st.events)}
	var forks []*State
	if len(c.PanicEnsures) > 0 || (x.rootC != nil && x.rootC.MayPanic[rn]) {
		other := st.clone()
		ofr := other.top()
		pev := *ev
		pev.Panicked = true
		pv := x.freshValue(other, "panicval", types.NewInterfaceType(nil, nil))
		pev.PanicVal = pv
		other.events = append(other.events, &pev)
		other.trail = append(other.trail, "panic in "+rn)
		osc := &specCtx{x: x, st: other, vars: vars, pkg: fnPkg(fn), fn: fn, heap: other.heap, lets: sc.lets, old: pre, panicking: true, letExprs: letMap(c), addrVars: addrVars, noGhost: true}
		x.havocItems(other, osc, c.Modifies)
		osc.heap = other.heap
		for _, e := range c.PanicEnsures {
			other.assume(x.evalBool(osc, e.Expr))
		}
		if !x.panicNilPossible() {
			other.assume(not(eq(pv.(IfaceV).Tag, intLit(0))))
		}
		x.startPanic(other, ofr, pv)
		forks = append(forks, other)
	}
	x.havocItems(st, sc, c.Modifies)
	var res []Value
	rs := fn.Signature.Results()
	post := &specCtx{x: x, st: st, vars: map[string]Value{}, pkg: fnPkg(fn), fn: fn, heap: st.heap, lets: sc.lets, old: pre, atExit: true, letExprs: letMap(c), addrVars: addrVars, noGhost: true}
	for k, v := range vars {
		post.vars[k] = v
	}
	for i := 0; i < rs.Len(); i++ {
		rv := x.freshValue(st, "ret_"+sanitize(rn), rs.At(i).Type())
		res = append(res, rv)
		if n := rs.At(i).Name(); n != "" && n != "_" {
			post.vars[n] = rv
		}
		post.vars[fmt.Sprintf("result%d", i)] = rv
	}
	if len(res) > 0 {
		post.vars["result"] = res[0]
	}
	ev.Results = res
	st.events = append(st.events, ev)
	for _, e := range c.Ensures {
		st.assume(x.evalBool(post, e.Expr))
	}
	if !isDefer && resInstr != nil {
		x.bindResult(st, fr, resInstr, res)
	}
	return forks
}

func fnPkg(fn *ssa.Function) *ssa.Package {
	if fn.Pkg != nil {
		return fn.Pkg
	}
	if p := fn.Parent(); p != nil {
		return fnPkg(p)
	}
	return nil
}

func (x *Exec) goStmt(st *State, fr *Frame, in *ssa.Go) {
	com := in.Common()
	ev := &Event{Kind: "go", Index: len(st.events)}
	if com.IsInvoke() {
		ev.Callee = x.val(st, fr, com.Value)
		ev.Method = com.Method.Name()
		ev.Name = "go " + com.Method.Name()
	} else {
		v := x.val(st, fr, com.Value)
		ev.Callee = v
		if fv, ok := v.(FuncV); ok && fv.Fn != nil {
			ev.Name = "go " + relName(fv.Fn)
		} else {
			ev.Name = "go " + com.Value.Name()
		}
	}
	for _, a := range com.Args {
		ev.Args = append(ev.Args, x.val(st, fr, a))
	}
	st.events = append(st.events, ev)
	if fv, ok := ev.Callee.(FuncV); ok && fv.Fn != nil && fv.Fn.Blocks != nil && !com.IsInvoke() {
		ws := x.concurrentWrites(fv.Fn)
		if len(ws) > 0 {
			nc := make(map[string]Sort, len(st.conc)+len(ws))
			for k, v := range st.conc {
				nc[k] = v
			}
			for k, v := range ws {
				nc[k] = v
			}
			st.conc = nc
			if os.Getenv("GOVC_DEBUG") != "" {
				for k := range ws {
					fmt.Fprintf(os.Stderr, "conc write of %s: %s\n", ev.Name, k)
				}
			}
		}
	}
}

// syncPoint: where this thread may observe the writes of the goroutines it has started: at an acquire operation
// after the `go` (channel receive / select, lock acquisition, WaitGroup wait) everything those goroutines may
// write is unknown. Between acquire operations the thread sees its own writes only (data-race freedom assumed).
func (x *Exec) syncPoint(st *State) {
	if len(st.conc) == 0 {
		return
	}
	keys := make([]string, 0, len(st.conc))
	for k := range st.conc {
		keys = append(keys, k)
	}
	sort.Strings(keys)
	for _, k := range keys {
		x.havocKey(st, k, st.conc[k])
	}
}

func (x *Exec) chanEvent(st *State, kind string, ch Value, args []Value, res []Value) *Event {
	ev := &Event{Kind: kind, Name: kind, Callee: ch, Args: args, Results: res, Index: len(st.events)}
	st.events = append(st.events, ev)
	if kind == "recv" {
		x.syncPoint(st)
		ev.Heap = copyHeap(st.heap)
	}
	return ev
}

func (x *Exec) selectOp(st *State, fr *Frame, in *ssa.Select) []*State {
	// nondeterministic choice among the cases (and default when non-blocking)
	n := len(in.States)
	var forks []*State
	choices := n
	if !in.Blocking {
		choices = n + 1
	}
	// every arm's channel is polled by the select, whichever arm is then chosen: on("poll", ch)
	for _, sst := range in.States {
		x.chanEvent(st, "poll", x.val(st, fr, sst.Chan), nil, nil)
	}
	states := make([]*State, choices)
	states[0] = st
	for i := 1; i < choices; i++ {
		states[i] = st.clone()
	}
	tup := in.Type().(*types.Tuple)
	for ci := 0; ci < choices; ci++ {
		s := states[ci]
		f := s.top()
		idx := ci
		if ci == n {
			idx = -1
		}
		elems := []Value{Scalar{intLit(int64(idx)), tup.At(0).Type()}}
		recvOk := x.freshValue(s, "recvok", tup.At(1).Type())
		elems = append(elems, recvOk)
		k := 2
		for si, sst := range in.States {
			if sst.Dir == types.RecvOnly {
				rv := x.freshValue(s, "recv", tup.At(k).Type())
				elems = append(elems, rv)
				k++
				if si == idx {
					x.chanEvent(s, "recv", x.val(s, f, sst.Chan), nil, []Value{rv, recvOk})
				}
			} else if si == idx {
				x.chanEvent(s, "send", x.val(s, f, sst.Chan), []Value{x.val(s, f, sst.Send)}, nil)
			}
		}
		f.regs[in] = TupleV{elems}
		s.trail = append(s.trail, fmt.Sprintf("%s.select=%d", relName(f.fn), idx))
		if ci > 0 {
			forks = append(forks, s)
		}
	}
	return forks
}

// ---------- type assertions, interfaces ----------

func (x *Exec) boxKind(t types.Type) string {
	switch u := t.Underlying().(type) {
	case *types.Basic:
		switch sortOfBasic(u) {
		case SInt:
			return "int"
		case SStr:
			return "str"
		case SReal:
			return "real"
		case SBool:
			return "bool"
		}
	case *types.Pointer, *types.Map, *types.Chan, *types.Signature:
		return "ref"
	}
	return "cell"
}

func (x *Exec) makeIface(st *State, v Value, from types.Type, to types.Type) Value {
	if _, ok := from.Underlying().(*types.Interface); ok {
		return retype(v, to)
	}
	tag := intLit(int64(x.typeID(from)))
	var val Term
	switch x.boxKind(from) {
	case "ref":
		val = x.flatten(v)[0]
	case "int", "str", "real", "bool":
		k := x.boxKind(from)
		t := x.flatten(v)[0]
		val = mk(SInt, "box_"+k, t)
		st.assume(eq(mk(t.Sort, "unbox_"+k, val), t))
	default:
		p := x.alloc(st, from, types.NewPointer(from))
		x.store(st, p, v)
		val = p.Base
	}
	return IfaceV{Tag: tag, Val: val, Typ: to}
}

func (x *Exec) unbox(st *State, iv IfaceV, T types.Type) Value {
	switch k := x.boxKind(T); k {
	case "ref":
		v, _ := x.unflatten(T, []Term{iv.Val})
		return v
	case "int", "str", "real", "bool":
		so := leavesOf(T)[0].sort
		t := mk(so, "unbox_"+k, iv.Val)
		v := Scalar{t, T}
		x.assumeWellTyped(st, v)
		return v
	default:
		return x.load(st, PtrV{Base: iv.Val, Root: T, Typ: types.NewPointer(T)})
	}
}

func (x *Exec) typeAssert(st *State, fr *Frame, in *ssa.TypeAssert) []*State {
	iv := x.val(st, fr, in.X).(IfaceV)
	T := in.AssertedType
	if _, isIface := T.Underlying().(*types.Interface); isIface {
		// interface-to-interface: succeeds for non-nil values whose dynamic type implements T (unknown here)
		okT := x.sym.fresh("implements", SBool)
		if types.AssignableTo(in.X.Type(), T) {
			okT = not(eq(iv.Tag, intLit(0)))
		} else {
			// what is known statically: nil implements nothing, and for every dynamic type met so far in this
			// verification unit whether it implements T
			st.assume(implies(eq(iv.Tag, intLit(0)), not(okT)))
			ids := make([]int, 0, len(x.typeByID))
			for id := range x.typeByID {
				ids = append(ids, id)
			}
			sort.Ints(ids)
			if it, ok := T.Underlying().(*types.Interface); ok {
				for _, id := range ids {
					dt := x.typeByID[id]
					if _, isIface := dt.Underlying().(*types.Interface); isIface {
						continue
					}
					fact := okT
					if !types.Implements(dt, it) {
						fact = not(okT)
					}
					st.assume(implies(eq(iv.Tag, intLit(int64(id))), fact))
				}
			}
		}
		res := retype(iv, T)
		if in.CommaOk {
			fr.regs[in] = TupleV{[]Value{res, Scalar{okT, types.Typ[types.Bool]}}}
			return nil
		}
		x.assumeOrCheck(st, "typeassert", in.String(), okT)
		fr.regs[in] = res
		return nil
	}
	okT := eq(iv.Tag, intLit(int64(x.typeID(T))))
	if in.CommaOk {
		v := x.unbox(st, iv, T)
		// when !ok the value is the zero value
		zs := x.flatten(x.zeroValue(T))
		vs := x.flatten(v)
		ts := make([]Term, len(vs))
		for i := range vs {
			ts[i] = ite(okT, vs[i], zs[i])
		}
		rv, _ := x.unflatten(T, ts)
		fr.regs[in] = TupleV{[]Value{rv, Scalar{okT, types.Typ[types.Bool]}}}
		return nil
	}
	x.assumeOrCheck(st, "typeassert", in.String(), okT)
	fr.regs[in] = x.unbox(st, iv, T)
	return nil
}

// assumeOrCheck: a run-time check of Go (type assertion, bounds, division). With `safety on` it is a proof
// obligation; otherwise it is assumed and listed.
func (x *Exec) assumeOrCheck(st *State, kind, what string, cond Term) {
	if x.safetyKind(kind) {
		x.safety(st, kind, what, cond)
		return
	}
	x.sym.note("run-time check '" + kind + "' assumed to pass (safety obligations not requested)")
	st.assume(cond)
}

// ---------- operators ----------

func (x *Exec) arithMode() string {
	if x.rootC != nil && x.rootC.Arith != "" {
		return x.rootC.Arith
	}
	return "math"
}

func pow2(n int) *big.Int { return new(big.Int).Lsh(big.NewInt(1), uint(n)) }

func intBits(b *types.Basic) (bits int, signed bool) {
	switch b.Kind() {
	case types.Int, types.Int64:
		return 64, true
	case types.Int32:
		return 32, true
	case types.Int16:
		return 16, true
	case types.Int8:
		return 8, true
	case types.Uint, types.Uint64, types.Uintptr:
		return 64, false
	case types.Uint32:
		return 32, false
	case types.Uint16:
		return 16, false
	case types.Uint8:
		return 8, false
	}
	return 64, true
}

// wrapTo reduces a mathematical integer into the range of type t (two's complement).
func wrapTo(t types.Type, v Term) Term {
	b, ok := t.Underlying().(*types.Basic)
	if !ok || b.Info()&types.IsInteger == 0 {
		return v
	}
	bits, signed := intBits(b)
	m := pow2(bits).String()
	if !signed {
		return Term{"(mod " + v.S + " " + m + ")", SInt}
	}
	h := pow2(bits - 1).String()
	return Term{"(- (mod (+ " + v.S + " " + h + ") " + m + ") " + h + ")", SInt}
}

func inRange(t types.Type, v Term) Term {
	b, ok := t.Underlying().(*types.Basic)
	if !ok {
		return tTrue
	}
	lo, hi, ok := intRange(b)
	if !ok {
		return tTrue
	}
	return Term{"(and (<= " + lo + " " + v.S + ") (<= " + v.S + " " + hi + "))", SBool}
}

func (x *Exec) arithResult(st *State, t types.Type, v Term, what string) Term {
	b, ok := t.Underlying().(*types.Basic)
	if !ok || b.Info()&types.IsInteger == 0 {
		return v
	}
	switch x.arithMode() {
	case "wrapping":
		return wrapTo(t, v)
	case "checked":
		name := x.oblName("overflow", 0, fmt.Sprintf("%s@%s.b%d.%d", what, relName(st.top().fn), st.top().block.Index, st.top().idx))
		x.assert(st, name, "overflow", what+" does not overflow", "", inRange(t, v), true)
		return v
	default:
		x.sym.note("arith math: integer overflow assumed absent in " + relName(x.root))
		return v
	}
}

func (x *Exec) binop(st *State, fr *Frame, op token.Token, a, b Value, resT types.Type) Value {
	switch op {
	case token.EQL, token.NEQ:
		e := x.valuesEqual(a, b)
		if op == token.NEQ {
			e = not(e)
		}
		return Scalar{e, resT}
	}
	as, aok := a.(Scalar)
	bs, bok := b.(Scalar)
	if !aok || !bok {
		panic(engineErr("binop %s on %T,%T", op, a, b))
	}
	at, bt := as.T, bs.T
	isFloat := at.Sort == SReal
	isStr := at.Sort == SStr
	switch op {
	case token.LSS, token.LEQ, token.GTR, token.GEQ:
		if isStr {
			var r Term
			switch op {
			case token.LSS:
				r = mk(SBool, "strlt", at, bt)
			case token.GTR:
				r = mk(SBool, "strlt", bt, at)
			case token.LEQ:
				r = not(mk(SBool, "strlt", bt, at))
			case token.GEQ:
				r = not(mk(SBool, "strlt", at, bt))
			}
			return Scalar{r, resT}
		}
		m := map[token.Token]string{token.LSS: "<", token.LEQ: "<=", token.GTR: ">", token.GEQ: ">="}
		return Scalar{mk(SBool, m[op], at, bt), resT}
	case token.ADD:
		if isStr {
			r := mk(SStr, "strcat", at, bt)
			st.assume(eq(mk(SInt, "strlen", r), mk(SInt, "+", mk(SInt, "strlen", at), mk(SInt, "strlen", bt))))
			return Scalar{r, resT}
		}
		if isFloat {
			return Scalar{mk(SReal, "+", at, bt), resT}
		}
		return Scalar{x.arithResult(st, resT, mk(SInt, "+", at, bt), "add"), resT}
	case token.SUB:
		if isFloat {
			return Scalar{mk(SReal, "-", at, bt), resT}
		}
		return Scalar{x.arithResult(st, resT, mk(SInt, "-", at, bt), "sub"), resT}
	case token.MUL:
		if isFloat {
			return Scalar{mk(SReal, "*", at, bt), resT}
		}
		return Scalar{x.arithResult(st, resT, mk(SInt, "*", at, bt), "mul"), resT}
	case token.QUO:
		if isFloat {
			// division by zero gives Inf/NaN in Go; reals cannot express that
			x.sym.note("float division: divisor assumed non-zero where reals are used")
			return Scalar{mk(SReal, "/", at, bt), resT}
		}
		x.assumeOrCheck(st, "divzero", "integer division", not(eq(bt, intLit(0))))
		if x.entails(st, and(mk(SBool, ">=", at, intLit(0)), mk(SBool, ">", bt, intLit(0)))) {
			return Scalar{mk(SInt, "div", at, bt), resT}
		}
		return Scalar{x.arithResult(st, resT, mk(SInt, "godiv", at, bt), "div"), resT}
	case token.REM:
		x.assumeOrCheck(st, "divzero", "integer remainder", not(eq(bt, intLit(0))))
		return Scalar{x.modTerm(st, at, bt), resT}
	case token.LAND:
		return Scalar{and(at, bt), resT}
	case token.LOR:
		return Scalar{or(at, bt), resT}
	case token.SHL, token.SHR:
		if isLiteral(bt.S) {
			var k int
			fmt.Sscan(bt.S, &k)
			p := Term{pow2(k).String(), SInt}
			if op == token.SHL {
				return Scalar{x.arithResult(st, resT, mk(SInt, "*", at, p), "shl"), resT}
			}
			return Scalar{mk(SInt, "div", at, p), resT}
		}
		fallthrough
	case token.AND, token.OR, token.XOR, token.AND_NOT:
		if at.Sort == SBool {
			switch op {
			case token.AND:
				return Scalar{and(at, bt), resT}
			case token.OR:
				return Scalar{or(at, bt), resT}
			}
		}
		name := "bitop_" + map[token.Token]string{token.AND: "and", token.OR: "or", token.XOR: "xor", token.AND_NOT: "andnot", token.SHL: "shl", token.SHR: "shr"}[op]
		x.sym.declareFun(name, []Sort{SInt, SInt}, SInt)
		x.sym.note("bit operation " + op.String() + " is uninterpreted")
		r := Scalar{mk(SInt, name, at, bt), resT}
		x.assumeWellTyped(st, r)
		return r
	}
	panic(engineErr("unsupported binop %s", op))
}

func (x *Exec) valuesEqual(a, b Value) Term {
	fa, fb := x.flatten(a), x.flatten(b)
	if sa, ok := a.(SliceV); ok {
		// slices compare only to nil
		_ = sa
		return eq(fa[0], fb[0])
	}
	if len(fa) != len(fb) {
		panic(engineErr("equality of differently shaped values %T %T", a, b))
	}
	var cs []Term
	for i := range fa {
		cs = append(cs, eq(fa[i], fb[i]))
	}
	return and(cs...)
}

func (x *Exec) unop(st *State, fr *Frame, in *ssa.UnOp) []*State {
	v := x.val(st, fr, in.X)
	switch in.Op {
	case token.MUL:
		p := v.(PtrV)
		x.nilCheck(st, p, "load")
		fr.regs[in] = x.loadP(st, p)
	case token.NOT:
		fr.regs[in] = Scalar{not(v.(Scalar).T), in.Type()}
	case token.SUB:
		t := v.(Scalar).T
		if t.Sort == SReal {
			fr.regs[in] = Scalar{mk(SReal, "-", t), in.Type()}
		} else {
			fr.regs[in] = Scalar{x.arithResult(st, in.Type(), mk(SInt, "-", t), "neg"), in.Type()}
		}
	case token.XOR:
		x.sym.declareFun("bitop_not", []Sort{SInt}, SInt)
		r := Scalar{mk(SInt, "bitop_not", v.(Scalar).T), in.Type()}
		x.assumeWellTyped(st, r)
		fr.regs[in] = r
	case token.ARROW:
		elemT := in.X.Type().Underlying().(*types.Chan).Elem()
		rv := x.freshValue(st, "recv", elemT)
		if in.CommaOk {
			ok := x.freshValue(st, "recvok", types.Typ[types.Bool])
			fr.regs[in] = TupleV{[]Value{rv, ok}}
			x.chanEvent(st, "recv", v, nil, []Value{rv, ok})
		} else {
			fr.regs[in] = rv
			x.chanEvent(st, "recv", v, nil, []Value{rv})
		}
	default:
		panic(engineErr("unsupported unop %s", in.Op))
	}
	return nil
}

func (x *Exec) convert(st *State, v Value, to types.Type) Value {
	from := v.GoType()
	tb, tok := to.Underlying().(*types.Basic)
	fb, fok := from.Underlying().(*types.Basic)
	if tok && fok {
		s := v.(Scalar)
		switch {
		case fb.Info()&types.IsInteger != 0 && tb.Info()&types.IsInteger != 0:
			fbits, fsigned := intBits(fb)
			tbits, tsigned := intBits(tb)
			if (fsigned == tsigned && tbits >= fbits) || (!fsigned && tsigned && tbits > fbits) {
				return Scalar{s.T, to}
			}
			if isLiteral(s.T.S) && !strings.HasPrefix(s.T.S, "(") {
				// small non-negative literal fits everywhere relevant
				var k int64
				if _, err := fmt.Sscan(s.T.S, &k); err == nil && k >= 0 && k < 128 {
					return Scalar{s.T, to}
				}
			}
			return Scalar{wrapTo(to, s.T), to}
		case fb.Info()&types.IsInteger != 0 && tb.Info()&types.IsFloat != 0:
			x.sym.note("floating point treated as mathematical reals (int->float exact)")
			return Scalar{toReal(s.T), to}
		case fb.Info()&types.IsFloat != 0 && tb.Info()&types.IsInteger != 0:
			x.sym.note("floating point treated as mathematical reals (float->int truncates, then wraps to the target width)")
			return Scalar{wrapTo(to, mk(SInt, "rtrunc", s.T)), to}
		case fb.Info()&types.IsFloat != 0 && tb.Info()&types.IsFloat != 0:
			return Scalar{s.T, to}
		case fb.Info()&types.IsString != 0 && tb.Info()&types.IsString != 0:
			return Scalar{s.T, to}
		case fb.Info()&types.IsInteger != 0 && tb.Info()&types.IsString != 0:
			x.sym.declareFun("str_of_rune", []Sort{SInt}, SStr)
			return Scalar{mk(SStr, "str_of_rune", s.T), to}
		case fb.Kind() == types.UnsafePointer || tb.Kind() == types.UnsafePointer:
			return Scalar{s.T, to}
		}
	}
	// string <-> []byte / []rune: opaque
	if _, isSl := to.Underlying().(*types.Slice); isSl && fok && fb.Info()&types.IsString != 0 {
		x.sym.note("string->slice conversion is opaque")
		sv := x.freshValue(st, "bytes", to).(SliceV)
		if tsl := to.Underlying().(*types.Slice); tsl.Elem().Underlying().(*types.Basic).Kind() == types.Byte {
			st.assume(eq(sv.Len, mk(SInt, "strlen", v.(Scalar).T)))
			// the fresh slice holds the string's bytes: converting it back (while unmodified) gives the string
			x.sym.declareFun("bytes2str", []Sort{SInt, SInt, SInt}, SStr)
			st.assume(eq(mk(SStr, "bytes2str", sv.Arr, sv.Off, sv.Len), v.(Scalar).T))
		}
		return sv
	}
	if _, isSl := from.Underlying().(*types.Slice); isSl && tok && tb.Info()&types.IsString != 0 {
		x.sym.note("string(bytes) is an uninterpreted function of the slice (backing array, offset, length): the bytes are assumed not to change between two conversions of the same slice")
		x.sym.declareFun("bytes2str", []Sort{SInt, SInt, SInt}, SStr)
		sv := v.(SliceV)
		r := Value(Scalar{mk(SStr, "bytes2str", sv.Arr, sv.Off, sv.Len), to})
		if fsl := from.Underlying().(*types.Slice); fsl.Elem().Underlying().(*types.Basic).Kind() == types.Byte {
			st.assume(eq(mk(SInt, "strlen", r.(Scalar).T), sv.Len))
		}
		if true {
			return r
		}
		if fsl := from.Underlying().(*types.Slice); fsl.Elem().Underlying().(*types.Basic).Kind() == types.Byte {
			st.assume(eq(mk(SInt, "strlen", r.(Scalar).T), v.(SliceV).Len))
		}
		return r
	}
	if pt, ok := v.(PtrV); ok {
		if tok && tb.Kind() == types.UnsafePointer {
			return Scalar{x.ptrScalar(pt), to}
		}
		return retype(pt, to)
	}
	if s, ok := v.(Scalar); ok {
		if p, isP := to.Underlying().(*types.Pointer); isP {
			return PtrV{Base: s.T, Root: p.Elem(), Typ: to}
		}
	}
	return retype(v, to)
}

func (x *Exec) evalObserve(sc *specCtx, ob Clause) {
	defer func() {
		if r := recover(); r != nil {
			if ee, ok := r.(engineError); ok {
				if os.Getenv("GOVC_DEBUG") != "" {
					fmt.Fprintf(os.Stderr, "observe %s: %s\n", ob.Label, ee.msg)
				}
				return // not available on this path
			}
			panic(r)
		}
	}()
	v := x.evalSpec(sc, ob.Expr)
	ts := x.flatten(v)
	if len(ts) == 1 {
		x.curObs = append(x.curObs, Observe{ob.Label, ts[0]})
		return
	}
	for i, t := range ts {
		x.curObs = append(x.curObs, Observe{fmt.Sprintf("%s_%d", ob.Label, i), t})
	}
}

// funcValueName gives a stable name to a called function value: the parameter / captured variable name, or
// the struct field it was read from (never an SSA register name when avoidable).
func funcValueName(v ssa.Value) string {
	switch cv := v.(type) {
	case *ssa.Parameter:
		return cv.Name()
	case *ssa.FreeVar:
		return cv.Name()
	case *ssa.Field:
		if st, ok := cv.X.Type().Underlying().(*types.Struct); ok {
			return st.Field(cv.Field).Name()
		}
	case *ssa.UnOp:
		switch a := cv.X.(type) {
		case *ssa.FieldAddr:
			if pt, ok := a.X.Type().Underlying().(*types.Pointer); ok {
				if st, ok := pt.Elem().Underlying().(*types.Struct); ok {
					return st.Field(a.Field).Name()
				}
			}
		case *ssa.FreeVar:
			return a.Name()
		case *ssa.Alloc:
			if a.Comment != "" {
				return a.Comment
			}
		case *ssa.Global:
			return a.Name()
		}
	case *ssa.Phi:
		if cv.Comment != "" {
			return cv.Comment
		}
	case *ssa.Extract:
		if n := debugName(cv); n != "" {
			return n
		}
		return "result" + fmt.Sprint(cv.Index)
	}
	if n := debugName(v); n != "" {
		return n
	}
	return v.Name()
}

// debugName: the source variable that an SSA value is bound to (from its DebugRef referrers), if any.
func debugName(v ssa.Value) string {
	refs := v.Referrers()
	if refs == nil {
		return ""
	}
	for _, r := range *refs {
		if d, ok := r.(*ssa.DebugRef); ok && !d.IsAddr {
			if id, ok := d.Expr.(*ast.Ident); ok {
				if _, isVar := d.Object().(*types.Var); isVar {
					return id.Name
				}
			}
		}
	}
	return ""
}

// modTerm picks the simplest encoding of Go's a % b that the path condition justifies:
//
//	0 <= a < b      -> a
//	0 <= a < 2b     -> wrapmod(a, b)   (an if-then-else; keeps quantified ring obligations linear)
//	a >= 0, b > 0   -> (mod a b)
//	otherwise       -> gomod (truncated remainder spelled out)
func (x *Exec) modTerm(st *State, at, bt Term) Term {
	nonneg := and(mk(SBool, ">=", at, intLit(0)), mk(SBool, ">", bt, intLit(0)))
	if !x.entails(st, nonneg) {
		return mk(SInt, "gomod", at, bt)
	}
	if x.entails(st, mk(SBool, "<", at, bt)) {
		return at
	}
	if x.entails(st, mk(SBool, "<", at, mk(SInt, "*", intLit(2), bt))) {
		return mk(SInt, "wrapmod", at, bt)
	}
	return mk(SInt, "mod", at, bt)
}

// foldCall: call of an iterator-style callee (it does nothing observable but call its function argument some
// number of times). The caller's `fold` invariants must hold before the call and be preserved by one run of
// the callback on arbitrary arguments; they are then assumed after the call. The cells the callback captures
// are havocked.
func (x *Exec) foldCall(st *State, fr *Frame, resInstr ssa.Instruction, fn *ssa.Function, invs []Clause, args []Value, isDefer bool) []*State {
	var cb *FuncV
	for _, a := range args {
		if fv, ok := a.(FuncV); ok && fv.Fn != nil {
			f := fv
			cb = &f
		}
	}
	if cb == nil {
		panic(engineErr("fold %s: no closure argument", fn.Name()))
	}
	rn := relName(fn)
	root := st.frames[0]
	sc := x.specCtxFor(st, fr, root.pre)
	for i, inv := range invs {
		x.assert(st, x.oblName("fold:"+fn.Name()+"/init", i+1, inv.Label), "fold-init", inv.Text, inv.Src, x.evalBool(sc, inv.Expr), true)
	}
	havocCaptured := func(s *State) {
		for _, b := range cb.Bind {
			if p, ok := b.(PtrV); ok && !p.Elem {
				x.store(s, p, x.freshValue(s, "fold", pointee(p)))
			}
		}
	}
	// side path: one step of the callback from an arbitrary state satisfying the invariants
	side := st.clone()
	sfr := side.top()
	havocCaptured(side)
	ssc := x.specCtxFor(side, sfr, side.frames[0].pre)
	for _, inv := range invs {
		side.assume(x.evalBool(ssc, inv.Expr))
	}
	side.trail = append(side.trail, "fold-step:"+fn.Name())
	var cargs []Value
	for _, p := range cb.Fn.Params {
		v := x.freshValue(side, "foldarg_"+p.Name(), p.Type())
		if pv, ok := v.(PtrV); ok {
			side.assume(not(eq(pv.Base, intLit(0))))
		}
		cargs = append(cargs, v)
	}
	// run the callback inline; when it returns, check the invariants and stop
	marker := &foldCheck{invs: invs, name: fn.Name()}
	nf := &Frame{fn: cb.Fn, regs: map[ssa.Value]Value{}, env: map[string]envEntry{}, loopSeen: map[*ssa.BasicBlock]bool{}, depth: len(side.frames), fold: marker}
	for i, p := range cb.Fn.Params {
		nf.regs[p] = cargs[i]
		nf.env[p.Name()] = envEntry{v: cargs[i]}
	}
	for i, fv := range cb.Fn.FreeVars {
		nf.regs[fv] = cb.Bind[i]
		nf.env[fv.Name()] = envEntry{v: cb.Bind[i], isAddr: true}
	}
	_ = sfr
	nf.block = cb.Fn.Blocks[0]
	nf.isDefer = true // result discarded
	side.frames = append(side.frames, nf)
	// main path
	ev := &Event{Kind: "call", Name: rn, Callee: x.funcValue(fn, nil), Args: args, Index: len(st.events)}
	havocCaptured(st)
	msc := x.specCtxFor(st, fr, root.pre)
	for _, inv := range invs {
		st.assume(x.evalBool(msc, inv.Expr))
	}
	var res []Value
	rs := fn.Signature.Results()
	for i := 0; i < rs.Len(); i++ {
		res = append(res, x.freshValue(st, "ret_"+sanitize(rn), rs.At(i).Type()))
	}
	ev.Results = res
	st.events = append(st.events, ev)
	if !isDefer && resInstr != nil {
		x.bindResult(st, fr, resInstr, res)
	}
	return []*State{side}
}

type foldCheck struct {
	invs []Clause
	name string
}

func (x *Exec) foldCheckNow(st *State, fr *Frame, fc *foldCheck) {
	sc := x.specCtxFor(st, fr, st.frames[0].pre)
	for i, inv := range fc.invs {
		x.assert(st, x.oblName("fold:"+fc.name+"/step", i+1, inv.Label), "fold-step", inv.Text, inv.Src, x.evalBool(sc, inv.Expr), true)
	}
}
