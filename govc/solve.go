package main

// Discharging obligations with z3-new / z3 / cvc5.

import (
	"bytes"
	"context"
	"fmt"
	"os"
	"os/exec"
	"path/filepath"
	"sort"
	"strings"
	"sync"
	"time"
)

type OblResult struct {
	Name      string  `json:"name"`
	Kind      string  `json:"kind"`
	Text      string  `json:"text,omitempty"`
	Src       string  `json:"src,omitempty"`
	Status    string  `json:"status"` // proved | failed | unknown | covered | vacuous
	Solver    string  `json:"solver"`
	Ms        int64   `json:"ms"`
	Instances int     `json:"instances"`
	Model     string  `json:"-"`
	Output    string  `json:"-"`
	File      string  `json:"-"`
	FailTrail []string `json:"-"`
	Observed  map[string]string `json:"-"`
	Panicking bool `json:"-"`
	Contract  *FuncContract `json:"-"`
	Func      string  `json:"func"`
	Counts    bool    `json:"counts"`
}

type solverSpec struct {
	name string
	args func(file string, ms int) []string
}

var solvers = []solverSpec{
	{"z3-new", func(f string, ms int) []string { return []string{"z3-new", "-smt2", fmt.Sprintf("-t:%d", ms), f} }},
	{"z3", func(f string, ms int) []string { return []string{"z3", "-smt2", fmt.Sprintf("-t:%d", ms), f} }},
	{"cvc5", func(f string, ms int) []string {
		return []string{"cvc5", "--incremental", fmt.Sprintf("--tlimit-per=%d", ms), f}
	}},
}

func runSolver(sp solverSpec, file string, ms int, n int) ([]string, string, time.Duration) {
	ctx, cancel := context.WithTimeout(context.Background(), time.Duration(ms*(n+1)+5000)*time.Millisecond)
	defer cancel()
	a := sp.args(file, ms)
	cmd := exec.CommandContext(ctx, a[0], a[1:]...)
	var out bytes.Buffer
	cmd.Stdout = &out
	cmd.Stderr = &out
	t0 := time.Now()
	cmd.Run()
	d := time.Since(t0)
	var res []string
	for _, l := range strings.Split(out.String(), "\n") {
		l = strings.TrimSpace(l)
		switch l {
		case "sat", "unsat", "unknown", "timeout":
			res = append(res, l)
		}
	}
	return res, out.String(), d
}

func (x *Exec) emitHeader(texts []string) string {
	var b strings.Builder
	b.WriteString("(set-logic ALL)\n")
	b.WriteString(prelude)
	decls := x.sym.usedDecls(texts)
	for _, d := range decls {
		b.WriteString(d)
		b.WriteByte('\n')
	}
	used := map[string]bool{}
	all := strings.Join(texts, " ")
	for _, v := range x.sym.strList {
		n := x.sym.strs[v]
		if strings.Contains(all, n) {
			used[n] = true
		}
	}
	if strings.Contains(all, "str!empty") {
		used["str!empty"] = true
	}
	for _, a := range x.sym.strAxioms(used) {
		b.WriteString(a)
		b.WriteByte('\n')
	}
	var gk []string
	for k := range x.sym.ground {
		if strings.Contains(all, k) {
			gk = append(gk, k)
		}
	}
	sort.Strings(gk)
	for _, k := range gk {
		b.WriteString(x.sym.ground[k])
		b.WriteByte('\n')
	}
	return b.String()
}

func instanceTexts(o *Obligation) []string {
	var texts []string
	for _, in := range o.Instances {
		for _, ob := range in.Observes {
			texts = append(texts, ob.T.S)
		}
		for _, t := range in.Small {
			texts = append(texts, t.S)
		}
		for _, p := range in.PC {
			texts = append(texts, p.S)
		}
		texts = append(texts, in.Goal.S)
	}
	return texts
}

func (x *Exec) writeQuery(file string, o *Obligation, only []int, withModel bool) error {
	return x.writeQuery2(file, o, only, withModel, false)
}

func (x *Exec) writeQuery2(file string, o *Obligation, only []int, withModel bool, small bool) error {
	texts := instanceTexts(o)
	var b strings.Builder
	if withModel {
		b.WriteString("(set-option :produce-models true)\n")
	}
	b.WriteString("; obligation: " + o.Name + "\n; " + o.Kind + ": " + o.Text + "\n")
	b.WriteString(x.emitHeader(texts))
	idx := only
	if idx == nil {
		for i := range o.Instances {
			idx = append(idx, i)
		}
	}
	for _, i := range idx {
		in := o.Instances[i]
		b.WriteString(fmt.Sprintf("; instance %d trail: %s\n(push 1)\n", i, strings.Join(in.Trail, " ")))
		for _, p := range in.PC {
			b.WriteString("(assert " + p.S + ")\n")
		}
		b.WriteString("(assert (not " + in.Goal.S + "))\n")
		if small {
			for _, t := range in.Small {
				b.WriteString("(assert " + t.S + ")\n")
			}
		}
		b.WriteString("(check-sat)\n")
		if withModel {
			if len(in.Observes) > 0 {
				var ts []string
				for _, ob := range in.Observes {
					ts = append(ts, ob.T.S)
				}
				b.WriteString("(get-value (" + strings.Join(ts, " ") + "))\n")
			}
			b.WriteString("(get-model)\n")
		}
		b.WriteString("(pop 1)\n")
	}
	return os.WriteFile(file, []byte(b.String()), 0o644)
}

// discharge decides one obligation.
func (x *Exec) discharge(o *Obligation, outDir string, timeoutMs int, twoSolvers bool) OblResult {
	res := OblResult{Name: o.Name, Kind: o.Kind, Text: o.Text, Src: o.Src, Instances: len(o.Instances), Func: x.unitName(), Counts: o.Counts}
	want := "unsat"
	if o.Kind == "cover" {
		want = "sat"
	}
	if o.Kind == "cover-any" {
		return x.dischargeCoverAny(o, outDir, timeoutMs, res)
	}
	// trivial instances
	var idx []int
	for i, in := range o.Instances {
		if in.Goal.S == "true" && o.Kind != "cover" {
			continue
		}
		idx = append(idx, i)
	}
	if len(idx) == 0 {
		res.Status = "proved"
		res.Solver = "trivial"
		return res
	}
	file := filepath.Join(outDir, sanitizeFile(o.Name)+".smt2")
	res.File = file
	if err := x.writeQuery(file, o, idx, false); err != nil {
		res.Status = "unknown"
		res.Output = err.Error()
		return res
	}
	pending := idx
	t0 := time.Now()
	var agree map[int]int
	record := func(name string) {
		if res.Solver == "" {
			res.Solver = name
		} else if !strings.Contains(res.Solver, name) {
			res.Solver += "+" + name
		}
	}
	fail := func(sp solverSpec, i int, raw string) OblResult {
		if o.Kind == "cover" {
			res.Status = "vacuous"
		} else {
			res.Status = "failed"
		}
		res.Solver = sp.name
		res.Output = raw
		res.FailTrail = o.Instances[i].Trail
		if o.Kind != "cover" {
			mf := filepath.Join(outDir, sanitizeFile(o.Name)+".model.smt2")
			x.writeQuery(mf, o, []int{i}, true)
			_, mraw, _ := runSolver(sp, mf, timeoutMs, 1)
			if len(o.Instances[i].Small) > 0 {
				// prefer a small counterexample for the replay
				x.writeQuery2(mf, o, []int{i}, true, true)
				if sres, sraw, _ := runSolver(sp, mf, timeoutMs, 1); len(sres) == 1 && sres[0] == "sat" {
					mraw = sraw
				} else {
					x.writeQuery(mf, o, []int{i}, true)
				}
			}
			res.Model = mraw
			res.Observed = parseGetValue(mraw, o.Instances[i].Observes)
			res.Panicking = strings.Contains(o.Kind, "panic")
		}
		res.Ms = time.Since(t0).Milliseconds()
		return res
	}
	// stage 1: the fastest solver with a short budget; stage 2: all solvers race on what is left
	{
		sp := solvers[0]
		short := 2500
		if short > timeoutMs {
			short = timeoutMs
		}
		out, raw, _ := runSolver(sp, file, short, len(pending))
		var still []int
		for k, i := range pending {
			r := "unknown"
			if k < len(out) {
				r = out[k]
			}
			switch {
			case r == want:
				record(sp.name)
			case r == "sat" || r == "unsat":
				return fail(sp, i, raw)
			default:
				still = append(still, i)
				res.Output = raw
			}
		}
		pending = still
	}
	if len(pending) > 0 {
		type ans struct {
			sp  solverSpec
			out []string
			raw string
		}
		ch := make(chan ans, len(solvers))
		for _, sp := range solvers {
			sp := sp
			go func() {
				f := filepath.Join(outDir, sanitizeFile(o.Name)+"."+sp.name+".smt2")
				x.writeQuery(f, o, pending, false)
				out, raw, _ := runSolver(sp, f, timeoutMs, len(pending))
				os.Remove(f)
				ch <- ans{sp, out, raw}
			}()
		}
		decided := map[int]bool{}
		for n := 0; n < len(solvers) && len(decided) < len(pending); n++ {
			a := <-ch
			for k, i := range pending {
				if decided[i] {
					continue
				}
				r := "unknown"
				if k < len(a.out) {
					r = a.out[k]
				}
				switch {
				case r == want:
					decided[i] = true
					record(a.sp.name)
				case r == "sat" || r == "unsat":
					return fail(a.sp, i, a.raw)
				default:
					res.Output = a.raw
				}
			}
		}
		var still []int
		for _, i := range pending {
			if !decided[i] {
				still = append(still, i)
			}
		}
		pending = still
	}
	_ = agree
	res.Ms = time.Since(t0).Milliseconds()
	if len(pending) > 0 {
		res.Status = "unknown"
		if len(pending) > 0 {
			res.FailTrail = o.Instances[pending[0]].Trail
		}
		return res
	}
	if o.Kind == "cover" {
		res.Status = "covered"
	} else {
		res.Status = "proved"
	}
	return res
}

func sanitizeFile(n string) string {
	r := strings.NewReplacer("/", "_", "(", "", ")", "", "*", "", " ", "_", "[", "_", "]", "", "#", "_", ":", "_", "$", "_", "@", "_at_")
	s := r.Replace(n)
	if len(s) > 150 {
		s = s[:150]
	}
	return s
}

// dischargeAll runs obligations in parallel.
func dischargeAll(jobs []func() OblResult, par int) []OblResult {
	out := make([]OblResult, len(jobs))
	var wg sync.WaitGroup
	sem := make(chan struct{}, par)
	for i, j := range jobs {
		wg.Add(1)
		sem <- struct{}{}
		go func(i int, j func() OblResult) {
			defer wg.Done()
			defer func() { <-sem }()
			out[i] = j()
		}(i, j)
	}
	wg.Wait()
	return out
}

func (x *Exec) unitName() string {
	if x.root == nil {
		return "lemma " + x.lemmaName
	}
	return relName(x.root)
}

// entails asks the solver (short timeout) whether the path condition implies t. Used only to pick a
// simpler but equivalent encoding (e.g. plain div/mod for non-negative operands); a "no" is always safe.
func (x *Exec) entails(st *State, t Term) bool {
	if t.S == "true" {
		return true
	}
	if x.entailCache == nil {
		x.entailCache = map[string]bool{}
	}
	var b strings.Builder
	texts := []string{t.S}
	for _, p := range st.pc {
		texts = append(texts, p.S)
	}
	b.WriteString(x.emitHeader(texts))
	for _, p := range st.pc {
		b.WriteString("(assert " + p.S + ")\n")
	}
	b.WriteString("(assert (not " + t.S + "))\n(check-sat)\n")
	q := b.String()
	if v, ok := x.entailCache[q]; ok {
		return v
	}
	f, err := os.CreateTemp("", "govc-entail-*.smt2")
	if err != nil {
		return false
	}
	f.WriteString(q)
	f.Close()
	defer os.Remove(f.Name())
	out, _, _ := runSolver(solvers[0], f.Name(), 400, 1)
	r := len(out) == 1 && out[0] == "unsat"
	x.entailCache[q] = r
	return r
}

// parseGetValue reads the `(get-value ...)` answer: ((term value) (term value) ...), in order.
func parseGetValue(out string, obs []Observe) map[string]string {
	res := map[string]string{}
	if len(obs) == 0 {
		return res
	}
	i := strings.Index(out, "((")
	if i < 0 {
		return res
	}
	// parse s-expressions of the outer list
	pos := i + 1
	k := 0
	for pos < len(out) && k < len(obs) {
		for pos < len(out) && (out[pos] == ' ' || out[pos] == '\n' || out[pos] == '\t') {
			pos++
		}
		if pos >= len(out) || out[pos] != '(' {
			break
		}
		end := matchSexp(out, pos)
		pair := out[pos+1 : end]
		// pair = "<term> <value>"; the term is obs[k].T.S verbatim or re-printed; take the last s-expression as value
		val := lastSexp(pair)
		res[obs[k].Name] = smtValueToGo(val)
		k++
		pos = end + 1
	}
	return res
}

func matchSexp(s string, i int) int {
	depth := 0
	for j := i; j < len(s); j++ {
		switch s[j] {
		case '(':
			depth++
		case ')':
			depth--
			if depth == 0 {
				return j
			}
		}
	}
	return len(s) - 1
}

func lastSexp(s string) string {
	s = strings.TrimSpace(s)
	if strings.HasSuffix(s, ")") {
		depth := 0
		for j := len(s) - 1; j >= 0; j-- {
			switch s[j] {
			case ')':
				depth++
			case '(':
				depth--
				if depth == 0 {
					return s[j:]
				}
			}
		}
	}
	if j := strings.LastIndexAny(s, " \n\t"); j >= 0 {
		return s[j+1:]
	}
	return s
}

// smtValueToGo renders an SMT numeral/boolean as Go literal text: (- 5) -> -5, (/ 1.0 2.0) -> (1.0/2.0).
func smtValueToGo(v string) string {
	v = strings.TrimSpace(v)
	if strings.HasPrefix(v, "(- ") {
		return "-" + smtValueToGo(v[3:len(v)-1])
	}
	if strings.HasPrefix(v, "(/ ") {
		parts := strings.Fields(v[3 : len(v)-1])
		if len(parts) == 2 {
			return "(" + smtValueToGo(parts[0]) + "/" + smtValueToGo(parts[1]) + ")"
		}
	}
	return v
}

func (x *Exec) dischargeCoverAny(o *Obligation, outDir string, timeoutMs int, res OblResult) OblResult {
	file := filepath.Join(outDir, sanitizeFile(o.Name)+".smt2")
	res.File = file
	// cheapest instances first (few quantified facts, short path condition)
	idx := make([]int, len(o.Instances))
	cost := make([]int, len(o.Instances))
	for i, in := range o.Instances {
		idx[i] = i
		for _, p := range in.PC {
			cost[i] += 1 + 50*strings.Count(p.S, "forall")
		}
	}
	sort.Slice(idx, func(a, b int) bool { return cost[idx[a]] < cost[idx[b]] })
	t0 := time.Now()
	allUnsat := true
	tried := 0
	for _, i := range idx {
		if tried >= 8 {
			allUnsat = false
			break
		}
		tried++
		if err := x.writeQuery(file, o, []int{i}, false); err != nil {
			res.Status = "unknown"
			return res
		}
		decided := false
		for _, sp := range solvers[:2] {
			out, raw, _ := runSolver(sp, file, 1500, 1)
			res.Output = raw
			if len(out) == 1 && out[0] == "sat" {
				res.Status = "covered"
				res.Solver = sp.name
				res.Ms = time.Since(t0).Milliseconds()
				return res
			}
			if len(out) == 1 && out[0] == "unsat" {
				decided = true
				break
			}
		}
		if !decided {
			allUnsat = false
		}
	}
	res.Ms = time.Since(t0).Milliseconds()
	if allUnsat && tried == len(idx) {
		res.Status = "vacuous"
		res.Solver = "z3"
		return res
	}
	// undecided reachability is not an alarm
	res.Status = "covered"
	res.Solver = "undecided(sat not confirmed)"
	return res
}
