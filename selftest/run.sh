#!/bin/sh
# /verif/selftest/run.sh [<property-id> ...]
# Must-fail corpus: applies every /verif/selftest/mutants/<id>-*.patch and /verif/seeded/<id>/*/patch.diff to a scratch
# copy of /repo's working tree (outside /repo and /verif, removed afterwards), runs the property's quick check
# against the copy and requires a VIOLATION. Also requires silence on the unchanged copy.
VERIF=${VERIF_ROOT:-$(cd "$(dirname "$0")/.." && pwd)}
BASE=${VERIF_BASE_REPO:-/repo}
ids="$*"
[ -z "$ids" ] && ids=$(ls $VERIF/selftest/mutants $VERIF/seeded 2>/dev/null | sed -n 's/^\(C[0-9][0-9]\).*/\1/p' | sort -u)
fail=0
for id in $ids; do
  [ -f "$VERIF/props/$id.json" ] || continue
  patches=$(ls $VERIF/selftest/mutants/$id-*.patch $VERIF/seeded/$id/*/patch.diff 2>/dev/null)
  for p in "" $patches; do
    S=$(mktemp -d ${TMPDIR:-/tmp}/verif-scratch-XXXXXX)
    rsync -a --exclude .git $BASE/ $S/
    name=${p:-unchanged}
    if [ -n "$p" ]; then
      (cd $S && patch -p1 -s --no-backup-if-mismatch < $p) || { echo "SELFTEST $id $name: patch does not apply"; fail=1; rm -rf $S; continue; }
    fi
    out=$(VERIF_REPO=$S VERIF_SELFTEST=1 $VERIF/bin/check $id --tier quick 2>&1); rc=$?
    rm -rf $S
    if [ -z "$p" ]; then
      if [ $rc -ne 0 ]; then echo "SELFTEST $id unchanged: ALARM on the unchanged tree"; echo "$out" | grep VIOLATION; fail=1; else echo "SELFTEST $id unchanged: silent (ok)"; fi
    else
      if [ $rc -eq 1 ] && echo "$out" | grep -q "^VIOLATION property=$id"; then
        echo "SELFTEST $id $(basename $(dirname $p))/$(basename $p): caught: $(echo "$out" | grep -A1 '^VIOLATION' | sed -n 2p | cut -c1-160)"
      else
        echo "SELFTEST $id $p: MISSED (rc=$rc)"; fail=1
      fi
    fi
  done
done
exit $fail
