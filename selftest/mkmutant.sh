#!/bin/bash
# mkmutant.sh <id> <name> <file-relative-to-repo> <python-old> <python-new>   (exact string replace, must occur once)
id=$1; name=$2; file=$3; old=$4; new=$5
S=$(mktemp -d /tmp/verif-mut-XXXXXX)
mkdir -p $S/a/$(dirname $file) $S/b/$(dirname $file)
cp /repo/$file $S/a/$file
python3 - "$S/a/$file" "$S/b/$file" "$old" "$new" <<'P'
import sys
s=open(sys.argv[1]).read()
old,new=sys.argv[3],sys.argv[4]
assert s.count(old)==1, ("occurrences", s.count(old))
open(sys.argv[2],'w').write(s.replace(old,new))
P
[ $? -eq 0 ] || { echo "mutant $name: pattern problem"; rm -rf $S; exit 1; }
(cd $S && diff -u a/$file b/$file > /verif/selftest/mutants/$id-$name.patch)
rm -rf $S
echo "wrote /verif/selftest/mutants/$id-$name.patch"
